"""Mode L: property-level lemmas over the *real* scalar formulas.

The repository function is executed by CPython on a symbolic real (SymReal);
numpy's transcendental ufuncs dispatch to uninterpreted z3 functions.  Lemmas
are then discharged by z3/cvc5 in nonlinear real arithmetic from explicitly
listed *instances* of the functions' standard laws (exp positive, monotone,
exp(a+b) = exp a * exp b, log/exp inverse, tanh/atanh by definition through exp
and log) -- every instance used is a trusted fact about the real exp/log.
"""
import z3, numpy
from . import sym
from .sym import SymReal, SymInt, SymBool, wrap, _t

R = z3.RealSort()
EXP = z3.Function("EXP", R, R)
LOG = z3.Function("LOG", R, R)
SQRT = z3.Function("SQRT", R, R)
POW = z3.Function("POW", R, R, R)


def _r(x):
    t = _t(x)
    return z3.ToReal(t) if t.sort() == z3.IntSort() else t


def exp(x): return wrap(EXP(_r(x)))
def log(x): return wrap(LOG(_r(x)))
def sqrt(x):
    """sqrt as an uninterpreted function; its defining instance (sqrt(a) >= 0, sqrt(a)^2 == a for a >= 0) is
    assumed for every term created while a path is explored (trusted law instance)"""
    a = _r(x)
    if sym.active():
        sym.cur().assume(z3.Implies(a >= 0, z3.And(SQRT(a) >= 0, SQRT(a) * SQRT(a) == a)))
    return wrap(SQRT(a))


def tanh(x):
    e2 = EXP(2 * _r(x))
    return wrap((e2 - 1) / (e2 + 1))


def arctanh(y):
    y = _r(y)
    return wrap(z3.RealVal("1/2") * LOG((1 + y) / (1 - y)))


UFUNCS = {"exp": exp, "log": log, "sqrt": sqrt, "tanh": tanh, "arctanh": arctanh,
          "add": lambda a, b: a + b, "subtract": lambda a, b: a - b, "multiply": lambda a, b: a * b,
          "true_divide": lambda a, b: a / b, "divide": lambda a, b: a / b, "negative": lambda a: -a, "absolute": abs,
          "less": lambda a, b: a < b, "less_equal": lambda a, b: a <= b, "greater": lambda a, b: a > b,
          "greater_equal": lambda a, b: a >= b, "equal": lambda a, b: a == b, "not_equal": lambda a, b: a != b,
          "square": lambda a: a * a,
          "power": lambda a, b: a ** b}


def _sym_array_ufunc(self, ufunc, method, *inputs, **kw):
    f = UFUNCS.get(ufunc.__name__)
    if method != "__call__" or f is None or any(isinstance(x, numpy.ndarray) for x in inputs):
        return NotImplemented
    return f(*inputs)


# enable numpy.<ufunc>(SymReal/SymInt): dispatched here instead of raising
sym.SymReal.__array_ufunc__ = _sym_array_ufunc
sym.SymInt.__array_ufunc__ = _sym_array_ufunc


def _pow(self, o):
    if isinstance(o, int) and 0 <= o <= 8:
        r = z3.RealVal(1)
        for _ in range(o):
            r = r * _r(self)
        return wrap(r)
    return wrap(POW(_r(self), _r(o)))


sym.SymReal.__pow__ = _pow
sym.SymInt.__pow__ = lambda self, o: _pow(SymReal(z3.ToReal(self.t)), o) if not (isinstance(o, int) and o >= 0) else \
    wrap(z3.simplify(self.t ** o if False else _int_pow(self.t, o)))


def _int_pow(t, o):
    r = z3.IntVal(1)
    for _ in range(o):
        r = r * t
    return r


def _rpow(self, base):
    # python_number ** symbolic
    return wrap(POW(_r(base), _r(self)))


sym.SymReal.__rpow__ = _rpow
sym.SymInt.__rpow__ = _rpow

# ---- instances of the standard laws (each call returns a z3 fact; all are trusted) ----
def exp_pos(x): return EXP(_r(x)) > 0
def exp_zero(): return EXP(z3.RealVal(0)) == 1
def exp_add(a, b): return EXP(_r(a) + _r(b)) == EXP(_r(a)) * EXP(_r(b))
def exp_mono(a, b): return z3.And(z3.Implies(_r(a) < _r(b), EXP(_r(a)) < EXP(_r(b))), z3.Implies(_r(a) == _r(b), EXP(_r(a)) == EXP(_r(b))))
def log_exp(x): return LOG(EXP(_r(x))) == _r(x)
def exp_log(y): return z3.Implies(_r(y) > 0, EXP(LOG(_r(y))) == _r(y))
def pow_succ(x, k): return POW(_r(x), _r(k) + 1) == _r(x) * POW(_r(x), _r(k))
def pow_one(x): return POW(_r(x), z3.RealVal(1)) == _r(x)
def pow_zero(x): return POW(_r(x), z3.RealVal(0)) == 1
def pow_mul(x, y, k): return POW(_r(x) * _r(y), _r(k)) == POW(_r(x), _r(k)) * POW(_r(y), _r(k))
def sqrt_def(x): return z3.Implies(_r(x) >= 0, z3.And(SQRT(_r(x)) >= 0, SQRT(_r(x)) * SQRT(_r(x)) == _r(x)))


TRUST = ["real exp/log/sqrt/pow laws used as explicit instances: exp>0, exp 0=1, exp(a+b)=exp a*exp b, exp strictly monotone, "
         "log(exp x)=x, exp(log y)=y for y>0, x^(k+1)=x*x^k, (xy)^k=x^k y^k, sqrt(x)^2=x; tanh/arctanh by definition through exp/log",
         "floating point read as real arithmetic in mode L (IEEE special values inf/0 checked natively on the real function)"]


def real(name):
    return SymReal(z3.Real(name))
