"""Entropy frames (C08): which sources of randomness a function may touch.

Read from the function's current AST (re-parsed from the repository on every
run).  A *reference to an entropy source* is any use of
  numpy.random.* / np.random.* / random.* / py_random.* (module streams),
  global_prng, default_rng / RandomState / Generator / PCG64 / SeedSequence constructors,
  time.* , os.urandom, uuid.*, secrets.*
The frame `DrawsOnlyFrom(rng)` allows: calls on the parameter / attribute that
holds the designated generator (`rng`, `self.rng`, `self._rng`), and the default
resolution `if <x> is None: <x> = global_prng`.  Everything else is a violation
of the frame.  The analysis is syntactic and per function: callees are covered
by their own frame obligation.
"""
import ast
from .loopcut import read_source, find_def

MODULE_STREAMS = {("numpy", "random"), ("np", "random")}
STREAM_NAMES = {"random", "py_random"}
CTORS = {"default_rng", "RandomState", "Generator", "PCG64", "MT19937", "Philox", "SFC64", "SeedSequence"}
OTHER = {("time",), ("os", "urandom"), ("uuid",), ("secrets",)}


def _chain(node):
    parts = []
    while isinstance(node, ast.Attribute):
        parts.append(node.attr)
        node = node.value
    if isinstance(node, ast.Name):
        parts.append(node.id)
        return tuple(reversed(parts))
    return None


def entropy_refs(fn_node, allow_default=True):
    """list of (lineno, description) of entropy references outside the allowed frame"""
    allowed_nodes = set()
    if allow_default:
        for n in ast.walk(fn_node):
            if isinstance(n, ast.If) and isinstance(n.test, ast.Compare) and len(n.test.ops) == 1 \
                    and isinstance(n.test.ops[0], ast.Is) and isinstance(n.test.comparators[0], ast.Constant) \
                    and n.test.comparators[0].value is None:
                for s in n.body:
                    if isinstance(s, ast.Assign) and isinstance(s.value, ast.Name) and s.value.id == "global_prng":
                        allowed_nodes.add(id(s.value))
    out = []
    # annotations (parameter / return / variable) name types, they are not references to a source
    skip = set()
    for n in ast.walk(fn_node):
        anns = []
        if isinstance(n, (ast.FunctionDef, ast.AsyncFunctionDef)):
            a = n.args
            anns += [x.annotation for x in a.posonlyargs + a.args + a.kwonlyargs + [a.vararg, a.kwarg] if x is not None]
            anns.append(n.returns)
        elif isinstance(n, ast.AnnAssign):
            anns.append(n.annotation)
        for an in anns:
            if an is not None:
                skip.update(id(x) for x in ast.walk(an))
    called = {id(n.func) for n in ast.walk(fn_node) if isinstance(n, ast.Call)}
    for n in ast.walk(fn_node):
        if id(n) in skip:
            continue
        if isinstance(n, ast.Name):
            if n.id == "global_prng" and id(n) not in allowed_nodes:
                out.append((n.lineno, "global_prng"))
            if n.id in CTORS and isinstance(n.ctx, ast.Load) and id(n) in called:
                out.append((n.lineno, n.id + "(...)"))
        elif isinstance(n, ast.Attribute):
            ch = _chain(n)
            if ch is None:
                continue
            if len(ch) >= 3 and (ch[0], ch[1]) in MODULE_STREAMS:
                if ch[2] in ("Generator", "RandomState", "BitGenerator") and id(n) not in called:
                    continue        # the class named in an isinstance test / type check, not constructed
                out.append((n.lineno, ".".join(ch[:3])))
            elif len(ch) == 2 and ch[0] in STREAM_NAMES:
                out.append((n.lineno, ".".join(ch)))
            elif ch[:1] in OTHER or ch[:2] in OTHER:
                out.append((n.lineno, ".".join(ch[:2])))
    # de-duplicate nested attribute chains reported at the same line
    seen, res = set(), []
    for ln, d in out:
        if (ln, d) not in seen:
            seen.add((ln, d))
            res.append((ln, d))
    return res


def function_node(relpath, qualname):
    return find_def(ast.parse(read_source(relpath)), qualname)


def designated_draws(fn_node, holders=("rng",)):
    """number of call sites of the form <holder>.<method>(...) / self.rng.<method>(...)"""
    k = 0
    for n in ast.walk(fn_node):
        if isinstance(n, ast.Call) and isinstance(n.func, ast.Attribute):
            ch = _chain(n.func)
            if ch and (ch[0] in holders or ch[:2] in (("self", "rng"), ("self", "_rng"))):
                k += 1
    return k


def mutable_defaults(fn_node):
    """parameter defaults that are mutable objects created once at definition time (hidden state shared by all calls):
    list / dict / set displays and comprehensions, and calls (dict(), list(), numpy.zeros(..), ...)"""
    a = fn_node.args
    out = []
    params = a.posonlyargs + a.args
    for prm, d in list(zip(params[len(params) - len(a.defaults):], a.defaults)) + \
            [(prm, d) for prm, d in zip(a.kwonlyargs, a.kw_defaults) if d is not None]:
        if isinstance(d, (ast.List, ast.Dict, ast.Set, ast.ListComp, ast.DictComp, ast.SetComp, ast.Call)):
            out.append((d.lineno, "%s=%s" % (prm.arg, ast.unparse(d))))
    return out


def methods_named(relpath, names):
    """(qualname, node) of every function in the file whose name is in `names` (top level or in a class)"""
    tree = ast.parse(read_source(relpath))
    out = []
    for n in tree.body:
        if isinstance(n, ast.FunctionDef) and n.name in names:
            out.append((n.name, n))
        elif isinstance(n, ast.ClassDef):
            for f in n.body:
                if isinstance(f, ast.FunctionDef) and f.name in names:
                    out.append((n.name + "." + f.name, f))
    return out


_HIDDEN_CACHE = {}


def hidden_rng_helpers():
    """names of third-party helpers that own a generator of their own: functions of the installed pymoo package decorated with
    @default_random_state (called without random_state= they draw from numpy.random.default_rng(None), i.e. operating-system entropy)"""
    if "names" in _HIDDEN_CACHE:
        return _HIDDEN_CACHE["names"]
    names = set()
    try:
        import importlib.util
        import os
        spec = importlib.util.find_spec("pymoo")
        root = os.path.dirname(spec.origin) if spec and spec.origin else None
        for dp, _, fs in os.walk(root or ""):
            for f in fs:
                if not f.endswith(".py"):
                    continue
                try:
                    tree = ast.parse(open(os.path.join(dp, f), encoding="utf-8", errors="replace").read())
                except SyntaxError:
                    continue
                for n in ast.walk(tree):
                    if isinstance(n, (ast.FunctionDef, ast.AsyncFunctionDef)):
                        for d in n.decorator_list:
                            dn = d.func if isinstance(d, ast.Call) else d
                            nm = dn.id if isinstance(dn, ast.Name) else dn.attr if isinstance(dn, ast.Attribute) else ""
                            if nm == "default_random_state":
                                names.add(n.name)
    except Exception:
        pass
    _HIDDEN_CACHE["names"] = names
    return names


def hidden_rng_calls(fn_node, module_tree=None):
    """call sites that draw from a generator the caller cannot seed: a helper of `hidden_rng_helpers()` that the module imports
    by name from the third-party package and calls without a `random_state=` argument, or default_rng() / RandomState() /
    SeedSequence() constructed without a seed"""
    helpers = hidden_rng_helpers()
    imported = set()
    if module_tree is not None:
        for n in ast.walk(module_tree):
            if isinstance(n, ast.ImportFrom) and (n.module or "").split(".")[0] == "pymoo":
                imported.update((a.asname or a.name) for a in n.names if a.name in helpers)
    out = []
    for n in ast.walk(fn_node):
        if not isinstance(n, ast.Call):
            continue
        f = n.func
        kws = {k.arg for k in n.keywords}
        if isinstance(f, ast.Name) and f.id in imported and "random_state" not in kws and not any(k.arg is None for k in n.keywords):
            out.append((n.lineno, "%s(...) without random_state=: draws from an operating-system seeded generator" % f.id))
        nm = f.id if isinstance(f, ast.Name) else f.attr if isinstance(f, ast.Attribute) else None
        if nm in ("default_rng", "RandomState", "SeedSequence") and not n.args and not (kws - {"random_state"}):
            out.append((n.lineno, "%s() without a seed" % nm))
    return out
