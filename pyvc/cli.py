"""Command line driver: verdicts, known findings, evidence, pinning, replay."""
import os, sys, json, time, argparse, fnmatch, hashlib, importlib, traceback

from . import REPO, VERIF, unit as U


def load_findings():
    path = os.path.join(VERIF, "known_findings.jsonl")
    out = []
    if os.path.exists(path):
        for line in open(path):
            line = line.strip()
            if line and not line.startswith("#"):
                out.append(json.loads(line))
    return out


def match_finding(findings, prop, unit, obligation=None, cls=None):
    for f in findings:
        if f.get("property") != prop or f.get("status") != "known":
            continue
        m = f.get("match", {})
        if "unit" in m and not any(fnmatch.fnmatch(unit, u) for u in (m["unit"] if isinstance(m["unit"], list) else [m["unit"]])):
            continue
        def _any(val, pats):
            pats = pats if isinstance(pats, list) else [pats]
            return any(fnmatch.fnmatchcase(val, p) for p in pats)
        if obligation is not None:
            if "obligation" not in m or not _any(obligation, m["obligation"]):
                continue
        if cls is not None:
            if "cls" not in m or not _any(cls, m["cls"]):
                continue
        return f
    return None


def write_replay(prop, unit, obligation, payload):
    d = os.path.join(VERIF, "replays", prop)
    os.makedirs(d, exist_ok=True)
    body = dict(property=prop, unit=unit, obligation=obligation, **payload)
    h = hashlib.sha256(json.dumps(body, sort_keys=True, default=str).encode()).hexdigest()[:10]
    safe = "".join(c if c.isalnum() or c in "-_." else "_" for c in (unit + "-" + obligation))[:90]
    path = os.path.join(d, "%s-%s.json" % (safe, h))
    with open(path, "w") as f:
        json.dump(body, f, indent=1, default=str)
    return os.path.relpath(path, VERIF)


def base_name(ob):
    return ob["name"]


def main(argv=None):
    ap = argparse.ArgumentParser()
    ap.add_argument("prop")
    ap.add_argument("--tier", default=os.environ.get("VERIF_TIER", "quick"), choices=["quick", "thorough"])
    ap.add_argument("--only", action="append")
    ap.add_argument("--pin", action="store_true")
    ap.add_argument("--replay")
    ap.add_argument("--jobs", type=int)
    ap.add_argument("-v", action="store_true")
    a = ap.parse_args(argv)
    prop = a.prop
    seed = int(os.environ.get("VERIF_SEED", "0") or 0)
    t0 = time.time()

    if a.replay:
        return do_replay(prop, a.replay)

    try:
        results = U.run_units(prop, a.tier, seed, a.only, a.jobs)
    except Exception:
        traceback.print_exc()
        print("TOOL-ERROR property=%s could not run units" % prop)
        return 3
    # second attempt: a proof unit with a few `unknown` (not refuted) obligations is re-run alone with three times the solver
    # budget before anything is concluded from it -- `unknown` under machine load must not become a verdict
    try:
        retry = [r["unit"] for r in results if r["mode"] != "R" and not r["crashed"] and 0 < sum(
            1 for o in r["obligations"] if o["expect"] == "proved" and o["status"] == "unknown" and o["kind"] != "unsupported") <= 6]
        if retry and not os.environ.get("PYVC_TIMEOUT_SCALE"):
            # solver budgets are wall-clock: on a machine whose cores are all busy the same query gets a fraction of a core, so the
            # second attempt's factor grows with the load average (3x idle, up to 12x when every core is taken)
            try:
                load = os.getloadavg()[0] / float(os.cpu_count() or 1)
            except OSError:
                load = 0.0
            os.environ["PYVC_TIMEOUT_SCALE"] = "%.1f" % (3.0 * max(1.0, min(4.0, 1.0 + 3.0 * load)))
            try:
                again = U.run_units(prop, a.tier, seed, retry, 2)
            finally:
                del os.environ["PYVC_TIMEOUT_SCALE"]
            byname = {r["unit"]: r for r in again if not r["crashed"]}
            results = [byname.get(r["unit"], r) for r in results]
            print("second attempt with a larger solver budget (3x, more under machine load) for %d unit(s): %s" % (len(retry), "; ".join(u[:60] for u in retry)))
    except Exception:
        traceback.print_exc()
    findings = load_findings()
    exp_path = os.path.join(VERIF, "expected", "%s.json" % prop)
    expected = json.load(open(exp_path)) if os.path.exists(exp_path) else {}

    crashed = []
    ring_stopped = []
    for r in results:
        if not r["crashed"]:
            continue
        exp_u = expected.get("units", {}).get(r["unit"], {})
        changed = exp_u.get("files") is not None and exp_u.get("files") != r["files"]
        if changed and r["mode"] == "R":
            # a native ring that crashed or was stopped by its time / memory limit on CHANGED source: its bounded exploration is
            # lost on this tree; neither a verdict nor a tool error (a traceback or timeout is never mapped to a violation)
            print("RING-STOPPED unit=%s on changed source: %s" % (r["unit"], r["crashed"].strip().splitlines()[-1][:300]))
            ring_stopped.append(r["unit"])
            r["crashed"] = None
            continue
        if changed and r["mode"] != "R":
            # a proof unit whose harness cannot follow CHANGED source: the proof is lost on this tree (not a verdict and not
            # a tool error; DESIGN 5.4).  It becomes an unsupported obligation, so the native rings are escalated to decide.
            r["obligations"].append(dict(name="%s:supported-subset" % r["unit"], unit=r["unit"], kind="unsupported", path=0,
                                         status="unknown", solver="front-end", seconds=0.0, expect="proved",
                                         detail="UNSUPPORTED harness exception on changed source\n%s" % r["crashed"][-1500:]))
            r["crashed"] = None
            continue
        crashed.append(r)
        print("TOOL-ERROR unit=%s\n%s" % (r["unit"], r["crashed"]))
    n_obl = sum(len(r["obligations"]) for r in results)
    n_eval = sum(r["evaluations"] for r in results)
    if not results or (n_obl == 0 and n_eval == 0):
        print("TOOL-ERROR property=%s produced no obligations and no evaluations (vacuous run)" % prop)
        return 3

    violations, known, undecided, tool_err = [], [], [], bool(crashed)
    proof_lost = []
    # escalation: a failed proof obligation triggers the thorough native rings as counterexample search
    failed_proof_units = [r for r in results if any(o["expect"] == "proved" and o["status"] != "proved"
                                                    for o in r["obligations"])]
    if failed_proof_units and a.tier == "quick" and not a.only and not any(
            not match_finding(findings, prop, r["unit"], cls=f["cls"] or "?") for r in results for f in r["failures"]):
        need = [o for r in failed_proof_units for o in r["obligations"]
                if o["expect"] == "proved" and o["status"] != "proved"
                and not match_finding(findings, prop, r["unit"], obligation=o["name"])]
        if need:
            try:
                ring_names = [s.name for s in U.UNITS.get(prop, []) if s.mode == "R"]
                if ring_names:
                    print("escalating: thorough native rings as counterexample search for %d open obligation(s)" % len(need))
                    extra = U.run_units(prop, "thorough", seed, ring_names, a.jobs)
                    have = {r["unit"] for r in results}
                    for r in extra:
                        r["escalated"] = True
                        if r["unit"] in have:
                            results = [x for x in results if x["unit"] != r["unit"]]
                        results.append(r)
            except Exception:
                traceback.print_exc()

    def _new_native(rr):
        return [f for f in rr["failures"] if not match_finding(findings, prop, rr["unit"], cls=f["cls"] or "?")]
    any_new_native = any(_new_native(rr) for rr in results)
    # units with a counter-model that was replayed natively: their other open obligations are listed with it, not reported apart
    confirmed_units = {rr["unit"] for rr in results for o in rr["obligations"]
                       if (o.get("native") or {}).get("confirmed") and o["expect"] == "proved" and o["status"] != "proved"
                       and not match_finding(findings, prop, rr["unit"], obligation=o["name"])}
    attributed = []
    for r in results:
        exp_u = expected.get("units", {}).get(r["unit"], {})
        changed = exp_u.get("files") is not None and exp_u.get("files") != r["files"]
        # native failing inputs
        for f in r["failures"]:
            kf = match_finding(findings, prop, r["unit"], cls=f["cls"] or "?")
            rp = write_replay(prop, r["unit"], f["obligation"], dict(kind="native", cls=f["cls"], input=f["input"],
                                                                       message=f["message"]))
            if kf:
                known.append((kf, rp, f))
            else:
                violations.append(("VIOLATION property=%s replay=%s" % (prop, rp), f["obligation"], f["message"]))
        for o in r["obligations"]:
            if o["expect"] == "fail":
                if o["status"] == "proved":
                    if changed:
                        # on changed source a canary may hold on a path the change introduced; reported, not a verdict
                        print("CANARY-DISCHARGED %s (source changed since pinning; ignored for the verdict)" % o["name"])
                    else:
                        print("TOOL-ERROR canary %s was discharged: the obligation set is vacuous or the engine unsound" % o["name"])
                        tool_err = True
                continue
            if o["status"] == "proved":
                continue
            kf = match_finding(findings, prop, r["unit"], obligation=o["name"])
            if kf:
                rp = write_replay(prop, r["unit"], o["name"], dict(kind="obligation", status=o["status"],
                                                                     solver_output=o.get("detail"), goal=o.get("goal")))
                known.append((kf, rp, o))
                continue
            if (_new_native(r) or any_new_native or r["unit"] in confirmed_units) and not (o.get("native") or {}).get("confirmed"):
                # a ring found a NEW failing input for this property (reported with its replay); the open obligation is
                # attributed to it (listed, not a second verdict)
                attributed.append((o["name"], r["unit"], o["status"]))
                continue
            was_proved = o["name"] in exp_u.get("proved", [])
            rp = write_replay(prop, r["unit"], o["name"], dict(kind="obligation", status=o["status"],
                                                                 solver=o.get("solver"), solver_output=o.get("detail"),
                                                                 goal=o.get("goal"), files_changed=changed, model=o.get("model"),
                                                                 native_replay=o.get("native"),
                                                                 note=("the counter-model was replayed on the real code with ordinary numpy arrays "
                                                                       "(native_replay.inputs) and the obligation is false there as well")
                                                                 if (o.get("native") or {}).get("confirmed") else
                                                                 "no concrete failing input found by finite instantiation / native rings"))
            if o["kind"] == "cover" and changed and r["mode"] != "R":
                # a cover ("returns on some path", "every symbolic loop was cut") that fails on CHANGED source says the harness did
                # not get through the new code, nothing about the property
                proof_lost.append((r["unit"], "cover obligation %s failed on changed source" % o["name"]))
                continue
            if o["kind"] == "noraise" and changed and r["mode"] != "R" and "ContractViolation" not in (o.get("detail") or ""):
                # an exception under proxy execution of CHANGED source: the harness (stub objects, symbolic arrays) may simply not
                # follow the new code (e.g. a helper method extracted onto `self`).  Not a verdict: the proof is lost and the
                # native rings, which run the real objects, decide whether the code raises on valid inputs.
                proof_lost.append((r["unit"], "exception under proxy execution of changed source: " +
                                   (o.get("detail") or "")[:300].replace("\n", " ")))
                continue
            if o["kind"] == "unsupported":
                # the function left the verifiable subset / the loop structure no longer matches the
                # invariants: the proof is lost, which is not a violation (DESIGN 5.4).  The native rings
                # (escalated to the thorough tier above) stand in; the loss is reported, exit status unaffected.
                proof_lost.append((r["unit"], o.get("detail", "")[:300].replace("\n", " ")))
                continue
            if exp_u and not changed:
                undecided.append((o["name"], "source digest unchanged; solver said %s" % o["status"]))
            elif (o.get("native") or {}).get("confirmed"):
                violations.append(("VIOLATION property=%s replay=%s" % (prop, rp), o["name"],
                                   "obligation refuted (%s) and its counter-model replayed on the real code%s" % (
                                       o.get("solver"), "; proved on the pinned tree" if was_proved else "")))
            else:
                violations.append(("VIOLATION property=%s replay=%s no-failing-input-found" % (prop, rp), o["name"],
                                   "obligation %s (%s)%s" % (o["status"], o.get("solver"),
                                                             "; proved on the pinned tree" if was_proved else "")))

    wall = time.time() - t0
    write_evidence(prop, a.tier, seed, results, violations, known, undecided, wall, proof_lost)

    if a.pin:
        do_pin(prop, results, exp_path)

    byid = {}
    for kf, rp, _ in known:
        byid.setdefault(kf.get("id", ""), [kf, rp, 0])[2] += 1
    for fid, (kf, rp, n) in sorted(byid.items()):
        print("KNOWN-FINDING: property=%s %s [%s; %d failing obligation(s)/input(s) in the recorded class] replay=%s" % (
            prop, kf.get("what", ""), fid, n, rp))
    for pl in proof_lost:
        print("PROOF-LOST unit=%s reason=%s" % pl)
    if a.v or violations or undecided:
        for r in results:
            bad = [o for o in r["obligations"] if o["expect"] == "proved" and o["status"] != "proved"]
            print("unit %-55s mode=%s obligations=%d open=%d evals=%d paths=%d wall=%.1fs" % (
                r["unit"], r["mode"], len(r["obligations"]), len(bad), r["evaluations"], r["paths"], r["wall_s"]))
            for o in bad[:12]:
                print("   OPEN %s [%s/%s %.1fs]" % (o["name"], o["status"], o.get("solver"), o["seconds"]))
    if tool_err:
        return 3
    if violations:
        for nm, un, stt in attributed[:40]:
            print("  FAILED-OBLIGATION %s [%s] (%s) -- attributed to the replayed failing input(s) below" % (nm, un, stt))
        if len(attributed) > 40:
            print("  ... and %d more failed obligations" % (len(attributed) - 40))
        seen = set()
        for line, ob, msg in violations:
            if line in seen:
                continue
            seen.add(line)
            print("  failed obligation: %s -- %s" % (ob, msg[:400]))
            print(line)
        return 1
    if undecided:
        for ob, why in undecided:
            print("UNDECIDED obligation=%s (%s)" % (ob, why))
        return 2
    tot = sum(len(r["obligations"]) for r in results)
    print("OK property=%s tier=%s units=%d obligations=%d evaluations=%d known_findings=%d wall=%.1fs" % (
        prop, a.tier, len(results), tot, sum(r["evaluations"] for r in results), len(known), wall))
    return 0


def do_pin(prop, results, exp_path):
    os.makedirs(os.path.dirname(exp_path), exist_ok=True)
    units = {}
    for r in results:
        units[r["unit"]] = dict(files=r["files"], functions=r["functions"],
                                proved=sorted({o["name"] for o in r["obligations"] if o["status"] == "proved" and o["expect"] == "proved"}))
    old = json.load(open(exp_path)) if os.path.exists(exp_path) else {"units": {}}
    old.setdefault("units", {}).update(units)
    with open(exp_path, "w") as f:
        json.dump(old, f, indent=1, sort_keys=True)
    print("pinned %d unit(s) to %s" % (len(units), os.path.relpath(exp_path, VERIF)))
    # local-variable order of every extracted function (used to recognise pure renamings, see loopcut.Extracted)
    lp = os.path.join(VERIF, "expected", "locals.json")
    loc = json.load(open(lp)) if os.path.exists(lp) else {}
    for r in results:
        loc.update(r.get("locals") or {})
    with open(lp, "w") as f:
        json.dump(loc, f, indent=1, sort_keys=True)


def write_evidence(prop, tier, seed, results, violations, known, undecided, wall, proof_lost=()):
    evdir = os.environ.get("PYVC_EVIDENCE_DIR") or os.path.join(VERIF, "evidence")     # override: development dry runs only
    os.makedirs(evdir, exist_ok=True)
    proof_units = [r for r in results if not r["bounded"]]
    bounded_units = [r for r in results if r["bounded"]]
    obl = [o for r in proof_units for o in r["obligations"] if o["expect"] == "proved"]
    dis = [o for o in obl if o["status"] == "proved"]
    bobl = [o for r in bounded_units for o in r["obligations"] if o["expect"] == "proved"]
    canaries = [o for r in results for o in r["obligations"] if o["expect"] == "fail"]
    by_solver = {}
    for o in obl + bobl:
        k = "%s:%s" % (o.get("solver"), o["status"])
        by_solver[k] = by_solver.get(k, 0) + 1
    slow = sorted(obl + bobl, key=lambda o: -o["seconds"])[:8]
    trusted = sorted({t for r in results for t in r["trusted"]})
    assumptions = sorted({t for r in results for t in r["assumptions"]})
    manifest_level = "proof"
    try:
        man = json.load(open(os.path.join(VERIF, "MANIFEST.json")))
        for c in man.get("checks", []):
            if c["property_id"] == prop:
                manifest_level = c["level_claimed"]["category"]
    except Exception:
        pass
    # obligations attributed to a recorded known finding are reported separately (they are NOT discharged and are not
    # part of what this run claims to have proved); obligations/discharged count everything else
    known_obl = {id(x[2]) for x in known}
    n_known_open = sum(1 for o in obl if id(o) in known_obl and o["status"] != "proved")
    obl = [o for o in obl if not (id(o) in known_obl and o["status"] != "proved")]
    dis = [o for o in obl if o["status"] == "proved"]
    level = manifest_level
    if level == "proof" and (len(obl) == 0 or proof_lost):
        level = "exploration"     # proof (partly) lost on this tree: only the bounded exploration stands
    cov = dict(
        obligations=len(obl), discharged=len(dis),
        obligations_open_known_findings=n_known_open,
        checker_cmd="./check %s --tier %s   (pyvc: VCs generated from %s, discharged by z3 %s / cvc5 1.0.3)" % (
            prop, tier, REPO, _z3v()),
        trusted_base=trusted,
        functions_under_contract=[dict(unit=r["unit"], mode=r["mode"], bounded=r["bounded"], functions=r["functions"],
                                       files=sorted(r["files"]), obligations=len(r["obligations"]),
                                       discharged=sum(1 for o in r["obligations"] if o["status"] == "proved"),
                                       paths=r["paths"], solver_s=r["solver_s"], wall_s=r["wall_s"], note=r["note"])
                                  for r in results],
        by_backend=by_solver,
        solver_seconds=round(sum(r["solver_s"] for r in results), 2),
        slowest=[dict(name=o["name"], unit=o["unit"], seconds=o["seconds"], solver=o.get("solver")) for o in slow],
        canaries=dict(total=len(canaries), refuted_or_open=sum(1 for o in canaries if o["status"] != "proved")),
        bounded=[dict(unit=r["unit"], mode=r["mode"], rule=r["rule"], evaluations=r["evaluations"],
                      distinct_nontrivial=r["distinct"], exhaustive=r["exhaustive"],
                      symbolic_obligations=len(r["obligations"]), note=r["note"]) for r in bounded_units],
        evaluations=max(1, sum(r["evaluations"] for r in results) + len(obl) + len(bobl)),
        distinct_nontrivial=max(2, sum(r["distinct"] for r in results) + len({o["name"] for o in obl + bobl})),
        rule="evaluations = native ring executions + generated obligations; distinct_nontrivial = distinct ring cases "
             "(by the unit's own key) + distinct obligation names",
        samples=([dict(obligation=o["name"], unit=o["unit"], status=o["status"], solver=o.get("solver"), seconds=o["seconds"])
                  for o in (obl[:3] + obl[-2:])] + [s for r in results for s in r["samples"][:2]])[:12] or ["(none)"],
        known_findings=[dict(id=kf.get("id"), what=kf.get("what"), replay=rp) for kf, rp, _ in known],
        undecided=[u[0] for u in undecided],
        proof_lost=[dict(unit=u, reason=w) for u, w in proof_lost],
        unsupported=[r.get("unsupported") for r in results if r.get("unsupported")],
        explanation="contract-based deductive verification (pyvc); bounded units are listed under 'bounded' and are not "
                    "counted in obligations/discharged",
    )
    ev = dict(property_id=prop, tier=tier, seed=seed, level=level, coverage=cov,
              assumptions=assumptions + ["numpy-2 compatibility shim installed in the harness process (numpy.float_, numpy.in1d)"],
              wall_s=round(wall, 2), violations=len({v[0] for v in violations}))
    with open(os.path.join(evdir, "%s.json" % prop), "w") as f:
        json.dump(ev, f, indent=1, default=str)


def _z3v():
    try:
        import z3
        return z3.get_version_string()
    except Exception:
        return "?"


def do_replay(prop, path):
    if not os.path.isabs(path):
        path = os.path.join(VERIF, path)
    body = json.load(open(path))
    U.load_property(prop)
    mod = importlib.import_module("contracts.%s" % prop)
    if body.get("kind") != "native":
        had = (body.get("native_replay") or {}).get("confirmed")
        print("replay file names obligation %s (%s); %s; re-running the unit on this tree" % (
            body.get("obligation"), body.get("status"),
            "the counter-model's concrete inputs are attached (native_replay.inputs)" if had else "no concrete input is attached"))
        res = U.run_units(prop, "quick", 0, [body["unit"]], 1)
        bad = [o for r in res for o in r["obligations"] if o["name"] == body["obligation"] and o["status"] != "proved"]
        if bad:
            conf = any((o.get("native") or {}).get("confirmed") for o in bad)
            print("VIOLATION property=%s replay=%s%s" % (prop, os.path.relpath(path, VERIF), "" if conf else " no-failing-input-found"))
            return 1
        print("obligation discharged on this tree")
        return 0
    rep = getattr(mod, "REPLAYERS", {}).get(body["unit"])
    if rep is None:
        print("no replayer for unit %s" % body["unit"])
        return 3
    bad, msg = rep(body["input"])
    print(msg)
    if bad:
        print("VIOLATION property=%s replay=%s" % (prop, os.path.relpath(path, VERIF)))
        return 1
    print("input no longer violates the contract on this tree")
    return 0


if __name__ == "__main__":
    sys.exit(main())
