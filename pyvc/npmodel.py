"""Trusted contract base for numpy on element-level symbolic arrays (mode A2).

Every function here is an *assumed contract on a dependency* (DESIGN §4.3).
Pure structural functions are given by definition (closures); functions whose
result shape depends on the data (flatnonzero, unique, ...) return fresh arrays
constrained by quantified axioms.  `AXIOMS_USED` records which were used on a
run so that evidence can list them; `tools/validate_npmodel.py` tests each
axiom set against the real numpy on small concrete inputs.
"""
import numpy, z3
from . import sym
from .sym import SymInt, SymReal, SymBool, wrap, _t, cur, Unsupported
from .arr import EArr, as_earr, esort_of, elementwise, broadcast_shapes, dims_equal

AXIOMS_USED = set()


def used(name):
    AXIOMS_USED.add(name)


def _shape_tuple(shape):
    if isinstance(shape, (tuple, list)):
        return tuple(shape)
    return (shape,)


def sym_shape(shape):
    return any(isinstance(d, SymInt) for d in _shape_tuple(shape))


# ---- creation ---------------------------------------------------------------
def el_empty(shape, dtype=float, **kw):
    used("numpy.empty: array of the given shape with arbitrary content")
    return EArr.fresh("empty", _shape_tuple(shape), dtype)


def el_full(shape, fill_value, dtype=None, **kw):
    used("numpy.full/zeros/ones: constant array")
    if dtype is None:
        dtype = numpy.asarray(fill_value).dtype if not sym.is_sym(fill_value) else numpy.float64
    t = _t(fill_value)
    es = esort_of(dtype)
    if es == z3.RealSort() and t.sort() == z3.IntSort():
        t = z3.ToReal(t)
    if es == z3.IntSort() and t.sort() == z3.BoolSort():
        t = z3.If(t, 1, 0)
    return EArr(_shape_tuple(shape), lambda *i: t, dtype)


def el_zeros(shape, dtype=float, **kw):
    return el_full(shape, 0 if numpy.dtype(dtype).kind != "b" else False, dtype)


def el_ones(shape, dtype=float, **kw):
    return el_full(shape, 1 if numpy.dtype(dtype).kind != "b" else True, dtype)


def el_arange(start, stop=None, step=1, dtype=None):
    used("numpy.arange(int): a[k] = start + k*step")
    if stop is None:
        start, stop = 0, start
    if isinstance(step, SymInt) or sym.is_sym(step):
        raise Unsupported("arange with symbolic step")
    if step != 1:
        raise Unsupported("arange step != 1 in element mode")
    n = wrap(z3.simplify(z3.If(_t(stop) - _t(start) > 0, _t(stop) - _t(start), 0)))
    s = _t(start)
    return EArr((n,), lambda i: s + i, dtype or numpy.int64)


# ---- data-dependent shape: contracts ---------------------------------------------
def _uf_apps_with(expr, var):
    """uninterpreted-function applications inside expr that have `var` as a
    direct argument (candidates for E-matching patterns)"""
    out, seen = [], set()

    def walk(e):
        if e.get_id() in seen:
            return
        seen.add(e.get_id())
        if z3.is_app(e) and e.decl().kind() == z3.Z3_OP_UNINTERPRETED and e.num_args() > 0:
            if any(c.eq(var) for c in e.children()):
                out.append(e)
        for c in e.children():
            walk(c)
    walk(expr)
    return out


def el_flatnonzero(a):
    """xo = flatnonzero(mask), mask 1-D bool of length n.  Assumed contract:
    (1) 0 <= m <= n; (2) every entry is an in-range True position;
    (3) entries strictly increase (stated for all pairs a < b);
    (4) every True position j is listed: xo[rank(j)] == j with 0 <= rank(j) < m."""
    used("numpy.flatnonzero: increasing enumeration of exactly the True positions")
    a = as_earr(a)
    if a.ndim != 1:
        raise Unsupported("flatnonzero on ndim != 1")
    if a._es != z3.BoolSort():
        a = a != 0
    e = cur()
    n = _t(a._shape[0])
    m = z3.Int(e.fresh_name("nnz"))
    xo = EArr.fresh("flatnonzero", (SymInt(m),), numpy.int64)
    f = xo._fn
    rank = z3.Function(e.fresh_name("rank"), z3.IntSort(), z3.IntSort())
    mask = a._at
    k, j, b = z3.Ints("q_k q_j q_b")
    e.assume(z3.And(m >= 0, m <= n))
    e.assume(z3.ForAll([k], z3.Implies(z3.And(0 <= k, k < m),
                                       z3.And(0 <= f(k), f(k) < n, mask(f(k)))), patterns=[f(k)]))
    e.assume(z3.ForAll([k, b], z3.Implies(z3.And(0 <= k, k < b, b < m), f(k) < f(b)),
                       patterns=[z3.MultiPattern(f(k), f(b))]))
    mj = mask(j)
    pats = _uf_apps_with(mj, j)[:1] or [rank(j)]
    e.assume(z3.ForAll([j], z3.Implies(z3.And(0 <= j, j < n, mj),
                                       z3.And(0 <= rank(j), rank(j) < m, f(rank(j)) == j)), patterns=pats))
    # (5) redundant segment form of (4) (follows from (2)-(4)); helps E-matching
    lo = lambda kk: z3.If(kk <= 0, z3.IntVal(-1), f(kk - 1))
    hi = lambda kk: z3.If(kk >= m, n, f(kk))
    e.assume(z3.ForAll([k, j], z3.Implies(z3.And(0 <= k, k <= m, lo(k) < j, j < hi(k), 0 <= j, j < n),
                                          z3.Not(mask(j)))))
    xo._ghost = dict(m=m, f=f, mask=mask, n=n, rank=rank)
    return xo


def el_unique(a, return_index=False, return_inverse=False, return_counts=False, axis=None, **kw):
    """numpy.unique on a 1-d integer array that is NON-DECREASING (call-site obligation): the distinct values in
    increasing order, the first index of each and the run lengths.  Assumed contract:
      G >= 0, G == 0 iff n == 0; start[0] == 0; counts >= 1; start[g+1] == start[g] + counts[g];
      start[G-1] + counts[G-1] == n; a[j] == uniq[g] on run g; uniq strictly increasing."""
    used("numpy.unique(return_index, return_counts) on sorted input: run decomposition")
    if return_inverse:
        raise Unsupported("unique(return_inverse)")
    a = as_earr(a)
    if a.ndim != 1:
        raise Unsupported("unique on ndim != 1")
    e = cur()
    n = _t(a._shape[0])
    at = a._at
    j0 = z3.Int(e.fresh_name("j"))
    saved = list(e.assumptions)
    e.assume(z3.And(0 <= j0, j0 < n - 1))
    e.prove("callsite:numpy.unique:pre:input-non-decreasing", at(j0) <= at(j0 + 1), kind="call-pre")
    e.assumptions[:] = saved
    G = z3.Int(e.fresh_name("nuniq"))
    uq = EArr.fresh("uniq", (SymInt(G),), a._dt)
    st = EArr.fresh("uniq_index", (SymInt(G),), numpy.int64)
    ct = EArr.fresh("uniq_counts", (SymInt(G),), numpy.int64)
    u, s, c = uq._fn, st._fn, ct._fn
    g, j = z3.Ints("q_g q_j")
    e.assume(z3.And(G >= 0, G <= n, (G == 0) == (n == 0)))
    e.assume(z3.Implies(G > 0, z3.And(s(0) == 0, s(G - 1) + c(G - 1) == n)))
    e.assume(z3.ForAll([g], z3.Implies(z3.And(0 <= g, g < G), z3.And(c(g) >= 1, 0 <= s(g), s(g) + c(g) <= n)), patterns=[s(g)]))
    e.assume(z3.ForAll([g], z3.Implies(z3.And(0 <= g, g < G - 1), z3.And(s(g + 1) == s(g) + c(g), u(g) < u(g + 1))), patterns=[s(g)]))
    e.assume(z3.ForAll([g, j], z3.Implies(z3.And(0 <= g, g < G, s(g) <= j, j < s(g) + c(g)), at(j) == u(g)),
                       patterns=[z3.MultiPattern(s(g), at(j))]))
    out = [uq]
    if return_index:
        out.append(st)
    if return_counts:
        out.append(ct)
    return out[0] if len(out) == 1 else tuple(out)


# ---- structural ------------------------------------------------------------------
def el_stack(arrays, axis=0, **kw):
    used("numpy.stack: result[k, ...] = arrays[k][...]")
    arrs = [as_earr(a) for a in arrays]
    if not arrs:
        raise ValueError("need at least one array to stack")
    nd = arrs[0].ndim
    for a in arrs[1:]:
        for d in range(nd):
            eq = dims_equal(arrs[0]._shape[d], a._shape[d])
            if eq is not True and not eq:
                raise ValueError("all input arrays must have the same shape")
    if axis < 0:
        axis += nd + 1
    ats = [a._at for a in arrs]
    shp = arrs[0]._shape[:axis] + (len(arrs),) + arrs[0]._shape[axis:]

    def at(*i):
        sel = i[axis]
        rest = i[:axis] + i[axis + 1:]
        r = ats[-1](*rest)
        for k in range(len(ats) - 2, -1, -1):
            r = z3.If(sel == k, ats[k](*rest), r)
        return r
    return EArr(shp, at, arrs[0]._dt)


def el_repeat(a, repeats, axis=None):
    used("numpy.repeat(scalar count): result[k] = a[k div r]")
    a = as_earr(a)
    if isinstance(repeats, (numpy.ndarray, list)):
        raise Unsupported("repeat with per-element counts in element mode (use contract)")
    if axis is None:
        if a.ndim != 1:
            raise Unsupported("repeat axis=None on ndim>1")
        axis = 0
    r = _t(repeats)
    base = a._at
    shp = list(a._shape)
    shp[axis] = wrap(z3.simplify(_t(shp[axis]) * r))

    def at(*i):
        b = list(i)
        b[axis] = i[axis] / r
        return base(*b)
    return EArr(tuple(shp), at, a._dt)


def el_copy(a, **kw):
    return as_earr(a).copy()


def el_where(cond, x=None, y=None):
    if x is None:
        raise Unsupported("where(cond) single-argument form")
    used("numpy.where(c,x,y): elementwise If")
    return elementwise(lambda c, a, b: z3.If(c, a, b) if a.sort() == b.sort() else
                       z3.If(c, z3.ToReal(a) if a.sort() == z3.IntSort() else a,
                             z3.ToReal(b) if b.sort() == z3.IntSort() else b),
                       (cond, x, y), numpy.result_type(as_earr(x)._dt, as_earr(y)._dt))


# ---- reductions (ghost sums) --------------------------------------------------------
_SUMF = {}


def el_sum(a, axis=None, dtype=None, **kw):
    raise Unsupported("sum over symbolic array in element mode (use a contract / ghost sum)")


def el_all(a, axis=None):
    a = as_earr(a)
    if axis is not None or a.ndim != 1:
        raise Unsupported("all() with axis")
    used("numpy.all: universally quantified conjunction")
    n = _t(a._shape[0])
    k = z3.Int("q_k")
    return SymBool(z3.ForAll([k], z3.Implies(z3.And(0 <= k, k < n), a._at(k))))


def el_any(a, axis=None):
    a = as_earr(a)
    if axis is not None or a.ndim != 1:
        raise Unsupported("any() with axis")
    used("numpy.any: existentially quantified disjunction")
    n = _t(a._shape[0])
    k = z3.Int("q_k")
    return SymBool(z3.Exists([k], z3.And(0 <= k, k < n, a._at(k))))


def el_diff(a, n=1, axis=-1, prepend=None, append=None):
    """numpy.diff of a 1-d array, optionally with a scalar prepended: out[j] = a'[j+1] - a'[j]"""
    used("numpy.diff (1-d, n=1, optional scalar prepend): first differences")
    a = as_earr(a)
    if a.ndim != 1 or n != 1 or append is not None:
        raise Unsupported("numpy.diff beyond 1-d / n=1 / prepend")
    at = a._at
    ln = _t(a._shape[0])
    if prepend is None:
        return EArr((wrap(z3.simplify(z3.If(ln - 1 > 0, ln - 1, 0))),), lambda j: at(j + 1) - at(j), a._dt)
    if isinstance(prepend, (EArr, numpy.ndarray)) and getattr(prepend, "ndim", 0) > 0:
        raise Unsupported("numpy.diff with array prepend")
    c = _t(prepend)
    if a._es == z3.RealSort() and c.sort() == z3.IntSort():
        c = z3.ToReal(c)
    return EArr((a._shape[0],), lambda j: at(j) - z3.If(j == 0, c, at(j - 1)), a._dt)


EL_FUNCS = {
    "diff": el_diff,
    "unique": el_unique,
    "flatnonzero": el_flatnonzero, "stack": el_stack, "repeat": el_repeat, "copy": el_copy,
    "where": el_where, "sum": el_sum, "all": el_all, "any": el_any,
    "empty_like": lambda a, dtype=None, **k: el_empty(a.shape, dtype or a.dtype),
    "zeros_like": lambda a, dtype=None, **k: el_zeros(a.shape, dtype or a.dtype),
}

# creation functions have no array argument, so numpy's dispatch protocol never
# sees them: they are patched on the numpy module while a symbolic run is active
def el_int_(x=0, *a, **k):
    """numpy.int_(list) -> integer array with the list's items"""
    if hasattr(x, "vlen") and not isinstance(x, EArr):
        at = x._at
        return EArr((x.vlen(),), lambda i: at(i), numpy.int64)
    raise Unsupported("numpy.int_ of %r" % type(x))


CREATION = {"int_": el_int_, "empty": el_empty, "zeros": el_zeros, "ones": el_ones, "full": el_full, "arange": el_arange}


class patched_numpy:
    """context manager: numpy.<creation fn> accept symbolic shapes"""

    def __enter__(self):
        self.saved = {}
        for name, impl in CREATION.items():
            orig = getattr(numpy, name)
            self.saved[name] = orig

            def mk(orig, impl, name):
                def f(*a, **k):
                    if sym.active() and _has_sym(a, k):
                        return impl(*a, **k)
                    return orig(*a, **k)
                f.__name__ = name
                return f
            setattr(numpy, name, mk(orig, impl, name))
        return self

    def __exit__(self, *exc):
        for name, orig in self.saved.items():
            setattr(numpy, name, orig)


def _has_sym(a, k):
    def chk(x):
        if sym.is_sym(x) or isinstance(x, EArr) or (hasattr(x, "vlen") and hasattr(x, "append")):
            return True
        if isinstance(x, (tuple, list)):
            return any(chk(y) for y in x)
        return False
    return any(chk(x) for x in a) or any(chk(x) for x in k.values())
