"""Trusted contract base for numpy on element-level symbolic arrays (mode A2).

Every function here is an *assumed contract on a dependency* (DESIGN §4.3).
Pure structural functions are given by definition (closures); functions whose
result shape depends on the data (flatnonzero, unique, ...) return fresh arrays
constrained by quantified axioms.  `AXIOMS_USED` records which were used on a
run so that evidence can list them; `tools/validate_npmodel.py` tests each
axiom set against the real numpy on small concrete inputs.
"""
import numpy, z3
from . import sym
from .sym import SymInt, SymReal, SymBool, wrap, _t, cur, Unsupported
from .arr import EArr, as_earr, esort_of, elementwise, broadcast_shapes, dims_equal

AXIOMS_USED = set()


def used(name):
    AXIOMS_USED.add(name)


def _shape_tuple(shape):
    if isinstance(shape, (tuple, list)):
        return tuple(shape)
    return (shape,)


def sym_shape(shape):
    return any(isinstance(d, SymInt) for d in _shape_tuple(shape))


# ---- creation ---------------------------------------------------------------
def _guard_kw(name, kw, ignorable=("dtype", "order", "subok", "like", "casting", "copy")):
    """options a contract does not model must not be silently ignored: anything outside `ignorable` that is set to a non-default value
    (not None / False) takes the call out of the verified subset"""
    for k, v in kw.items():
        if k in ignorable or v is None or v is False:
            continue
        raise Unsupported("numpy.%s(%s=%r) is not modelled" % (name, k, v))


def el_empty(shape, dtype=float, **kw):
    used("numpy.empty: array of the given shape with arbitrary content")
    return EArr.fresh("empty", _shape_tuple(shape), dtype)


def el_full(shape, fill_value, dtype=None, **kw):
    used("numpy.full/zeros/ones: constant array")
    if dtype is None:
        dtype = numpy.asarray(fill_value).dtype if not sym.is_sym(fill_value) else numpy.float64
    t = _t(fill_value)
    es = esort_of(dtype)
    if es == z3.RealSort() and t.sort() == z3.IntSort():
        t = z3.ToReal(t)
    if es == z3.IntSort() and t.sort() == z3.BoolSort():
        t = z3.If(t, 1, 0)
    return EArr(_shape_tuple(shape), lambda *i: t, dtype)


def el_zeros(shape, dtype=float, **kw):
    return el_full(shape, 0 if numpy.dtype(dtype).kind != "b" else False, dtype)


def el_ones(shape, dtype=float, **kw):
    return el_full(shape, 1 if numpy.dtype(dtype).kind != "b" else True, dtype)


def el_arange(start, stop=None, step=1, dtype=None):
    used("numpy.arange(int): a[k] = start + k*step")
    if stop is None:
        start, stop = 0, start
    if isinstance(step, SymInt) or sym.is_sym(step):
        raise Unsupported("arange with symbolic step")
    if step != 1:
        raise Unsupported("arange step != 1 in element mode")
    n = wrap(z3.simplify(z3.If(_t(stop) - _t(start) > 0, _t(stop) - _t(start), 0)))
    s = _t(start)
    return EArr((n,), lambda i: s + i, dtype or numpy.int64)


# ---- data-dependent shape: contracts ---------------------------------------------
def _uf_apps_with(expr, var):
    """uninterpreted-function applications inside expr that have `var` as a
    direct argument (candidates for E-matching patterns)"""
    out, seen = [], set()

    def walk(e):
        if e.get_id() in seen:
            return
        seen.add(e.get_id())
        if z3.is_app(e) and e.decl().kind() == z3.Z3_OP_UNINTERPRETED and e.num_args() > 0:
            if any(c.eq(var) for c in e.children()):
                out.append(e)
        for c in e.children():
            walk(c)
    walk(expr)
    return out


def el_flatnonzero(a):
    """xo = flatnonzero(mask), mask 1-D bool of length n.  Assumed contract:
    (1) 0 <= m <= n; (2) every entry is an in-range True position;
    (3) entries strictly increase (stated for all pairs a < b);
    (4) every True position j is listed: xo[rank(j)] == j with 0 <= rank(j) < m."""
    used("numpy.flatnonzero: increasing enumeration of exactly the True positions")
    a = as_earr(a)
    if a.ndim != 1:
        raise Unsupported("flatnonzero on ndim != 1")
    if a._es != z3.BoolSort():
        a = a != 0
    e = cur()
    n = _t(a._shape[0])
    m = z3.Int(e.fresh_name("nnz"))
    xo = EArr.fresh("flatnonzero", (SymInt(m),), numpy.int64)
    f = xo._fn
    rank = z3.Function(e.fresh_name("rank"), z3.IntSort(), z3.IntSort())
    mask = a._at
    k, j, b = z3.Ints("q_k q_j q_b")
    e.assume(z3.And(m >= 0, m <= n))
    e.assume(z3.ForAll([k], z3.Implies(z3.And(0 <= k, k < m),
                                       z3.And(0 <= f(k), f(k) < n, mask(f(k)))), patterns=[f(k)]))
    e.assume(z3.ForAll([k, b], z3.Implies(z3.And(0 <= k, k < b, b < m), f(k) < f(b)),
                       patterns=[z3.MultiPattern(f(k), f(b))]))
    mj = mask(j)
    pats = _uf_apps_with(mj, j)[:1] + [rank(j)]           # alternative triggers: the mask's own term, or a mention of rank(j)
    e.assume(z3.ForAll([j], z3.Implies(z3.And(0 <= j, j < n, mj),
                                       z3.And(0 <= rank(j), rank(j) < m, f(rank(j)) == j)), patterns=pats))
    # (5) redundant segment form of (4) (follows from (2)-(4)); helps E-matching
    lo = lambda kk: z3.If(kk <= 0, z3.IntVal(-1), f(kk - 1))
    hi = lambda kk: z3.If(kk >= m, n, f(kk))
    e.assume(z3.ForAll([k, j], z3.Implies(z3.And(0 <= k, k <= m, lo(k) < j, j < hi(k), 0 <= j, j < n),
                                          z3.Not(mask(j)))))
    xo._ghost = dict(m=m, f=f, mask=mask, n=n, rank=rank)
    xo._nonneg = True
    return xo


def mask_positions(mask):
    """flatnonzero(mask) shared by every use of the same mask VALUE on a path (a[mask], b[mask], sum(mask[:p]))"""
    e = cur()
    key = (id(mask), id(mask._at))
    tab = e.memo.setdefault("mask_positions", {})
    if key not in tab:
        xo = el_flatnonzero(mask)
        tab[key] = (mask, xo)          # keep the mask alive: ids must not be reused
    return tab[key][1]


def count_before(mask, p):
    """number of True entries of a 1-d boolean array at positions < p, through the ghost enumeration of mask_positions:
    c with 0 <= c <= m, xo[k] < p for k < c, and xo[c] >= p if c < m"""
    e = cur()
    xo = mask_positions(mask)
    g = xo._ghost
    f, m = g["f"], g["m"]
    used("numpy.sum(mask[:p]) == number of listed True positions below p (ghost enumeration of the mask)")
    c = z3.Int(e.fresh_name("cnt_lt"))
    k = z3.Int("q_k")
    tp = _t(p)
    e.assume(z3.And(0 <= c, c <= m))
    e.assume(z3.ForAll([k], z3.Implies(z3.And(0 <= k, k < c), f(k) < tp), patterns=[f(k)]))
    e.assume(z3.Implies(c < m, f(c) >= tp))
    return wrap(c)


def el_unique(a, return_index=False, return_inverse=False, return_counts=False, axis=None, **kw):
    _guard_kw("unique", kw)
    """numpy.unique on a 1-d integer array that is NON-DECREASING (call-site obligation): the distinct values in
    increasing order, the first index of each and the run lengths.  Assumed contract:
      G >= 0, G == 0 iff n == 0; start[0] == 0; counts >= 1; start[g+1] == start[g] + counts[g];
      start[G-1] + counts[G-1] == n; a[j] == uniq[g] on run g; uniq strictly increasing."""
    used("numpy.unique(return_index, return_counts) on sorted input: run decomposition")
    if return_inverse:
        raise Unsupported("unique(return_inverse)")
    a = as_earr(a)
    if a.ndim != 1:
        raise Unsupported("unique on ndim != 1")
    e = cur()
    n = _t(a._shape[0])
    at = a._at
    j0 = z3.Int(e.fresh_name("j"))
    saved = list(e.assumptions)
    e.assume(z3.And(0 <= j0, j0 < n - 1))
    e.prove("callsite:numpy.unique:pre:input-non-decreasing", at(j0) <= at(j0 + 1), kind="call-pre")
    e.assumptions[:] = saved
    G = z3.Int(e.fresh_name("nuniq"))
    uq = EArr.fresh("uniq", (SymInt(G),), a._dt)
    st = EArr.fresh("uniq_index", (SymInt(G),), numpy.int64)
    ct = EArr.fresh("uniq_counts", (SymInt(G),), numpy.int64)
    u, s, c = uq._fn, st._fn, ct._fn
    g, j = z3.Ints("q_g q_j")
    e.assume(z3.And(G >= 0, G <= n, (G == 0) == (n == 0)))
    e.assume(z3.Implies(G > 0, z3.And(s(0) == 0, s(G - 1) + c(G - 1) == n)))
    e.assume(z3.ForAll([g], z3.Implies(z3.And(0 <= g, g < G), z3.And(c(g) >= 1, 0 <= s(g), s(g) + c(g) <= n)), patterns=[s(g)]))
    e.assume(z3.ForAll([g], z3.Implies(z3.And(0 <= g, g < G - 1), z3.And(s(g + 1) == s(g) + c(g), u(g) < u(g + 1))), patterns=[s(g)]))
    e.assume(z3.ForAll([g, j], z3.Implies(z3.And(0 <= g, g < G, s(g) <= j, j < s(g) + c(g)), at(j) == u(g)),
                       patterns=[z3.MultiPattern(s(g), at(j))]))
    out = [uq]
    if return_index:
        out.append(st)
    if return_counts:
        out.append(ct)
    return out[0] if len(out) == 1 else tuple(out)


# ---- structural ------------------------------------------------------------------
def el_stack(arrays, axis=0, **kw):
    _guard_kw("stack", kw)
    used("numpy.stack: result[k, ...] = arrays[k][...]")
    arrs = [as_earr(a) for a in arrays]
    if not arrs:
        raise ValueError("need at least one array to stack")
    nd = arrs[0].ndim
    for a in arrs[1:]:
        for d in range(nd):
            eq = dims_equal(arrs[0]._shape[d], a._shape[d])
            if eq is not True and not eq:
                raise ValueError("all input arrays must have the same shape")
    if axis < 0:
        axis += nd + 1
    ats = [a._at for a in arrs]
    shp = arrs[0]._shape[:axis] + (len(arrs),) + arrs[0]._shape[axis:]

    def at(*i):
        sel = i[axis]
        rest = i[:axis] + i[axis + 1:]
        r = ats[-1](*rest)
        for k in range(len(ats) - 2, -1, -1):
            r = z3.If(sel == k, ats[k](*rest), r)
        return r
    return EArr(shp, at, arrs[0]._dt)


def _mentions(term, var):
    seen, todo = set(), [term]
    while todo:
        x = todo.pop()
        if x.get_id() in seen:
            continue
        seen.add(x.get_id())
        if x.eq(var):
            return True
        todo.extend(x.children())
    return False


def repeat_map(counts):
    """position map of numpy.repeat(., counts) for a 1-d integer count array: ghost functions
         CUM(0) = 0, CUM(f+1) = CUM(f) + counts[f]   (prefix sums),   T = CUM(n)
         fam: [0,T) -> [0,n)  with  CUM(fam(t)) <= t < CUM(fam(t)+1)
    One map per distinct counts term on a path (two repeats with the same counts share it, by congruence).
    Call-site obligation: every count is >= 0 (numpy raises otherwise)."""
    e = cur()
    counts = as_earr(counts)
    if counts.ndim != 1:
        raise Unsupported("repeat counts of rank %d" % counts.ndim)
    K = z3.Int("q_rk")
    key, nkey = z3.simplify(counts._at(K)), z3.simplify(_t(counts._shape[0]))
    for k0, n0, rec in e.memo.setdefault("repeat_maps", []):
        if k0.eq(key) and n0.eq(nkey):
            return rec
    used("numpy.repeat(a, counts): out[t] = a[fam(t)], fam the run index of prefix sums of counts (ghost CUM / fam)")
    n = nkey
    cat = counts._at
    f, t = z3.Ints("q_f q_t")
    e.prove("callsite:repeat:%d:counts-nonnegative" % len(e.memo["repeat_maps"]),
            z3.ForAll([f], z3.Implies(z3.And(0 <= f, f < n), cat(f) >= 0)), kind="call-pre")
    CUM = z3.Function(e.fresh_name("cum"), z3.IntSort(), z3.IntSort())
    FAM = z3.Function(e.fresh_name("fam"), z3.IntSort(), z3.IntSort())
    T = CUM(n)
    e.assume(CUM(0) == 0)
    e.assume(z3.ForAll([f], z3.Implies(z3.And(0 <= f, f < n), CUM(f + 1) == CUM(f) + cat(f)), patterns=[CUM(f + 1)]))
    e.assume(z3.ForAll([f], z3.Implies(z3.And(0 <= f, f < n), CUM(f + 1) == CUM(f) + cat(f)), patterns=[z3.MultiPattern(CUM(f), cat(f))]))
    e.assume(z3.ForAll([f], z3.Implies(z3.And(0 <= f, f <= n), z3.And(0 <= CUM(f), CUM(f) <= T)), patterns=[CUM(f)]))   # monotone (by induction; counts >= 0)
    e.assume(z3.ForAll([t], z3.Implies(z3.And(0 <= t, t < T),
                                       z3.And(0 <= FAM(t), FAM(t) < n, CUM(FAM(t)) <= t, t < CUM(FAM(t) + 1))), patterns=[FAM(t)]))
    e.assume(T >= 0)
    if not _mentions(key, K):
        # constant counts r: closed form CUM(f) == f*r, an induction lemma (base and step proved here, then assumed)
        r = key
        x = z3.Int(e.fresh_name("ind_f"))
        cx, cx1 = z3.Int(e.fresh_name("cum_f")), z3.Int(e.fresh_name("cum_f1"))
        ok = e.prove("lemma:repeat:constant-counts:induction-step (CUM(f)=f*r and CUM(f+1)=CUM(f)+r => CUM(f+1)=(f+1)*r)",
                     z3.Implies(z3.And(cx == x * r, cx1 == cx + r), cx1 == (x + 1) * r), kind="lemma")
        if ok:
            e.assume(z3.ForAll([f], z3.Implies(z3.And(0 <= f, f <= n), CUM(f) == f * r), patterns=[CUM(f)]))
            e.assume(T == n * r)
    rec = dict(CUM=CUM, FAM=FAM, T=wrap(T), n=n, counts=counts)
    e.memo["repeat_maps"].append((key, nkey, rec))
    return rec


def el_repeat(a, repeats, axis=None):
    if isinstance(repeats, list):
        raise Unsupported("repeat with a python list of counts")
    if isinstance(repeats, numpy.ndarray) and not isinstance(repeats, EArr):
        repeats = as_earr(repeats)
    if isinstance(repeats, EArr) and repeats.ndim == 1:
        if axis not in (None, 0):
            raise Unsupported("repeat(array counts) along axis %r" % (axis,))
        a = as_earr(a)
        if a.ndim != 1:
            raise Unsupported("repeat(array counts) of a rank-%d array" % a.ndim)
        e = cur()
        same = dims_equal(a._shape[0], repeats._shape[0])
        if not (same is True or (same is not False and same)):
            one = dims_equal(repeats._shape[0], 1)
            if one is True or (one is not False and one):
                raise Unsupported("repeat with a length-1 count array (broadcast)")
            raise ValueError("operands could not be broadcast together with shape")
        rec = repeat_map(repeats)
        base, FAM = a._at, rec["FAM"]
        return EArr((rec["T"],), lambda i: base(FAM(i)), a._dt)
    if isinstance(repeats, EArr):
        repeats = repeats.item()
    used("numpy.repeat(scalar count): result[k] = a[k div r]")
    a = as_earr(a)
    r = _t(repeats)
    if a.ndim == 0:                      # repeat(scalar, r): r copies
        v = a._at()
        return EArr((wrap(z3.simplify(z3.If(r > 0, r, 0))),), lambda i: v, a._dt)
    if axis is None:
        if a.ndim != 1:
            raise Unsupported("repeat axis=None on ndim>1")
        axis = 0
    base = a._at
    shp = list(a._shape)
    shp[axis] = wrap(z3.simplify(_t(shp[axis]) * r))

    def at(*i):
        b = list(i)
        b[axis] = i[axis] / r
        return base(*b)
    return EArr(tuple(shp), at, a._dt)


def el_array(obj, dtype=None, **kw):
    _guard_kw("array", kw)
    """numpy.array(<symbolic list>) -> array with the list's items"""
    if hasattr(obj, "vlen") and not isinstance(obj, EArr):
        at = obj._at
        return EArr((obj.vlen(),), lambda i: at(i), numpy.dtype(dtype) if dtype is not None else numpy.int64)
    if isinstance(obj, EArr):
        return obj.copy()
    raise Unsupported("numpy.array of %r" % type(obj))


def el_copy(a, **kw):
    _guard_kw("copy", kw)
    return as_earr(a).copy()


def el_where(cond, x=None, y=None):
    if x is None:
        c = as_earr(cond)
        if c.ndim == 1:
            return (mask_positions(c) if c._es == z3.BoolSort() else el_flatnonzero(c),)      # where(mask) == (flatnonzero(mask),)
        raise Unsupported("where(cond) single-argument form on rank %d" % c.ndim)
    used("numpy.where(c,x,y): elementwise If")
    return elementwise(lambda c, a, b: z3.If(c, a, b) if a.sort() == b.sort() else
                       z3.If(c, z3.ToReal(a) if a.sort() == z3.IntSort() else a,
                             z3.ToReal(b) if b.sort() == z3.IntSort() else b),
                       (cond, x, y), numpy.result_type(as_earr(x)._dt, as_earr(y)._dt))


# ---- reductions (ghost sums) --------------------------------------------------------
_SUMF = {}


def _memo_by_term(e, table, a):
    K = z3.Int("q_mk")
    key, nkey = z3.simplify(a._at(K)), z3.simplify(_t(a._shape[0]))
    for k0, n0, rec in e.memo.setdefault(table, []):
        if k0.eq(key) and n0.eq(nkey):
            return key, nkey, rec
    return key, nkey, None


def _num(a, t):
    return z3.ToReal(t) if (a._es == z3.RealSort() and t.sort() == z3.IntSort()) else t


def el_sum(a, axis=None, dtype=None, **kw):
    _guard_kw("sum", kw)
    """sum of a 1-d array: ghost prefix sums PS(0) = 0, PS(i+1) = PS(i) + a[i]; the result is PS(n)"""
    a = as_earr(a)
    if a.ndim != 1 or axis not in (None, 0, -1):
        raise Unsupported("sum over symbolic array of rank %d / axis %r in element mode" % (a.ndim, axis))
    if a._es == z3.BoolSort():
        vo = getattr(a, "_view_of", None)
        if vo is not None and vo[0].ndim == 1 and not vo[1] and z3.is_int_value(vo[2].get(0)) and vo[2][0].as_long() == 0:
            return count_before(vo[0], a._shape[0])          # sum(mask[:p])
        return count_before(a, a._shape[0])
    e = cur()
    key, n, rec = _memo_by_term(e, "sums", a)
    if rec is None:
        used("numpy.sum (1-d): ghost prefix sums PS(0)=0, PS(i+1)=PS(i)+a[i]; sum = PS(n)")
        PS = z3.Function(e.fresh_name("psum"), z3.IntSort(), a._es)
        i = z3.Int("q_i")
        at = a._at
        zero = z3.RealVal(0) if a._es == z3.RealSort() else z3.IntVal(0)
        e.assume(PS(0) == zero)
        e.assume(z3.ForAll([i], z3.Implies(z3.And(0 <= i, i < n), PS(i + 1) == PS(i) + at(i)), patterns=[PS(i + 1)]))
        rec = dict(PS=PS, n=n, arr=a)
        e.memo["sums"].append((key, n, rec))
        K = z3.Int("q_mk")
        x = z3.Int(e.fresh_name("ind_i"))
        if not _mentions(key, K):
            # constant array c: PS(i) == i*c  (induction: step proved here, closed form then assumed)
            ok = e.prove("lemma:sum:constant-array:induction-step", z3.Implies(z3.And(0 <= x, x < n, PS(x) == _num(a, x) * key), PS(x + 1) == _num(a, x + 1) * key),
                         kind="lemma")
            if ok:
                e.assume(z3.ForAll([i], z3.Implies(z3.And(0 <= i, i <= n), PS(i) == _num(a, i) * key), patterns=[PS(i)]))
        upd = getattr(a, "_upd", None)
        if upd is not None and upd[0] is not a._at:
            # a is old with one entry replaced (a[ix] = v): PS(i) == PS_old(i) + If(ix < i, v - old[ix], 0)  (induction as above)
            old_at, ix, v = upd
            kold = z3.simplify(old_at(K))
            prev = [r_ for k0, n0, r_ in e.memo["sums"] if k0.eq(kold) and n0.eq(n)]
            if prev and z3.simplify(at(K)).eq(z3.simplify(z3.If(K == ix, _num(a, v), old_at(K)))):
                PO = prev[0]["PS"]
                dlt = _num(a, v) - old_at(ix)
                shift = lambda t_: z3.If(ix < t_, dlt, zero)
                ok = e.prove("lemma:sum:point-update:induction-step",
                             z3.Implies(z3.And(0 <= x, x < n, PS(x) == PO(x) + shift(x)), PS(x + 1) == PO(x + 1) + shift(x + 1)), kind="lemma")
                if ok:
                    e.assume(z3.ForAll([i], z3.Implies(z3.And(0 <= i, i <= n), PS(i) == PO(i) + shift(i)), patterns=[PS(i)]))
    return wrap(rec["PS"](n))


def el_argsort(a, axis=-1):
    """argsort of a 1-d array: a permutation `asc` of [0,n) (ghost inverse) with a[asc[m]] non-decreasing in m"""
    a = as_earr(a)
    if a.ndim != 1 or axis not in (-1, 0):
        raise Unsupported("argsort of rank %d" % a.ndim)
    e = cur()
    key, n, rec = _memo_by_term(e, "argsorts", a)
    if rec is None:
        used("numpy.argsort (1-d): a permutation of the indices that sorts the values in non-decreasing order")
        asc = EArr.fresh("asc", (wrap(n),), numpy.int64)
        INV = z3.Function(e.fresh_name("ascinv"), z3.IntSort(), z3.IntSort())
        m, m2 = z3.Ints("q_m q_m2")
        at, f = a._at, asc._fn
        e.assume(z3.ForAll([m], z3.Implies(z3.And(0 <= m, m < n), z3.And(0 <= f(m), f(m) < n, INV(f(m)) == m)), patterns=[f(m)]))
        e.assume(z3.ForAll([m], z3.Implies(z3.And(0 <= m, m < n), z3.And(0 <= INV(m), INV(m) < n, f(INV(m)) == m)), patterns=[INV(m)]))
        e.assume(z3.ForAll([m, m2], z3.Implies(z3.And(0 <= m, m <= m2, m2 < n), at(f(m)) <= at(f(m2))),
                           patterns=[z3.MultiPattern(f(m), f(m2))]))
        rec = dict(asc=asc, INV=INV, n=n, arr=a)
        e.memo["argsorts"].append((key, n, rec))
    return rec["asc"]


def el_argmin(a, axis=None):
    a = as_earr(a)
    if a.ndim != 1 or axis not in (None, 0, -1):
        raise Unsupported("argmin of rank %d" % a.ndim)
    e = cur()
    used("numpy.argmin (1-d, non-empty): an index of a minimal entry (the first one)")
    n, at = _t(a._shape[0]), a._at
    e.prove("callsite:argmin:%s:non-empty" % e.fresh_name("am"), n >= 1, kind="call-pre")
    ix = z3.Int(e.fresh_name("argmin"))
    j = z3.Int("q_j")
    e.assume(z3.And(0 <= ix, ix < n))
    e.assume(z3.ForAll([j], z3.Implies(z3.And(0 <= j, j < n), z3.And(at(ix) <= at(j), z3.Implies(j < ix, at(ix) < at(j))))))
    return wrap(ix)


def el_cumsum(a, axis=None):
    a = as_earr(a)
    if a.ndim != 1:
        raise Unsupported("cumsum of rank %d" % a.ndim)
    e = cur()
    used("numpy.cumsum (1-d): c[0] = a[0], c[i] = c[i-1] + a[i]")
    c = EArr.fresh("cumsum", a._shape, a._dt)
    i = z3.Int("q_i")
    n, at, f = _t(a._shape[0]), a._at, c._fn
    e.assume(z3.Implies(n > 0, f(0) == at(0)))
    e.assume(z3.ForAll([i], z3.Implies(z3.And(1 <= i, i < n), f(i) == f(i - 1) + at(i)), patterns=[f(i)]))
    return c


def el_reshape(a, shape):
    a = as_earr(a)
    shape = tuple(shape)
    if a.ndim == 1 and len(shape) == 1:
        same = dims_equal(a._shape[0], shape[0])
        if same is True or (same is not False and same):
            return a
        raise ValueError("cannot reshape array of size into shape")
    raise Unsupported("reshape %r -> %r in element mode" % (a._shape, shape))


def el_count_nonzero(mask, axis=None, **kw):
    _guard_kw("count_nonzero", kw)
    """count of true entries of a 1-d boolean array: ghost counting function; when the mask is `x > 0` for an array x that
    was argsorted on this path, the sorted-order law is added: x[asc[m]] > 0  <=>  m >= n - count"""
    mask = as_earr(mask)
    if mask.ndim != 1 or axis is not None:
        raise Unsupported("count_nonzero of rank %d" % mask.ndim)
    e = cur()
    used("numpy.count_nonzero (1-d bool): 0 <= count <= n; for a mask x > 0 of an argsorted x the positives are the last `count` entries of the sorted order")
    n = _t(mask._shape[0])
    cnt = z3.Int(e.fresh_name("count"))
    e.assume(z3.And(0 <= cnt, cnt <= n))
    K = z3.Int("q_mk")
    mk = z3.simplify(mask._at(K))
    m = z3.Int("q_m")
    for k0, n0, rec in e.memo.get("argsorts", []):
        x = rec["arr"]
        zero = z3.RealVal(0) if x._es == z3.RealSort() else z3.IntVal(0)
        if z3.simplify(x._at(K) > zero).eq(mk) and z3.simplify(n0).eq(z3.simplify(n)):
            f, at = rec["asc"]._fn, x._at
            e.assume(z3.ForAll([m], z3.Implies(z3.And(0 <= m, m < n), (at(f(m)) > zero) == (m >= n - cnt)), patterns=[f(m)]))
            i = z3.Int("q_i")
            e.assume(z3.Implies(cnt == 0, z3.ForAll([i], z3.Implies(z3.And(0 <= i, i < n), z3.Not(at(i) > zero)), patterns=[at(i)])))
    return wrap(cnt)


def el_clip(a, a_min=None, a_max=None, out=None, **kw):
    _guard_kw("clip", kw)
    used("numpy.clip: elementwise min(max(x, lo), hi)")
    if out is not None:
        raise Unsupported("clip with out=")
    r = as_earr(a)
    if a_min is not None:
        r = elementwise(lambda x, lo: z3.If(_num2(x, lo)[0] < _num2(x, lo)[1], _num2(x, lo)[1], _num2(x, lo)[0]), (r, a_min))
    if a_max is not None:
        r = elementwise(lambda x, hi: z3.If(_num2(x, hi)[0] > _num2(x, hi)[1], _num2(x, hi)[1], _num2(x, hi)[0]), (r, a_max))
    return r


def _num2(a, b):
    if a.sort() != b.sort():
        if a.sort() == z3.IntSort():
            a = z3.ToReal(a)
        if b.sort() == z3.IntSort():
            b = z3.ToReal(b)
    return a, b


def el_prod(a, axis=None, **kw):
    _guard_kw("prod", kw)
    if isinstance(a, (tuple, list)):
        r = 1
        for x in a:
            r = r * x
        return r
    raise Unsupported("numpy.prod of %r" % type(a))


def el_all(a, axis=None):
    a = as_earr(a)
    if axis is not None or a.ndim != 1:
        raise Unsupported("all() with axis")
    used("numpy.all: universally quantified conjunction")
    n = _t(a._shape[0])
    k = z3.Int("q_k")
    return SymBool(z3.ForAll([k], z3.Implies(z3.And(0 <= k, k < n), a._at(k))))


def el_any(a, axis=None):
    a = as_earr(a)
    if a.ndim == 2 and axis in (1, -1):
        # row-wise any: ghost predicate ANY(i) with a witness column KW(i)
        used("numpy.any(axis=1): ANY(i) <=> exists k: a[i,k] (ghost witness function)")
        e = cur()
        ANY = z3.Function(e.fresh_name("anyrow"), z3.IntSort(), z3.BoolSort())
        KW = z3.Function(e.fresh_name("anycol"), z3.IntSort(), z3.IntSort())
        i, k = z3.Ints("q_i q_k")
        n1, n2, at = _t(a._shape[0]), _t(a._shape[1]), a._at
        e.assume(z3.ForAll([i], z3.Implies(z3.And(0 <= i, i < n1, ANY(i)), z3.And(0 <= KW(i), KW(i) < n2, at(i, KW(i)))), patterns=[ANY(i)]))
        body = at(i, k)
        both = [t_ for t_ in _uf_apps_with(body, i) if any(c.eq(k) for c in t_.children())]
        pats = both[:1] or [z3.MultiPattern(ANY(i), KW(k))]
        e.assume(z3.ForAll([i, k], z3.Implies(z3.And(0 <= i, i < n1, 0 <= k, k < n2, body), ANY(i)), patterns=pats))
        out = EArr((a._shape[0],), lambda r: ANY(r), bool)
        out._any_ghost = dict(ANY=ANY, KW=KW)
        return out
    if axis is not None or a.ndim != 1:
        raise Unsupported("any() with axis")
    used("numpy.any: existentially quantified disjunction")
    n = _t(a._shape[0])
    k = z3.Int("q_k")
    return SymBool(z3.Exists([k], z3.And(0 <= k, k < n, a._at(k))))


def el_diff(a, n=1, axis=-1, prepend=None, append=None):
    """numpy.diff of a 1-d array, optionally with a scalar prepended: out[j] = a'[j+1] - a'[j]"""
    used("numpy.diff (1-d, n=1, optional scalar prepend): first differences")
    a = as_earr(a)
    if a.ndim != 1 or n != 1 or append is not None:
        raise Unsupported("numpy.diff beyond 1-d / n=1 / prepend")
    at = a._at
    ln = _t(a._shape[0])
    if prepend is None:
        return EArr((wrap(z3.simplify(z3.If(ln - 1 > 0, ln - 1, 0))),), lambda j: at(j + 1) - at(j), a._dt)
    if isinstance(prepend, (EArr, numpy.ndarray)) and getattr(prepend, "ndim", 0) > 0:
        raise Unsupported("numpy.diff with array prepend")
    c = _t(prepend)
    if a._es == z3.RealSort() and c.sort() == z3.IntSort():
        c = z3.ToReal(c)
    return EArr((a._shape[0],), lambda j: at(j) - z3.If(j == 0, c, at(j - 1)), a._dt)


EL_FUNCS = {
    "diff": el_diff,
    "unique": el_unique,
    "flatnonzero": el_flatnonzero, "stack": el_stack, "repeat": el_repeat, "copy": el_copy,
    "clip": el_clip, "argmin": el_argmin, "argsort": el_argsort, "cumsum": el_cumsum, "count_nonzero": el_count_nonzero, "reshape": lambda a, shape, **k: el_reshape(a, shape if isinstance(shape, (tuple, list)) else (shape,)),
    "where": el_where, "sum": el_sum, "all": el_all, "any": el_any,
    "empty_like": lambda a, dtype=None, **k: el_empty(a.shape, dtype or a.dtype),
    "zeros_like": lambda a, dtype=None, **k: el_zeros(a.shape, dtype or a.dtype),
}

# creation functions have no array argument, so numpy's dispatch protocol never
# sees them: they are patched on the numpy module while a symbolic run is active
def el_int_(x=0, *a, **k):
    """numpy.int_(list) -> integer array with the list's items"""
    if hasattr(x, "vlen") and not isinstance(x, EArr):
        at = x._at
        return EArr((x.vlen(),), lambda i: at(i), numpy.int64)
    raise Unsupported("numpy.int_ of %r" % type(x))


CREATION = {"prod": el_prod, "repeat": el_repeat, "array": el_array, "int_": el_int_, "empty": el_empty, "zeros": el_zeros, "ones": el_ones, "full": el_full, "arange": el_arange}


class patched_numpy:
    """context manager: numpy.<creation fn> accept symbolic shapes"""

    def __enter__(self):
        self.saved = {}
        for name, impl in CREATION.items():
            orig = getattr(numpy, name)
            self.saved[name] = orig

            def mk(orig, impl, name):
                def f(*a, **k):
                    if sym.active() and _has_sym(a, k):
                        if name in ("array", "repeat", "prod") and not _wants_model(name, a, k):
                            return orig(*a, **k)
                        return impl(*a, **k)
                    return orig(*a, **k)
                f.__name__ = name
                return f
            setattr(numpy, name, mk(orig, impl, name))
        return self

    def __exit__(self, *exc):
        for name, orig in self.saved.items():
            setattr(numpy, name, orig)


def _wants_model(name, a, k):
    """numpy.array / numpy.repeat are patched only for the argument forms the model adds (a symbolic python list;
    scalar symbolic operands); arrays dispatch through EArr.__array_function__ as before"""
    if name == "array":
        return bool(a) and hasattr(a[0], "vlen") and hasattr(a[0], "append")
    if name == "repeat":
        return not any(isinstance(x, EArr) for x in a[:1])
    if name == "prod":
        return bool(a) and isinstance(a[0], (tuple, list))
    return True


def _has_sym(a, k):
    def chk(x):
        if sym.is_sym(x) or isinstance(x, EArr) or (hasattr(x, "vlen") and hasattr(x, "append")):
            return True
        if isinstance(x, (tuple, list)):
            return any(chk(y) for y in x)
        return False
    return any(chk(x) for x in a) or any(chk(x) for x in k.values())
