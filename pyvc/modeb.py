"""Driver for mode B units (shape-bounded symbolic; see pyvc/barr.py)."""
import numpy, z3
from . import sym, barr, loopcut
from .sym import cur, _t

TRUST = ["mode B: numpy structural functions are executed by numpy itself on object arrays of symbolic scalars; reductions, "
         "comparisons and elementwise math follow pyvc/barr.py (sum/mean/var/std/max/min/dot/where/norm by definition)",
         "floats read as reals; a concrete float constant is read as the simplest rational that rounds to it",
         "machine integers read as mathematical integers (no overflow modelled in mode B; dtype-limit cases are in the native rings)"]


def run_shapes(ctx, name, shapes, body, timeout_ms=None, max_paths=4000):
    """body(e, shape) runs the real code on fresh symbolic inputs of that shape and emits obligations via e.prove"""
    ctx.trust(*TRUST)
    n_ok = 0
    for shape in shapes:
        ex = ctx.explorer(max_paths=max_paths, **({"timeout_ms": timeout_ms} if timeout_ms else {}))
        tag = "%s@%s" % (name, "x".join(str(s) for s in shape) if isinstance(shape, (tuple, list)) else shape)

        def thunk(shape=shape, tag=tag):
            return body(cur(), shape, tag)
        try:
            with barr.patched_numpy(), loopcut.patched_modules(["pybrops.*"]):
                outs = ex.explore(thunk)
        except sym.Unsupported as u:
            import traceback
            ex.obligations.append(dict(name=tag + ":supported-subset", unit=ex.unit, kind="unsupported", path=0,
                                       status="unknown", solver="front-end", seconds=0.0, expect="proved",
                                       detail="UNSUPPORTED %s\n%s" % (u, traceback.format_exc()[-1200:])))
            ctx.absorb(ex)
            continue
        raised = [o for o in outs if isinstance(o, sym.Raised)]
        ex.obligations.append(dict(name=tag + ":noraise", unit=ex.unit, kind="noraise", path=0,
                                   status="proved" if not raised else "refuted", solver="native", seconds=0.0,
                                   expect="proved", detail="; ".join(repr(r) for r in raised[:2]) +
                                   ("\n" + raised[0].tb[-900:] if raised else "")))
        _replay_models(ex, body, shape, tag)
        ctx.absorb(ex)
        n_ok += 1
    ctx.exhaustive = False
    return n_ok


def _replay_models(ex, body, shape, tag, limit=3):
    """concrete replay of counter-models: the body runs once more with every symbol replaced by the model's value (real numpy arrays,
    the real code, no patched numpy); the refuted obligation is confirmed when it evaluates to false there as well"""
    done = 0
    seen = set()
    for o in ex.obligations:
        if o.get("status") != "refuted" or o.get("expect") != "proved" or not o.get("model") or o["name"] in seen:
            continue
        if done >= limit:
            break
        seen.add(o["name"])
        done += 1
        ce = sym.ConcreteExplorer(o["model"], unit=ex.unit)
        try:
            import warnings
            with warnings.catch_warnings():
                warnings.simplefilter("ignore")
                ce.run(lambda: body(ce, shape, tag))
        except Exception as x:        # the native run left the path of the model (rounding) or the harness cannot run concretely
            o["native"] = dict(confirmed=False, why="concrete replay stopped: %s: %s" % (type(x).__name__, str(x)[:200]))
            continue
        val = ce.results.get(o["name"])
        if val is False and not ce.assumption_broken:
            o["native"] = dict(confirmed=True, inputs=ce.inputs)
        else:
            o["native"] = dict(confirmed=False, why="obligation evaluates to %r on the model's values%s" % (
                val, "; an assumption does not hold on them: " + ce.assumption_broken if ce.assumption_broken else ""))


def eq(a, b):
    return barr.eq_all(a, b)


def close_scalar(a, b):
    ta, tb = sym._num(a, b)
    return ta == tb


class Frame:
    """snapshot of the element terms of symbolic input arrays; `unchanged()` is the python-level frame condition that the
    code under contract did not write into them"""

    def __init__(self, **arrays):
        self.arrays = arrays
        self.snap = {k: [_t(v[idx]) for idx in numpy.ndindex(*v.shape)] for k, v in arrays.items()}

    def unchanged(self):
        for k, v in self.arrays.items():
            for t0, idx in zip(self.snap[k], numpy.ndindex(*v.shape)):
                if not _t(v[idx]).eq(t0):
                    return False
        return True
