"""Opaque symbolic arrays (mode A1): whole-array numpy operators as
uninterpreted z3 functions; shapes computed eagerly as symbolic integers.

An OArr is a numpy.ndarray subclass (so the repository's isinstance / ndim /
dtype checks run unchanged) carrying a z3 term of the uninterpreted sort Arr.
Two results are the same array iff their terms are equal (congruence), which is
exactly "the same operator with the same index argument was applied".
Normal forms keep harmless refactorings equal: fancy indexing a[idx] along an
axis is TAKE, numpy.append is CONCAT2, concatenate is a left fold of CONCAT2.
"""
import numpy, z3
from . import sym
from .sym import SymInt, SymBool, SymReal, wrap, _t, cur, Unsupported, fresh_int

ARR = z3.DeclareSort("Arr")
I = z3.IntSort()
LENF = z3.Function("LEN", ARR, I, I)
TAKE = z3.Function("TAKE", ARR, ARR, I, ARR)
TAKE_MODE = z3.Function("TAKE_MODE", ARR, ARR, I, I, ARR)
SLICE = z3.Function("SLICE", ARR, I, I, ARR)
NONE_IX = z3.Int("NONE_IX")
DELETE_A = z3.Function("DELETE_A", ARR, ARR, I, ARR)
DELETE_I = z3.Function("DELETE_I", ARR, I, I, ARR)
DELETE_S = z3.Function("DELETE_S", ARR, I, I, I, ARR)
INSERT_A = z3.Function("INSERT_A", ARR, ARR, ARR, I, ARR)
INSERT_I = z3.Function("INSERT_I", ARR, I, ARR, I, ARR)
INSERT_S = z3.Function("INSERT_S", ARR, I, I, I, ARR, I, ARR)
CONCAT2 = z3.Function("CONCAT2", ARR, ARR, I, ARR)
NONES = z3.Function("NONES", I, ARR)
LEXSORT_NIL = z3.Const("LEXSORT_NIL", ARR)
LEXCONS = z3.Function("LEXCONS", ARR, ARR, ARR)      # key list
LEXSORT = z3.Function("LEXSORT", ARR, ARR)
UNIQ_VAL = z3.Function("UNIQ_VAL", ARR, ARR)
UNIQ_IDX = z3.Function("UNIQ_IDX", ARR, ARR)
UNIQ_CNT = z3.Function("UNIQ_CNT", ARR, ARR)
NUNIQ = z3.Function("NUNIQ", ARR, I)
ADD = z3.Function("ADD", ARR, ARR, ARR)
SUB = z3.Function("SUB", ARR, ARR, ARR)
MUL = z3.Function("MUL", ARR, ARR, ARR)
DIV = z3.Function("DIV", ARR, ARR, ARR)
SCALAR_I = z3.Function("SCALAR_I", I, ARR)
SCALAR_R = z3.Function("SCALAR_R", z3.RealSort(), ARR)
ARANGE = z3.Function("ARANGE", I, ARR)
ASTYPE = z3.Function("ASTYPE", ARR, I, ARR)
GENERIC = {}

USED = set()


def used(s):
    USED.add(s)


def gen_fn(name, nargs):
    k = (name, nargs)
    if k not in GENERIC:
        GENERIC[k] = z3.Function(name, *([ARR] * nargs + [ARR]))
    return GENERIC[k]


class OArr(numpy.ndarray):
    __array_priority__ = 1000

    def __new__(cls, term, shape, dtype):
        o = numpy.ndarray.__new__(cls, shape=(0,) * len(shape), dtype=dtype)
        o._term = term
        o._shape = tuple(shape)
        o._dt = numpy.dtype(dtype)
        return o

    def __array_finalize__(self, obj):
        pass

    @classmethod
    def fresh(cls, name, shape, dtype):
        t = z3.Const(cur().fresh_name(name), ARR)
        e = cur()
        for d, s in enumerate(shape):
            e.assume(LENF(t, d) == _t(s))
        return cls(t, shape, dtype)

    @property
    def shape(self): return self._shape
    @property
    def ndim(self): return len(self._shape)
    @property
    def dtype(self): return self._dt

    @property
    def size(self):
        r = 1
        for d in self._shape:
            r = r * d
        return r

    def __len__(self):
        d = self._shape[0]
        if isinstance(d, int):
            return d
        raise Unsupported("len() of symbolic-length array in an unpatched namespace")

    def vlen(self):
        return self._shape[0]

    def __repr__(self):
        return "OArr(%s, shape=%s, %s)" % (self._term, self._shape, self._dt)
    __str__ = __repr__
    __hash__ = None

    def __bool__(self):
        raise Unsupported("truth value of an opaque array")

    def __iter__(self):
        raise Unsupported("python iteration over an opaque array")

    def copy(self, order="C"):
        return OArr(self._term, self._shape, self._dt)

    def __copy__(self):
        return self.copy()

    def __deepcopy__(self, memo):
        return self.copy()

    def astype(self, dtype, **kw):
        dt = numpy.dtype(dtype)
        if dt == self._dt:
            return self.copy()
        used("ndarray.astype: opaque conversion ASTYPE(a, dtype)")
        return OArr(ASTYPE(self._term, hash(dt.str) % 1000), self._shape, dt)

    # ---- indexing: a[idx] / a[:, idx, :] with an index array is TAKE; basic slices unsupported (use take)
    def __getitem__(self, key):
        if isinstance(key, OArr):
            return a_take(self, key, 0)
        if isinstance(key, slice) and key.step is None and all(
                v is None or isinstance(v, (int, SymInt, numpy.integer)) for v in (key.start, key.stop)):
            if key.start is None and key.stop is None:
                return OArr(self._term, self._shape, self._dt)        # a[:] : a view of everything
            used("a[lo:hi] on an opaque array: opaque SLICE(a, lo, hi) along axis 0 (None bounds are the constant NONE_IX); "
                 "the length of the result is a fresh non-negative integer not larger than the length of a")
            ln = fresh_int("slicelen", 0)
            cur().assume(ln.t <= _t(self._shape[0]))
            lo = NONE_IX if key.start is None else _t(key.start)
            hi = NONE_IX if key.stop is None else _t(key.stop)
            return OArr(SLICE(self._term, lo, hi), (ln,) + tuple(self._shape[1:]), self._dt)
        if isinstance(key, tuple) and key and all(isinstance(k, IxArg) for k in key) and len(key) <= self.ndim \
                and [k.pos for k in key] == list(range(len(key))):
            out = self
            for k in key:
                out = a_take(out, k.arr, k.pos)
            return out
        if isinstance(key, tuple):
            arrs = [(d, k) for d, k in enumerate(key) if isinstance(k, OArr)]
            rest = [k for k in key if not isinstance(k, OArr)]
            if len(arrs) == 1 and all(isinstance(k, slice) and k == slice(None) for k in rest):
                return a_take(self, arrs[0][1], arrs[0][0])
        raise Unsupported("indexing an opaque array with %r" % (key,))

    def __setitem__(self, key, value):
        # a[:] = v / a[...] = v overwrites the whole buffer IN PLACE: every alias of this array object
        # (e.g. a label array shared with another matrix) observes the new content
        full = key is Ellipsis or (isinstance(key, slice) and key == slice(None)) or \
            (isinstance(key, tuple) and all((isinstance(k, slice) and k == slice(None)) or k is Ellipsis for k in key))
        if full and isinstance(value, OArr):
            used("a[:] = v on an opaque array: in-place overwrite of the buffer (aliases see it)")
            self._term = value._term
            self._writes = getattr(self, "_writes", 0) + 1
            return
        raise Unsupported("partial element assignment into an opaque array")

    def _bin(self, o, F, name):
        used("elementwise %s as an opaque operator (congruence only)" % name)
        a, b = as_oarr(self), as_oarr(o)
        shp = a._shape if len(a._shape) >= len(b._shape) else b._shape
        return OArr(F(a._term, b._term), shp, numpy.result_type(a._dt, b._dt) if name != "div" else numpy.float64)

    def __add__(self, o): return self._bin(o, ADD, "add")
    def __radd__(self, o): return as_oarr(o)._bin(self, ADD, "add")
    def __sub__(self, o): return self._bin(o, SUB, "sub")
    def __rsub__(self, o): return as_oarr(o)._bin(self, SUB, "sub")
    def __mul__(self, o): return self._bin(o, MUL, "mul")
    def __rmul__(self, o): return as_oarr(o)._bin(self, MUL, "mul")
    def __truediv__(self, o): return self._bin(o, DIV, "div")
    def __rtruediv__(self, o): return as_oarr(o)._bin(self, DIV, "div")

    def __array_ufunc__(self, ufunc, method, *inputs, **kw):
        tbl = {"add": (ADD, "add"), "subtract": (SUB, "sub"), "multiply": (MUL, "mul"), "true_divide": (DIV, "div"), "divide": (DIV, "div")}
        if method == "__call__" and ufunc.__name__ in tbl and len(inputs) == 2:
            F, nm = tbl[ufunc.__name__]
            return as_oarr(inputs[0])._bin(inputs[1], F, nm)
        raise Unsupported("ufunc %s.%s on opaque array" % (ufunc.__name__, method))

    def __array_function__(self, func, types, args, kwargs):
        impl = A1_FUNCS.get(func.__name__)
        if impl is None:
            raise Unsupported("numpy.%s on opaque array" % func.__name__)
        return impl(*args, **kwargs)

    def take(self, indices, axis=None, **kw):
        return a_take(self, indices, axis)


def as_oarr(x):
    if isinstance(x, OArr):
        return x
    if isinstance(x, SymInt):
        return OArr(SCALAR_I(x.t), (), numpy.int64)
    if isinstance(x, SymReal):
        return OArr(SCALAR_R(x.t), (), numpy.float64)
    if isinstance(x, (int, numpy.integer)):
        return OArr(SCALAR_I(z3.IntVal(int(x))), (), numpy.int64)
    if isinstance(x, (float, numpy.floating)):
        return OArr(SCALAR_R(z3.RealVal(repr(float(x)))), (), numpy.float64)
    if isinstance(x, numpy.ndarray) and x.ndim == 0:
        return as_oarr(x.item())
    raise Unsupported("cannot make an opaque array from %r" % type(x))


def _axis(a, axis):
    if axis is None:
        raise Unsupported("axis=None on opaque array")
    ax = int(axis)
    if ax < 0:
        ax += a.ndim
    if not (0 <= ax < a.ndim):
        raise numpy.exceptions.AxisError(axis, a.ndim)
    return ax


def a_take(a, indices, axis=None, **kw):
    used("numpy.take(a, idx, axis) / a[idx]: result[.., k, ..] = a[.., idx[k], ..] (opaque TAKE; shape: axis length := len(idx))")
    ax = _axis(a, axis)
    mode = kw.pop("mode", "raise")
    if kw.get("out") is not None or set(kw) - {"out"}:
        raise Unsupported("numpy.take with options %s" % sorted(kw))
    if mode not in (None, "raise"):
        # 'clip' / 'wrap' treat negative and out-of-range indices differently from plain indexing: a different operator
        if not isinstance(indices, OArr) or indices.ndim != 1:
            raise Unsupported("take(mode=%r) with non-vector indices" % (mode,))
        used("numpy.take(mode='%s'): opaque TAKE_MODE, NOT the indexing operator (negative indices are clipped / wrapped)" % mode)
        shp = list(a._shape)
        shp[ax] = indices._shape[0]
        return OArr(TAKE_MODE(a._term, indices._term, ax, {"clip": 1, "wrap": 2}.get(mode, 3)), shp, a._dt)
    if not isinstance(indices, OArr):
        raise Unsupported("take with non-symbolic indices")
    if indices.ndim != 1:
        raise Unsupported("take with ndim != 1 index array")
    shp = list(a._shape)
    shp[ax] = indices._shape[0]
    return OArr(_take_term(a._term, indices._term, ax), shp, a._dt)


def _take_term(t, idx, ax):
    """TAKE along different axes commute: nested TAKEs are kept in ascending axis order (canonical form), so that the order in
    which a routine walks the axes does not matter for the comparison of terms"""
    if z3.is_app(t) and t.decl().eq(TAKE) and z3.is_int_value(t.arg(2)) and t.arg(2).as_long() > ax:
        return TAKE(_take_term(t.arg(0), idx, ax), t.arg(1), t.arg(2))
    return TAKE(t, idx, ax)


class IxArg:
    """one element of numpy.ix_(...) : index vector number `pos` of an open mesh"""

    def __init__(self, arr, pos):
        self.arr, self.pos = arr, pos


def a_ix_(*args):
    used("numpy.ix_(i0, i1, ..): a[numpy.ix_(i0, .., ik)] = TAKE(..TAKE(TAKE(a, i0, 0), i1, 1).., ik, k), remaining axes untouched")
    for x in args:
        if not isinstance(x, OArr) or x.ndim != 1:
            raise Unsupported("numpy.ix_ with an argument that is not a symbolic vector")
    return tuple(IxArg(x, k) for k, x in enumerate(args))


def a_delete(a, obj, axis=None):
    ax = _axis(a, axis)
    shp = list(a._shape)
    n = _t(shp[ax])
    if isinstance(obj, OArr):
        used("numpy.delete(a, idx_array, axis): axis length n - len(idx) for distinct in-range indices (opaque DELETE_A)")
        shp[ax] = wrap(n - _t(obj._shape[0]))
        return OArr(DELETE_A(a._term, obj._term, ax), shp, a._dt)
    if isinstance(obj, (int, SymInt, numpy.integer)):
        used("numpy.delete(a, i, axis): axis length n - 1 (opaque DELETE_I)")
        shp[ax] = wrap(n - 1)
        return OArr(DELETE_I(a._term, _t(obj), ax), shp, a._dt)
    if isinstance(obj, slice):
        raise Unsupported("delete with slice on opaque array")
    raise Unsupported("delete with obj of type %s" % type(obj))


def a_insert(a, obj, values, axis=None):
    ax = _axis(a, axis)
    shp = list(a._shape)
    n = _t(shp[ax])
    v = values
    if not isinstance(v, OArr):
        raise Unsupported("insert with non-symbolic values")
    if isinstance(obj, OArr):
        used("numpy.insert(a, idx_array, values, axis): axis length n + len(idx) (opaque INSERT_A)")
        shp[ax] = wrap(n + _t(obj._shape[0]))
        return OArr(INSERT_A(a._term, obj._term, v._term, ax), shp, a._dt)
    if isinstance(obj, (int, SymInt, numpy.integer)):
        # scalar obj: numpy moves axis 0 of `values` to `axis`; the clean axiom holds only for
        # 1-d values or axis == 0 (DESIGN §4.3) -- callers outside that case are flagged
        if v.ndim > 1 and ax != 0:
            used("numpy.insert quirk: scalar obj with n-d values on axis != 0 (values' axis 0 is moved) -- opaque INSERT_IQ")
            F = gen_fn("INSERT_IQ%d" % ax, 2)
            k = v._shape[0]
            shp[ax] = wrap(n + _t(k))
            return OArr(F(a._term, v._term), shp, a._dt)
        used("numpy.insert(a, i, values, axis) (opaque INSERT_I)")
        k = v._shape[ax] if v.ndim == a.ndim else (v._shape[0] if v.ndim >= 1 else 1)
        shp[ax] = wrap(n + _t(k))
        return OArr(INSERT_I(a._term, _t(obj), v._term, ax), shp, a._dt)
    raise Unsupported("insert with obj of type %s" % type(obj))


def a_append(a, values, axis=None):
    ax = _axis(a, axis)
    return a_concatenate([a, values], axis=ax)


def a_concatenate(arrs, axis=0, **kw):
    if any(v is not None for k, v in kw.items() if k in ("out", "dtype")) or set(kw) - {"out", "dtype", "casting"}:
        raise Unsupported("numpy.concatenate with options %s" % sorted(kw))
    used("numpy.concatenate/append along axis: left fold of opaque CONCAT2; axis length is the sum")
    arrs = list(arrs)
    if not arrs:
        raise ValueError("need at least one array to concatenate")
    a = arrs[0]
    if not isinstance(a, OArr):
        raise Unsupported("concatenate of non-symbolic array")
    ax = _axis(a, axis)
    for b in arrs[1:]:
        if not isinstance(b, OArr):
            raise Unsupported("concatenate of non-symbolic array")
        if b.ndim != a.ndim:
            raise ValueError("all the input array dimensions must match")
        for d in range(a.ndim):
            if d != ax:
                ok = SymBool(z3.simplify(_t(a._shape[d]) == _t(b._shape[d])))
                if not (ok if isinstance(ok, bool) else bool(ok)):
                    raise ValueError("all the input array dimensions except for the concatenation axis must match exactly")
        shp = list(a._shape)
        shp[ax] = wrap(_t(a._shape[ax]) + _t(b._shape[ax]))
        a = OArr(CONCAT2(a._term, b._term, ax), shp, numpy.result_type(a._dt, b._dt))
    return a


def a_lexsort(keys, axis=-1):
    used("numpy.lexsort(keys): opaque LEXSORT over the key list (stable, last key primary); a permutation of range(n)")
    keys = list(keys)
    if not keys:
        raise TypeError("need sequence of keys with len > 0 in lexsort")
    t = LEXSORT_NIL
    for k in keys:
        if not isinstance(k, OArr):
            raise Unsupported("lexsort on non-symbolic key")
        t = LEXCONS(k._term, t)
    return OArr(LEXSORT(t), (keys[0]._shape[0],), numpy.int64)


def a_unique(a, return_index=False, return_inverse=False, return_counts=False, axis=None, **kw):
    used("numpy.unique(a, return_index, return_counts): opaque UNIQ_VAL/UNIQ_IDX/UNIQ_CNT of length NUNIQ(a)")
    if return_inverse or kw:
        raise Unsupported("unique(return_inverse / %s)" % sorted(kw))
    g = SymInt(NUNIQ(a._term))
    cur().assume(z3.And(NUNIQ(a._term) >= 0, NUNIQ(a._term) <= _t(a._shape[0])))
    out = [OArr(UNIQ_VAL(a._term), (g,), a._dt)]
    if return_index:
        out.append(OArr(UNIQ_IDX(a._term), (g,), numpy.int64))
    if return_counts:
        out.append(OArr(UNIQ_CNT(a._term), (g,), numpy.int64))
    return out[0] if len(out) == 1 else tuple(out)


def a_copy(a, **kw):
    if set(kw) - {"order", "subok"}:
        raise Unsupported("numpy.copy with options %s" % sorted(kw))
    return a.copy()


def a_array(a, dtype=None, copy=True, **kw):
    if isinstance(a, OArr):
        return a.copy() if dtype is None else a.astype(dtype)
    raise Unsupported("numpy.array on a structure containing opaque arrays")


A1_FUNCS = {"take": a_take, "delete": a_delete, "insert": a_insert, "append": a_append,
            "concatenate": a_concatenate, "lexsort": a_lexsort, "unique": a_unique, "copy": a_copy,
            "array": a_array, "asarray": a_array, "ix_": a_ix_}


def o_empty(shape, dtype=float, **kw):
    shape = tuple(shape) if isinstance(shape, (tuple, list)) else (shape,)
    if numpy.dtype(dtype) == object and len(shape) == 1:
        used("numpy.empty(n, dtype=object): array of n None values (opaque NONES(n))")
        return OArr(NONES(_t(shape[0])), shape, object)
    raise Unsupported("numpy.empty with symbolic shape in opaque mode")


def o_arange(start, stop=None, step=1, dtype=None):
    if stop is None and step == 1:
        used("numpy.arange(n) (opaque ARANGE(n))")
        return OArr(ARANGE(_t(start)), (start,), dtype or numpy.int64)
    raise Unsupported("arange(start, stop, step) in opaque mode")


class patched_numpy:
    """numpy creation functions that receive no array argument"""
    TABLE = {"empty": o_empty, "arange": o_arange}

    def __enter__(self):
        self.saved = {}
        for name, impl in self.TABLE.items():
            orig = getattr(numpy, name)
            self.saved[name] = orig

            def mk(orig, impl):
                def f(*a, **k):
                    if sym.active() and any(isinstance(x, SymInt) or (isinstance(x, (tuple, list)) and any(isinstance(y, SymInt) for y in x))
                                            for x in list(a) + list(k.values())):
                        return impl(*a, **k)
                    return orig(*a, **k)
                return f
            setattr(numpy, name, mk(orig, impl))
        return self

    def __exit__(self, *exc):
        for name, orig in self.saved.items():
            setattr(numpy, name, orig)


def same(a, b):
    """z3 formula: a and b denote the same array (or are both None)"""
    if a is None or b is None:
        return z3.BoolVal(a is None and b is None)
    if not isinstance(a, OArr) or not isinstance(b, OArr):
        return z3.BoolVal(False)
    if len(a._shape) != len(b._shape) or a._dt != b._dt:
        return z3.BoolVal(False)
    return a._term == b._term
