"""Mode B: shape-bounded symbolic execution -- "real numpy on symbolic scalars".

A BArr is a numpy.ndarray subclass with REAL object-dtype storage and a concrete
shape whose elements are python numbers or symbolic scalars (SymInt / SymReal /
SymBool).  Structural numpy functions (take, delete, insert, concatenate,
reshape, indexing, broadcasting ...) are executed by numpy itself on the object
array, so no model of them is needed; arithmetic goes through the scalars'
operators and builds z3 terms; comparisons give symbolic booleans; anything
that needs the truth value of a symbolic condition forks the path.

Bounded in shape (every shape is enumerated concretely by the unit), unbounded
in values.  Always labelled *bounded* in evidence.
"""
import numpy, z3
from . import sym, lemma
from .sym import SymInt, SymReal, SymBool, wrap, _t, cur, Unsupported, ite

_PLAIN = numpy.ndarray


def _is_symbolic(x):
    return isinstance(x, (SymInt, SymReal, SymBool))


def _ldt_of_scalar(x):
    if isinstance(x, (bool, numpy.bool_, SymBool)):
        return numpy.dtype(bool)
    if isinstance(x, (int, numpy.integer, SymInt)):
        return numpy.dtype("int64")
    if isinstance(x, (float, numpy.floating, SymReal)):
        return numpy.dtype("float64")
    return numpy.dtype(object)


class BArr(numpy.ndarray):
    __array_priority__ = 900

    def __array_finalize__(self, obj):
        self._ldt = getattr(obj, "_ldt", None)

    @property
    def dtype(self):
        return self._ldt if self._ldt is not None else numpy.dtype(object)

    def plain(self):
        return self.view(_PLAIN)

    def __repr__(self):
        return "BArr(%s, ldt=%s)" % (self.plain().tolist(), self._ldt)
    __str__ = __repr__

    def __getitem__(self, key):
        return numpy.ndarray.__getitem__(self, _concrete_key(key))

    def __setitem__(self, key, value):
        if isinstance(value, BArr):
            value = value.plain()
        return numpy.ndarray.__setitem__(self, _concrete_key(key), value)

    def astype(self, dtype, **kw):
        dt = numpy.dtype(dtype)
        conv = _converter(self._ldt, dt)
        out = numpy.frompyfunc(conv, 1, 1)(self.plain()) if self.size else self.plain().copy()
        return mk(out, dt)

    def copy(self, order="C"):
        return mk(self.plain().copy(), self._ldt)

    def __deepcopy__(self, memo):
        return self.copy()

    def __array_ufunc__(self, ufunc, method, *inputs, **kwargs):
        return _ufunc(ufunc, method, inputs, kwargs)

    def __array_function__(self, func, types, args, kwargs):
        return _function(func, args, kwargs)

    # reductions as methods (ndarray methods bypass the protocols)
    def sum(self, axis=None, dtype=None, out=None, keepdims=False, **kw):
        _guard_kw("sum", kw, out)
        return _reduce_add(self, axis, keepdims)

    def mean(self, axis=None, dtype=None, out=None, keepdims=False, **kw):
        _guard_kw("mean", kw, out)
        return b_mean(self, axis=axis, keepdims=keepdims)

    def max(self, axis=None, out=None, keepdims=False, **kw):
        _guard_kw("max", kw, out)
        return _reduce_cmp(self, axis, keepdims, lambda a, b: ite(a >= b, a, b))

    def min(self, axis=None, out=None, keepdims=False, **kw):
        _guard_kw("min", kw, out)
        return _reduce_cmp(self, axis, keepdims, lambda a, b: ite(a <= b, a, b))

    def all(self, axis=None, out=None, keepdims=False, **kw):
        _guard_kw("all", kw, out)
        return _reduce_bool(self, axis, keepdims, lambda a, b: _and(a, b), True)

    def any(self, axis=None, out=None, keepdims=False, **kw):
        _guard_kw("any", kw, out)
        return _reduce_bool(self, axis, keepdims, lambda a, b: _or(a, b), False)

    def dot(self, other):
        return _function(numpy.dot, (self, other), {})

    def std(self, axis=None, dtype=None, out=None, ddof=0, keepdims=False, **kw):
        _guard_kw("std", kw, out)
        return b_std(self, axis=axis, ddof=ddof, keepdims=keepdims)

    def var(self, axis=None, dtype=None, out=None, ddof=0, keepdims=False, **kw):
        _guard_kw("var", kw, out)
        return b_var(self, axis=axis, ddof=ddof, keepdims=keepdims)

    def argmax(self, axis=None, **kw):
        _guard_kw("argmax", kw)
        return _arg_ext(self, axis, lambda a, b: a > b)

    def argmin(self, axis=None, **kw):
        _guard_kw("argmin", kw)
        return _arg_ext(self, axis, lambda a, b: a < b)

    def argsort(self, axis=-1, kind=None, order=None, **kw):
        return _argsort(self, axis)

    def cumsum(self, axis=None, **kw):
        _guard_kw("cumsum", kw)
        return _function(numpy.cumsum, (self,), dict(axis=axis))

    def ptp(self, axis=None, **kw):
        _guard_kw("ptp", kw)
        return self.max(axis) - self.min(axis)


def _guard_kw(name, kw, out=None):
    """options a reduction override does not model (where=, initial=, out=) must not be silently ignored"""
    if out is not None:
        raise Unsupported("%s(out=...) on a symbolic array" % name)
    for k, v in kw.items():
        if v is None or v is False:
            continue
        raise Unsupported("%s(%s=%r) on a symbolic array is not modelled" % (name, k, v))


def _concrete_key(key):
    """boolean masks must be concrete for numpy: the truth of every symbolic entry forks the path"""
    if isinstance(key, BArr):
        if key._ldt is not None and key._ldt.kind == "b":
            return numpy.array([bool(x) for x in key.plain().reshape(-1)], dtype=bool).reshape(key.shape)
        if key._ldt is not None and key._ldt.kind in "iu":
            return numpy.array([int(x) for x in key.plain().reshape(-1)], dtype=int).reshape(key.shape)
        return key.plain()
    if isinstance(key, tuple):
        return tuple(_concrete_key(k) for k in key)
    if isinstance(key, SymInt):
        return int(key)
    return key


def mk(data, ldt):
    a = numpy.asarray(data, dtype=object) if not (isinstance(data, _PLAIN) and data.dtype == object) else data
    out = a.view(BArr)
    out._ldt = numpy.dtype(ldt) if ldt is not None else None
    return out


def from_concrete(arr):
    arr = numpy.asarray(arr)
    return mk(arr.astype(object), arr.dtype)


def fresh(name, shape, dtype, lo=None, hi=None):
    """array of fresh symbolic scalars (optionally range constrained)"""
    dt = numpy.dtype(dtype)
    e = cur()
    if getattr(e, "concrete", False):
        # concrete replay of a counter-model: an ordinary numpy array of the declared dtype
        real = numpy.empty(shape, dtype=dt)
        for idx in numpy.ndindex(*shape):
            nm = "%s_%s" % (name, "_".join(str(i) for i in idx))
            real[idx] = e.value(e.fresh_name(nm), "i" if dt.kind in "iu" else "b" if dt.kind == "b" else "f", lo, hi)
        return real
    out = numpy.empty(shape, dtype=object)
    for idx in numpy.ndindex(*shape):
        nm = "%s_%s" % (name, "_".join(str(i) for i in idx))
        if dt.kind in "iu":
            v = SymInt(z3.Int(e.fresh_name(nm)))
        elif dt.kind == "f":
            v = SymReal(z3.Real(e.fresh_name(nm)))
        elif dt.kind == "b":
            v = SymBool(z3.Bool(e.fresh_name(nm)))
        else:
            raise Unsupported("fresh BArr of dtype %s" % dt)
        if lo is not None:
            e.assume(v.t >= _t(lo))
        if hi is not None:
            e.assume(v.t <= _t(hi))
        out[idx] = v
    return mk(out, dt)


def _converter(src, dst):
    def conv(x):
        if dst.kind == "f":
            if isinstance(x, SymInt):
                return SymReal(z3.ToReal(x.t))
            if isinstance(x, SymBool):
                return SymReal(z3.If(x.t, z3.RealVal(1), z3.RealVal(0)))
            if isinstance(x, SymReal):
                return x
            return float(x)
        if dst.kind in "iu":
            if isinstance(x, SymBool):
                return SymInt(z3.If(x.t, 1, 0))
            if isinstance(x, SymInt):
                return x
            if isinstance(x, SymReal):
                raise Unsupported("real -> int conversion of a symbolic value")
            return int(x)
        if dst.kind == "b":
            if isinstance(x, SymBool):
                return x
            if _is_symbolic(x):
                return x != 0
            return bool(x)
        return x
    return conv


def _plainify(x):
    if isinstance(x, BArr):
        return x.plain()
    if isinstance(x, (list, tuple)):
        return type(x)(_plainify(y) for y in x)
    return x


def _first_ldt(args):
    for a in args:
        if isinstance(a, BArr):
            return a._ldt
        if isinstance(a, (list, tuple)):
            r = _first_ldt(a)
            if r is not None:
                return r
    return None


def _and(a, b):
    if _is_symbolic(a) or _is_symbolic(b):
        return wrap(z3.And(_t(a), _t(b)))
    return bool(a) and bool(b)


def _or(a, b):
    if _is_symbolic(a) or _is_symbolic(b):
        return wrap(z3.Or(_t(a), _t(b)))
    return bool(a) or bool(b)


def _not(a):
    if _is_symbolic(a):
        return wrap(z3.Not(_t(a)))
    return not bool(a)


def _objarr(x):
    if isinstance(x, BArr):
        return x.plain()
    if isinstance(x, _PLAIN):
        return x.astype(object)
    if isinstance(x, (list, tuple)):
        return numpy.asarray(_plainify(x), dtype=object)
    if _is_symbolic(x):
        a = numpy.empty((), dtype=object)      # a 0-d box: symbolic scalars define __array_ufunc__ themselves
        a[()] = x
        return a
    return x


_CMP = {"less": lambda a, b: a < b, "less_equal": lambda a, b: a <= b, "greater": lambda a, b: a > b,
        "greater_equal": lambda a, b: a >= b, "equal": lambda a, b: a == b, "not_equal": lambda a, b: a != b}
_LOGIC2 = {"logical_and": _and, "logical_or": _or, "bitwise_and": _and, "bitwise_or": _or}
_MATH1 = {"exp": lemma.exp, "log": lemma.log, "sqrt": lemma.sqrt, "tanh": lemma.tanh, "arctanh": lemma.arctanh}


def _num_apply(f):
    def g(*a):
        if any(_is_symbolic(x) for x in a):
            return f(*a)
        return f(*a)
    return g


def _ufunc(ufunc, method, inputs, kwargs):
    name = ufunc.__name__
    out = kwargs.pop("out", None)
    kwargs.pop("dtype", None)
    if method == "reduce":
        a = inputs[0]
        axis = kwargs.get("axis", 0)
        keep = kwargs.get("keepdims", False)
        if name == "add":
            return _reduce_add(a, axis, keep)
        if name == "maximum":
            return _reduce_cmp(a, axis, keep, lambda x, y: ite(x >= y, x, y))
        if name == "minimum":
            return _reduce_cmp(a, axis, keep, lambda x, y: ite(x <= y, x, y))
        if name in ("logical_and", "bitwise_and"):
            return _reduce_bool(a, axis, keep, _and, True)
        if name in ("logical_or", "bitwise_or"):
            return _reduce_bool(a, axis, keep, _or, False)
        if name == "multiply":
            return _reduce_gen(a, axis, keep, lambda x, y: x * y, 1)
        raise Unsupported("ufunc %s.reduce in mode B" % name)
    if method == "accumulate" and name == "add":
        return _function(numpy.cumsum, (inputs[0],), dict(axis=kwargs.get("axis", 0)))
    if method == "outer":
        a, b = (_objarr(x) for x in inputs)
        f = {"multiply": lambda x, y: x * y, "add": lambda x, y: x + y, "subtract": lambda x, y: x - y}.get(name)
        if f is None:
            raise Unsupported("ufunc %s.outer" % name)
        res = numpy.frompyfunc(f, 2, 1).outer(a, b)
        return mk(res, numpy.result_type(*[_ldt(x) for x in inputs]))
    if method != "__call__":
        raise Unsupported("ufunc %s.%s in mode B" % (name, method))
    args = [_objarr(x) for x in inputs]
    ldts = [_ldt(x) for x in inputs]
    if name in _CMP:
        res = numpy.frompyfunc(_CMP[name], 2, 1)(*args)
        rdt = bool
    elif name in _LOGIC2:
        res = numpy.frompyfunc(_LOGIC2[name], 2, 1)(*args)
        rdt = bool
    elif name in ("logical_not", "invert"):
        res = numpy.frompyfunc(_not, 1, 1)(*args)
        rdt = bool
    elif name in _MATH1:
        res = numpy.frompyfunc(_MATH1[name], 1, 1)(*args)
        rdt = numpy.float64
    elif name == "absolute":
        res = numpy.frompyfunc(lambda x: abs(x), 1, 1)(*args)
        rdt = ldts[0]
    elif name == "square":
        res = numpy.frompyfunc(lambda x: x * x, 1, 1)(*args)
        rdt = ldts[0]
    elif name == "maximum":
        res = numpy.frompyfunc(lambda x, y: ite(x >= y, x, y) if (_is_symbolic(x) or _is_symbolic(y)) else max(x, y), 2, 1)(*args)
        rdt = numpy.result_type(*ldts)
    elif name == "minimum":
        res = numpy.frompyfunc(lambda x, y: ite(x <= y, x, y) if (_is_symbolic(x) or _is_symbolic(y)) else min(x, y), 2, 1)(*args)
        rdt = numpy.result_type(*ldts)
    elif name in ("true_divide", "divide"):
        res = numpy.frompyfunc(_div, 2, 1)(*args)
        rdt = numpy.float64
    elif name == "power":
        res = numpy.frompyfunc(lambda x, y: x ** y, 2, 1)(*args)
        rdt = numpy.result_type(*ldts)
    elif name in ("add", "subtract", "multiply", "negative", "positive", "floor_divide", "remainder"):
        op = {"add": lambda x, y: x + y, "subtract": lambda x, y: x - y, "multiply": lambda x, y: x * y,
              "negative": lambda x: -x, "positive": lambda x: x, "floor_divide": lambda x, y: x // y,
              "remainder": lambda x, y: x % y}[name]
        res = numpy.frompyfunc(_boolnum(op), ufunc.nin, 1)(*args)
        rdt = numpy.result_type(*ldts) if name not in ("negative", "positive") else ldts[0]
        if numpy.dtype(rdt).kind == "b":
            rdt = numpy.dtype("int64")
    elif name == "isnan" or name == "isinf":
        res = numpy.frompyfunc(lambda x: False if _is_symbolic(x) else bool(getattr(numpy, name)(x)), 1, 1)(*args)
        rdt = bool
    elif name == "isfinite":
        res = numpy.frompyfunc(lambda x: True if _is_symbolic(x) else bool(numpy.isfinite(x)), 1, 1)(*args)
        rdt = bool
    elif name == "matmul":
        return _function(numpy.matmul, inputs, {})
    else:
        raise Unsupported("ufunc %s in mode B" % name)
    res = res if isinstance(res, _PLAIN) else numpy.asarray(res, dtype=object)
    if out is not None:
        o = out[0] if isinstance(out, tuple) else out
        o.view(_PLAIN)[...] = res
        return o
    if res.ndim == 0:
        return res.item()
    return mk(res, rdt)


def _boolnum(op):
    def f(*a):
        a = [(wrap(z3.If(x.t, 1, 0)) if isinstance(x, SymBool) else (int(x) if isinstance(x, (bool, numpy.bool_)) else x)) for x in a]
        return op(*a)
    return f


def _div(a, b):
    if isinstance(a, SymBool):
        a = wrap(z3.If(a.t, 1, 0))
    if _is_symbolic(a) or _is_symbolic(b):
        if not _is_symbolic(b) and b == 0:
            raise Unsupported("division by a concrete zero in symbolic arithmetic")
        return (a if _is_symbolic(a) else SymReal(lemma._r(a))) / b
    return a / b if b != 0 else (numpy.float64(a) / numpy.float64(b))


def _ldt(x):
    if isinstance(x, BArr):
        return x._ldt
    if isinstance(x, _PLAIN):
        return x.dtype
    return _ldt_of_scalar(x)


def _axis_tuple(a, axis):
    if axis is None:
        return tuple(range(a.ndim))
    if isinstance(axis, (int, numpy.integer)):
        axis = (int(axis),)
    return tuple(x + a.ndim if x < 0 else x for x in axis)


def _reduce_gen(a, axis, keepdims, f, init, rdt=None):
    p = _objarr(a)
    axes = _axis_tuple(p, axis)
    rest = [d for d in range(p.ndim) if d not in axes]
    moved = numpy.transpose(p, rest + list(axes)).reshape([p.shape[d] for d in rest] + [-1]) if p.ndim else p.reshape(1)
    out = numpy.empty(moved.shape[:-1], dtype=object)
    for idx in numpy.ndindex(*moved.shape[:-1]):
        acc = init
        first = True
        for v in moved[idx]:
            if first and init is None:
                acc = v
            else:
                acc = f(acc, v)
            first = False
        out[idx] = acc
    if keepdims:
        shp = [1 if d in axes else p.shape[d] for d in range(p.ndim)]
        out = out.reshape(shp)
    if out.ndim == 0:
        return out.item()
    return mk(out, rdt if rdt is not None else _ldt(a))


def _reduce_add(a, axis, keepdims):
    dt = _ldt(a)
    if dt is not None and numpy.dtype(dt).kind == "b":
        a2 = a.astype("int64") if isinstance(a, BArr) else a
        return _reduce_gen(a2, axis, keepdims, lambda x, y: x + y, 0, numpy.dtype("int64"))
    rdt = numpy.dtype("int64") if (dt is not None and numpy.dtype(dt).kind in "iu") else dt
    return _reduce_gen(a, axis, keepdims, lambda x, y: x + y, 0, rdt)


def _reduce_cmp(a, axis, keepdims, f):
    if a.size == 0:
        raise ValueError("zero-size array to reduction operation which has no identity")
    return _reduce_gen(a, axis, keepdims, f, None)


def _reduce_bool(a, axis, keepdims, f, init):
    p = a
    if _ldt(a) is not None and numpy.dtype(_ldt(a)).kind != "b":
        p = a != 0
    return _reduce_gen(p, axis, keepdims, f, init, bool)


def _arg_ext(a, axis, better):
    p = _objarr(a)
    if axis is None:
        flat = p.reshape(-1)
        best, bi = flat[0], 0
        for i in range(1, len(flat)):
            if better(flat[i], best):      # forks on symbolic comparisons (first extremum wins, as numpy)
                best, bi = flat[i], i
        return bi
    moved = numpy.moveaxis(p, axis, -1)
    out = numpy.empty(moved.shape[:-1], dtype=int)
    for idx in numpy.ndindex(*moved.shape[:-1]):
        row = moved[idx]
        best, bi = row[0], 0
        for i in range(1, len(row)):
            if better(row[i], best):
                best, bi = row[i], i
        out[idx] = bi
    return out


def _argsort1(p):
    idx = list(range(len(p)))
    # stable insertion sort; comparisons on symbolic values fork the path
    for i in range(1, len(idx)):
        j = i
        while j > 0 and (p[idx[j]] < p[idx[j - 1]]):
            idx[j], idx[j - 1] = idx[j - 1], idx[j]
            j -= 1
    return idx


def _argsort(a, axis=-1):
    p = _objarr(a)
    if p.ndim == 1:
        return numpy.array(_argsort1(p), dtype=int)
    ax = axis if axis >= 0 else axis + p.ndim
    moved = numpy.moveaxis(p, ax, -1)
    out = numpy.empty(moved.shape, dtype=int)
    for idx in numpy.ndindex(*moved.shape[:-1]):
        out[idx] = _argsort1(moved[idx])
    return numpy.moveaxis(out, -1, ax)


def b_mean(a, axis=None, keepdims=False, **kw):
    p = _objarr(a)
    axes = _axis_tuple(p, axis)
    n = 1
    for d in axes:
        n *= p.shape[d]
    s = _reduce_gen(a.astype("float64") if isinstance(a, BArr) else a, axis, keepdims, lambda x, y: x + y, 0, numpy.float64)
    if n == 0:
        raise Unsupported("mean of empty array")
    return s / n


def b_var(a, axis=None, ddof=0, keepdims=False, **kw):
    m = b_mean(a, axis=axis, keepdims=True)
    d = a.astype("float64") - m
    p = _objarr(a)
    axes = _axis_tuple(p, axis)
    n = 1
    for x in axes:
        n *= p.shape[x]
    s = _reduce_gen(d * d, axis, keepdims, lambda x, y: x + y, 0, numpy.float64)
    return s / (n - ddof)


def b_std(a, axis=None, ddof=0, keepdims=False, **kw):
    v = b_var(a, axis=axis, ddof=ddof, keepdims=keepdims)
    return numpy.sqrt(v) if isinstance(v, BArr) else lemma.sqrt(v)


def b_where(cond, x=None, y=None):
    if x is None:
        raise Unsupported("where(cond) single-argument form in mode B")
    c, xx, yy = _objarr(cond), _objarr(x), _objarr(y)

    def sel(cv, a, b):
        if _is_symbolic(cv):
            return ite(cv, a, b)
        return a if cv else b
    res = numpy.frompyfunc(sel, 3, 1)(c, xx, yy)
    return mk(res, numpy.result_type(_ldt(x), _ldt(y)))


def b_dot(a, b):
    pa, pb = _objarr(a), _objarr(b)
    res = numpy.dot(pa, pb)
    rdt = numpy.result_type(_ldt(a), _ldt(b))
    if numpy.dtype(rdt).kind == "b":
        rdt = numpy.dtype("int64")
    if not isinstance(res, _PLAIN) or res.ndim == 0:
        return res.item() if isinstance(res, _PLAIN) else res
    return mk(res, rdt)


def b_norm(x, ord=None, axis=None, keepdims=False):
    if ord not in (None, 2, "fro"):
        raise Unsupported("norm ord=%r" % (ord,))
    s = _reduce_gen(x * x, axis, keepdims, lambda a, b: a + b, 0, numpy.float64)
    return numpy.sqrt(s) if isinstance(s, BArr) else lemma.sqrt(s)


def b_all(a, axis=None, **kw): return _reduce_bool(a, axis, kw.get("keepdims", False), _and, True)
def b_any(a, axis=None, **kw): return _reduce_bool(a, axis, kw.get("keepdims", False), _or, False)


SPECIAL = {
    "where": b_where, "dot": b_dot, "matmul": b_dot, "mean": b_mean, "var": b_var, "std": b_std,
    "sum": lambda a, axis=None, keepdims=False, **k: _reduce_add(a, axis, keepdims),
    "max": lambda a, axis=None, keepdims=False, **k: _reduce_cmp(a, axis, keepdims, lambda x, y: ite(x >= y, x, y)),
    "amax": lambda a, axis=None, keepdims=False, **k: _reduce_cmp(a, axis, keepdims, lambda x, y: ite(x >= y, x, y)),
    "min": lambda a, axis=None, keepdims=False, **k: _reduce_cmp(a, axis, keepdims, lambda x, y: ite(x <= y, x, y)),
    "amin": lambda a, axis=None, keepdims=False, **k: _reduce_cmp(a, axis, keepdims, lambda x, y: ite(x <= y, x, y)),
    "all": b_all, "any": b_any, "norm": b_norm,
    "argmax": lambda a, axis=None, **k: _arg_ext(a, axis, lambda x, y: x > y),
    "argmin": lambda a, axis=None, **k: _arg_ext(a, axis, lambda x, y: x < y),
    "argsort": lambda a, axis=-1, **k: _argsort(a, axis),
    "nanmean": b_mean, "nanstd": b_std, "nanvar": b_var,
    "ptp": lambda a, axis=None, **k: a.max(axis) - a.min(axis),
    "prod": lambda a, axis=None, keepdims=False, **k: _reduce_gen(a, axis, keepdims, lambda x, y: x * y, 1),
    "logical_not": lambda a, **k: _ufunc(numpy.logical_not, "__call__", (a,), {}),
}


def _function(func, args, kwargs):
    name = func.__name__
    if name in SPECIAL:
        return SPECIAL[name](*args, **kwargs)
    ldt = _first_ldt(args)
    pa = _plainify(args)
    pk = {k: _plainify(v) for k, v in kwargs.items()}
    if name in ("empty_like", "zeros_like", "ones_like", "full_like"):
        a = args[0]
        dt = kwargs.get("dtype") or ldt
        fill = {"empty_like": 0, "zeros_like": 0, "ones_like": 1}.get(name, args[1] if len(args) > 1 else kwargs.get("fill_value"))
        out = numpy.empty(a.shape, dtype=object)
        out[...] = fill
        return mk(out, dt)
    res = func(*pa, **pk)
    return _rewrap(res, ldt)


def _rewrap(res, ldt):
    if isinstance(res, _PLAIN):
        if res.dtype == object:
            if res.ndim == 0:
                return res.item()
            return mk(res, ldt)
        return res
    if isinstance(res, tuple):
        return tuple(_rewrap(r, ldt) for r in res)
    if isinstance(res, list):
        return [_rewrap(r, ldt) for r in res]
    return res


class patched_numpy:
    """in mode B every array the code under test allocates is a BArr, so that
    symbolic values can be stored into it"""

    def __enter__(self):
        self.saved = {}

        def wrapper(name, fill):
            orig = getattr(numpy, name)
            self.saved[name] = orig

            def f(shape, *a, **k):
                import sys as _sys
                caller = _sys._getframe(1).f_globals.get("__name__", "")
                if not sym.active() or not caller.startswith(("pybrops", "contracts")):
                    return orig(shape, *a, **k)
                dtype = k.get("dtype", a[-1] if (a and name != "full") or (name == "full" and len(a) > 1) else float)
                fv = fill if name != "full" else (a[0] if a else k.get("fill_value"))
                if dtype is None:
                    dtype = _ldt_of_scalar(fv)
                out = numpy.ndarray.__new__(numpy.ndarray, shape if isinstance(shape, tuple) else
                                            (tuple(shape) if isinstance(shape, list) else (int(shape),)), dtype=object)
                out[...] = fv
                return mk(out, dtype)
            setattr(numpy, name, f)
        for nm, fill in (("empty", 0), ("zeros", 0), ("ones", 1), ("full", None)):
            wrapper(nm, fill)
        orig_arange = numpy.arange
        self.saved["arange"] = orig_arange

        def arange(*a, **k):
            import sys as _sys
            caller = _sys._getframe(1).f_globals.get("__name__", "")
            res = orig_arange(*[int(x) if isinstance(x, SymInt) else x for x in a], **k)
            if sym.active() and caller.startswith(("pybrops", "contracts")):
                return from_concrete(res)       # so that indexing it with symbolic masks / indices is intercepted
            return res
        numpy.arange = arange
        return self

    def __exit__(self, *exc):
        for name, orig in self.saved.items():
            setattr(numpy, name, orig)


def eq_all(a, b):
    """z3 formula: arrays equal elementwise (shapes must agree concretely)"""
    pa, pb = _objarr(a), _objarr(b)
    pa = numpy.asarray(pa, dtype=object)
    pb = numpy.asarray(pb, dtype=object)
    if pa.shape != pb.shape:
        return z3.BoolVal(False)
    cs = []
    for x, y in zip(pa.reshape(-1), pb.reshape(-1)):
        if x is None or y is None:
            cs.append(z3.BoolVal(x is None and y is None))
            continue
        if isinstance(x, str) or isinstance(y, str):
            cs.append(z3.BoolVal(x == y))
            continue
        tx, ty = sym._num(x, y) if not isinstance(x, (SymBool, bool, numpy.bool_)) else (_t(x), _t(y))
        cs.append(tx == ty)
    return z3.And(*cs) if cs else z3.BoolVal(True)


# numpy's object loops call these methods for unary math on scalars
for _n, _f in (("sqrt", lemma.sqrt), ("exp", lemma.exp), ("log", lemma.log), ("tanh", lemma.tanh), ("arctanh", lemma.arctanh)):
    setattr(SymReal, _n, (lambda f: lambda self: f(self))(_f))
    setattr(SymInt, _n, (lambda f: lambda self: f(self))(_f))
