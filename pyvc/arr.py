"""Element-level symbolic arrays (mode A2).

EArr is a numpy.ndarray subclass (so the repository's own isinstance / ndim /
dtype checks run unchanged) whose content is a *functional array*: a python
closure from z3 index terms to a z3 element term, and whose shape is a tuple of
python ints / SymInt.  Fresh arrays are uninterpreted z3 functions.  Basic
slicing gives views (reads see later writes to the base; writes go through),
fancy indexing gives copies, as in numpy.
"""
import numpy, z3
from . import sym
from .sym import SymInt, SymReal, SymBool, wrap, _t, cur, Unsupported


def esort_of(dtype):
    k = numpy.dtype(dtype).kind
    if k in "iu":
        return z3.IntSort()
    if k == "f":
        return z3.RealSort()
    if k == "b":
        return z3.BoolSort()
    if k in "OUS":
        return STR
    raise Unsupported("dtype %s" % dtype)


STR = z3.DeclareSort("Str")     # opaque label sort (equality only)


def _dim_t(d):
    return _t(d)


def dims_equal(a, b):
    """python bool if decidable syntactically, else SymBool"""
    if isinstance(a, int) and isinstance(b, int):
        return a == b
    e = z3.simplify(_t(a) == _t(b))
    if z3.is_true(e):
        return True
    if z3.is_false(e):
        return False
    return SymBool(e)


class EArr(numpy.ndarray):
    __array_priority__ = 1000

    def __new__(cls, shape, at, dtype, mutable=True):
        nd = len(shape)
        o = numpy.ndarray.__new__(cls, shape=(0,) * nd, dtype=dtype)
        o._shape = tuple(shape)
        o._at = at
        o._dt = numpy.dtype(dtype)
        o._es = esort_of(dtype)
        o._writer = None          # for views: function(region_pred, value_fn)
        return o

    def __array_finalize__(self, obj):
        pass

    # ---- constructors
    @classmethod
    def fresh(cls, name, shape, dtype):
        es = esort_of(dtype)
        nm = cur().fresh_name(name)
        if len(shape) == 0:
            c = z3.Const(nm, es)
            return cls(shape, lambda: c, dtype)
        f = z3.Function(nm, *([z3.IntSort()] * len(shape) + [es]))
        a = cls(shape, lambda *i: f(*i), dtype)
        a._fn = f
        return a

    @classmethod
    def from_concrete(cls, arr):
        arr = numpy.asarray(arr)
        es = esort_of(arr.dtype)

        def at(*idx):
            # nested If over the concrete entries (small arrays only)
            res = None
            it = list(numpy.ndindex(arr.shape))
            if len(it) > 64:
                raise Unsupported("concrete array too large to embed")
            for pos in reversed(it):
                v = _t(arr[pos].item())
                if res is None:
                    res = v
                else:
                    res = z3.If(z3.And(*[idx[d] == pos[d] for d in range(arr.ndim)]), v, res)
            return res
        return cls(arr.shape, at, arr.dtype)

    # ---- ndarray attribute overrides
    @property
    def shape(self):
        return self._shape

    @property
    def ndim(self):
        return len(self._shape)

    @property
    def dtype(self):
        return self._dt

    @property
    def size(self):
        r = 1
        for d in self._shape:
            r = r * d
        return r

    @property
    def T(self):
        return self.transpose()

    def __len__(self):
        d = self._shape[0]
        if isinstance(d, int):
            return d
        raise Unsupported("len() of symbolic-length array outside a patched namespace")

    def vlen(self):
        return self._shape[0]

    def at(self, *idx):
        return self._at(*[_t(i) for i in idx])

    def __repr__(self):
        return "EArr(shape=%s,%s)" % (self._shape, self._dt)

    __str__ = __repr__

    def __iter__(self):
        d = self._shape[0]
        if isinstance(d, int):
            return iter([self[i] for i in range(d)])
        raise Unsupported("python iteration over symbolic-length array (loop not cut)")

    def __bool__(self):
        if self.ndim == 0:
            return bool(wrap(self._at()))
        raise ValueError("truth value of a symbolic array is ambiguous")

    def item(self):
        if self.ndim == 0:
            return wrap(self._at())
        raise Unsupported("item() on non-scalar")

    # ---- copies
    def copy(self, order="C"):
        f = self._at
        return EArr(self._shape, f, self._dt)

    def __copy__(self):
        return self.copy()

    def __deepcopy__(self, memo):
        return self.copy()

    def astype(self, dtype, **kw):
        dt = numpy.dtype(dtype)
        es = esort_of(dt)
        f = self._at
        if es == self._es:
            return EArr(self._shape, f, dt)
        if self._es == z3.IntSort() and es == z3.RealSort():
            return EArr(self._shape, lambda *i: z3.ToReal(f(*i)), dt)
        if self._es == z3.BoolSort() and es == z3.IntSort():
            return EArr(self._shape, lambda *i: z3.If(f(*i), 1, 0), dt)
        if self._es == z3.BoolSort() and es == z3.RealSort():
            return EArr(self._shape, lambda *i: z3.If(f(*i), z3.RealVal(1), z3.RealVal(0)), dt)
        raise Unsupported("astype %s -> %s" % (self._dt, dt))

    def transpose(self, *axes):
        nd = self.ndim
        if not axes or axes == (None,):
            perm = tuple(reversed(range(nd)))
        elif len(axes) == 1 and isinstance(axes[0], (tuple, list)):
            perm = tuple(axes[0])
        else:
            perm = tuple(axes)
        base = self
        shp = tuple(self._shape[p] for p in perm)

        def at(*i):
            b = [None] * nd
            for k, p in enumerate(perm):
                b[p] = i[k]
            return base._at(*b)
        return EArr(shp, at, self._dt)

    # ---- indexing
    def _norm_index(self, i, n):
        """scalar index -> z3 term in [0,n); forks an IndexError path if it may
        be out of bounds"""
        if isinstance(i, (int, numpy.integer)) and isinstance(n, int):
            i = int(i)
            if not (-n <= i < n):
                raise IndexError("index %d out of bounds for axis of size %d" % (i, n))
            return z3.IntVal(i if i >= 0 else i + n)
        ti, tn = _t(i), _t(n)
        if isinstance(i, (int, numpy.integer)):
            if int(i) >= 0:
                ok = SymBool(z3.simplify(ti < tn))
                if not ok:
                    raise IndexError("index out of bounds")
                return ti
            ok = SymBool(z3.simplify(-tn <= ti))
            if not ok:
                raise IndexError("index out of bounds")
            return z3.simplify(ti + tn)
        ok = SymBool(z3.And(-tn <= ti, ti < tn))
        if not ok:
            raise IndexError("index out of bounds")
        neg = SymBool(z3.simplify(ti < 0))
        if cur()._feasible(neg.t) and neg:
            return ti + tn
        return ti

    @staticmethod
    def _norm_slice(s, n):
        """returns (start term, length) for step 1 slices with numpy clipping"""
        if s.step not in (None, 1):
            raise Unsupported("slice step %r" % (s.step,))
        tn = _t(n)

        def clip(v, default):
            if v is None:
                return default
            if isinstance(v, (int, numpy.integer)) and isinstance(n, int):
                v = int(v)
                if v < 0:
                    v = max(v + n, 0)
                return z3.IntVal(min(v, n))
            tv = _t(v)
            if isinstance(v, (int, numpy.integer)):
                v = int(v)
                if v >= 0:
                    return z3.If(tv < tn, tv, tn) if v > 0 else z3.IntVal(0)
                return z3.If(tv + tn > 0, tv + tn, 0)
            return z3.If(tv < 0, z3.If(tv + tn > 0, tv + tn, 0), z3.If(tv < tn, tv, tn))
        st = z3.simplify(clip(s.start, z3.IntVal(0)))
        sp = z3.simplify(clip(s.stop, tn))
        ln = z3.simplify(z3.If(sp - st > 0, sp - st, 0))
        return st, wrap(ln)

    def _expand_key(self, key):
        if not isinstance(key, tuple):
            key = (key,)
        if any(k is None for k in key):
            raise Unsupported("newaxis indexing beyond a[None, :] / a[:, None] of a 1-d array")
        n_ell = sum(1 for k in key if k is Ellipsis)
        if n_ell > 1:
            raise IndexError("multiple ellipsis")
        if n_ell:
            p = [i for i, k in enumerate(key) if k is Ellipsis][0]
            fill = self.ndim - (len(key) - 1)
            key = key[:p] + (slice(None),) * fill + key[p + 1:]
        if len(key) > self.ndim:
            raise IndexError("too many indices for array")
        key = key + (slice(None),) * (self.ndim - len(key))
        return key

    def __getitem__(self, key):
        if isinstance(key, numpy.ndarray) and not isinstance(key, EArr) and key.dtype == bool:
            raise Unsupported("boolean mask indexing with a concrete mask")
        if isinstance(key, EArr) and key._es == z3.BoolSort():
            # a[mask] along axis 0 with a 1-d mask: a[flatnonzero(mask)] (positions: ghost enumeration shared by every use
            # of the same mask value, see npmodel.mask_positions)
            if key.ndim != 1:
                raise Unsupported("boolean mask indexing with a mask of rank %d" % key.ndim)
            same = dims_equal(key._shape[0], self._shape[0])
            if not (same is True or (same is not False and same)):
                raise IndexError("boolean index did not match indexed array along axis 0")
            from . import npmodel
            xo = npmodel.mask_positions(key)
            return self[xo]
        if self.ndim == 1 and isinstance(key, tuple) and len(key) == 2 and ((key[0] is None and key[1] == slice(None)) or
                                                                            (key[1] is None and key[0] == slice(None))):
            base, n = self._at, self._shape[0]          # a[None, :] / a[:, None]: a (1,n) / (n,1) read-only copy
            if key[0] is None:
                return EArr((1, n), lambda i, j: base(j), self._dt, mutable=False)
            return EArr((n, 1), lambda i, j: base(i), self._dt, mutable=False)
        key = self._expand_key(key)
        if self.ndim == 1 and isinstance(key[0], slice) and key[0].start is None and key[0].stop is None and key[0].step == -1:
            base, tn = self._at, _t(self._shape[0])      # a[::-1] (read as a reversed copy; writes through are not modelled)
            return EArr(self._shape, lambda i: base(tn - 1 - i), self._dt, mutable=False)
        is_arr = [isinstance(k, (numpy.ndarray, list)) for k in key]
        if not any(is_arr):
            return self._basic_get(key)
        return self._fancy_get(key, is_arr)

    def _basic_get(self, key):
        base = self
        fixed = {}
        offs = {}
        shp = []
        dimmap = []
        for d, k in enumerate(key):
            n = self._shape[d]
            if isinstance(k, slice):
                st, ln = self._norm_slice(k, n)
                offs[d] = st
                shp.append(ln)
                dimmap.append(d)
            else:
                fixed[d] = self._norm_index(k, n)
        nd = self.ndim

        def bidx(i):
            b = [None] * nd
            for d in range(nd):
                if d in fixed:
                    b[d] = fixed[d]
            for r, d in enumerate(dimmap):
                b[d] = z3.simplify(offs[d] + i[r]) if not z3.is_int_value(offs[d]) or offs[d].as_long() != 0 else i[r]
            return b

        if not shp:
            return wrap(base._at(*bidx(())))
        v = EArr(tuple(shp), lambda *i: base._at(*bidx(i)), self._dt)

        def writer(pred_fn, val_fn):
            # pred_fn / val_fn take view coordinates
            def bpred(*b):
                conds = [b[d] == fixed[d] for d in fixed]
                vi = [b[d] - offs[d] for d in dimmap]
                conds += [z3.And(vi[r] >= 0, vi[r] < _t(shp[r])) for r in range(len(dimmap))]
                conds.append(pred_fn(*vi))
                return z3.And(*conds)

            def bval(*b):
                vi = [b[d] - offs[d] for d in dimmap]
                return val_fn(*vi)
            base._write(bpred, bval)
        v._writer = writer
        v._view_of = (base, dict(fixed), dict(offs), list(dimmap))
        return v

    def _fancy_get(self, key, is_arr):
        # advanced = arrays and scalars; must be adjacent
        adv = [i for i, k in enumerate(key) if not isinstance(k, slice)]
        if adv != list(range(adv[0], adv[-1] + 1)):
            raise Unsupported("non-adjacent advanced indices")
        arrs = [i for i in adv if is_arr[i]]
        if len(arrs) != 1:
            raise Unsupported("more than one index array")
        ai = arrs[0]
        ix = key[ai]
        if not isinstance(ix, EArr):
            ix = EArr.from_concrete(numpy.asarray(ix))
        if ix._es != z3.IntSort():
            raise Unsupported("non-integer index array")
        base_at = self._at          # snapshot: fancy indexing copies
        nd = self.ndim
        fixed = {i: self._norm_index(key[i], self._shape[i]) for i in adv if i != ai}
        offs = {}
        shp = []
        plan = []   # per result dim: ('arr', k) or ('slice', base dim)
        for d, k in enumerate(key):
            if d == adv[0]:
                for r in range(ix.ndim):
                    shp.append(ix._shape[r])
                    plan.append(("arr", r))
            if isinstance(k, slice):
                st, ln = self._norm_slice(k, self._shape[d])
                offs[d] = st
                shp.append(ln)
                plan.append(("slice", d))
        n_ai = _t(self._shape[ai])
        ixat = ix._at
        nonneg = bool(getattr(ix, "_nonneg", False))     # index vectors known to hold positions (flatnonzero): no wrap-around term

        def at(*i):
            b = [None] * nd
            for d in fixed:
                b[d] = fixed[d]
            ai_idx = [None] * ix.ndim
            for r, (kind, v) in enumerate(plan):
                if kind == "arr":
                    ai_idx[v] = i[r]
                else:
                    b[v] = offs[v] + i[r]
            raw = ixat(*ai_idx)
            b[ai] = raw if nonneg else z3.If(raw < 0, raw + n_ai, raw)
            return base_at(*b)
        return EArr(tuple(shp), at, self._dt)

    def _write(self, pred, val):
        """in-place update: content := If(pred(idx), val(idx), old(idx))"""
        if self._writer is not None:
            return self._writer(pred, val)
        old = self._at
        es = self._es

        def new(*i):
            v = val(*i)
            if es == z3.RealSort() and v.sort() == z3.IntSort():
                v = z3.ToReal(v)
            return z3.If(pred(*i), v, old(*i))
        self._at = new

    def __setitem__(self, key, value):
        if isinstance(key, EArr) and key._es == z3.BoolSort():
            # a[mask] = scalar : elementwise (mask of the same shape)
            if key.ndim != self.ndim:
                raise Unsupported("boolean mask assignment with a mask of different rank")
            if isinstance(value, (EArr, numpy.ndarray)) and getattr(value, "ndim", 0) > 0:
                raise Unsupported("boolean mask assignment of an array value")
            tv = _t(value)
            m = key._at
            self._write(lambda *i: m(*i), lambda *i: tv)
            return
        key = self._expand_key(key)
        if any(isinstance(k, (numpy.ndarray, list)) for k in key):
            return self._fancy_set(key, value)
        fixed = {}
        offs = {}
        lens = {}
        dimmap = []
        for d, k in enumerate(key):
            n = self._shape[d]
            if isinstance(k, slice):
                st, ln = self._norm_slice(k, n)
                offs[d] = st
                lens[d] = _t(ln)
                dimmap.append(d)
            else:
                fixed[d] = self._norm_index(k, n)
        region_shape = [wrap(lens[d]) for d in dimmap]
        vfn = _value_fn(value, region_shape)
        if self.ndim == 1 and not dimmap and self._writer is None:
            # a[ix] = v on a 1-d array: remembered so that ghost sums of the new content can be related to the old ones
            self._upd = (self._at, fixed[0], _t(value.item() if isinstance(value, numpy.ndarray) else value))

        def pred(*b):
            cs = [b[d] == fixed[d] for d in fixed]
            cs += [z3.And(b[d] >= offs[d], b[d] < offs[d] + lens[d]) for d in dimmap]
            return z3.And(*cs) if cs else z3.BoolVal(True)

        def val(*b):
            return vfn(*[b[d] - offs[d] for d in dimmap])
        self._write(pred, val)

    def _fancy_set(self, key, value):
        if self.ndim != 1 or len(key) != 1 or not isinstance(key[0], EArr) or key[0].ndim != 1 or key[0]._es != z3.IntSort():
            raise Unsupported("fancy assignment other than a[index_vector] = scalar on a 1-d array")
        if isinstance(value, (EArr, numpy.ndarray)) and getattr(value, "ndim", 0) > 0:
            raise Unsupported("fancy assignment of an array value")
        tv = _t(value)
        ix, m, n = key[0]._at, _t(key[0]._shape[0]), _t(self._shape[0])
        q = z3.Int("q_fs")
        self._write(lambda b: z3.Exists([q], z3.And(0 <= q, q < m, z3.If(ix(q) < 0, ix(q) + n, ix(q)) == b)), lambda b: tv)

    def flatten(self, order="C"):
        if self.ndim == 1:
            return self.copy()
        raise Unsupported("flatten of a rank-%d symbolic array" % self.ndim)

    # ---- elementwise arithmetic
    def _ew(self, other, f, out_dtype=None, swap=False):
        return elementwise(f, (other, self) if swap else (self, other), out_dtype)

    def __add__(self, o): return self._ew(o, lambda a, b: a + b)
    def __radd__(self, o): return self._ew(o, lambda a, b: a + b, swap=True)
    def __sub__(self, o): return self._ew(o, lambda a, b: a - b)
    def __rsub__(self, o): return self._ew(o, lambda a, b: a - b, swap=True)
    def __mul__(self, o): return self._ew(o, lambda a, b: a * b)
    def __rmul__(self, o): return self._ew(o, lambda a, b: a * b, swap=True)
    def __truediv__(self, o): return self._ew(o, _div, numpy.float64)
    def __rtruediv__(self, o): return self._ew(o, _div, numpy.float64, swap=True)
    def __neg__(self): return elementwise(lambda a: -a, (self,))
    def __lt__(self, o): return self._ew(o, lambda a, b: a < b, bool)
    def __le__(self, o): return self._ew(o, lambda a, b: a <= b, bool)
    def __gt__(self, o): return self._ew(o, lambda a, b: a > b, bool)
    def __ge__(self, o): return self._ew(o, lambda a, b: a >= b, bool)
    def __eq__(self, o): return self._ew(o, lambda a, b: a == b, bool)
    def __ne__(self, o): return self._ew(o, lambda a, b: a != b, bool)
    def __and__(self, o): return self._ew(o, lambda a, b: z3.And(a, b), bool)
    def __or__(self, o): return self._ew(o, lambda a, b: z3.Or(a, b), bool)
    def __invert__(self): return elementwise(lambda a: z3.Not(a), (self,), bool)
    __hash__ = None

    def __array_ufunc__(self, ufunc, method, *inputs, **kwargs):
        if method != "__call__" or kwargs.get("out") is not None:
            raise Unsupported("ufunc %s.%s on symbolic array" % (ufunc.__name__, method))
        tbl = {
            "add": (lambda a, b: a + b, None), "subtract": (lambda a, b: a - b, None),
            "multiply": (lambda a, b: a * b, None), "true_divide": (_div, numpy.float64), "divide": (_div, numpy.float64),
            "negative": (lambda a: -a, None),
            "less": (lambda a, b: a < b, bool), "less_equal": (lambda a, b: a <= b, bool),
            "greater": (lambda a, b: a > b, bool), "greater_equal": (lambda a, b: a >= b, bool),
            "equal": (lambda a, b: a == b, bool), "not_equal": (lambda a, b: a != b, bool),
            "logical_and": (lambda a, b: z3.And(a, b), bool), "logical_or": (lambda a, b: z3.Or(a, b), bool),
            "logical_not": (lambda a: z3.Not(a), bool),
            "bitwise_and": (lambda a, b: z3.And(a, b), bool), "bitwise_or": (lambda a, b: z3.Or(a, b), bool),
            "invert": (lambda a: z3.Not(a), bool),
            "absolute": (lambda a: z3.If(a >= 0, a, -a), None),
        }
        if ufunc.__name__ not in tbl:
            raise Unsupported("ufunc %s on symbolic array" % ufunc.__name__)
        f, dt = tbl[ufunc.__name__]
        return elementwise(f, inputs, dt)

    def __array_function__(self, func, types, args, kwargs):
        from . import npmodel
        impl = npmodel.EL_FUNCS.get(func.__name__)
        if impl is None:
            raise Unsupported("numpy.%s on element-level symbolic array" % func.__name__)
        return impl(*args, **kwargs)

    def argmin(self, axis=None, **kw):
        from . import npmodel
        return npmodel.el_argmin(self, axis=axis)

    def argsort(self, axis=-1, kind=None, **kw):
        from . import npmodel
        return npmodel.el_argsort(self, axis=axis)

    def cumsum(self, axis=None, **kw):
        from . import npmodel
        return npmodel.el_cumsum(self, axis=axis)

    def reshape(self, *shape, **kw):
        from . import npmodel
        if len(shape) == 1 and isinstance(shape[0], (tuple, list)):
            shape = tuple(shape[0])
        return npmodel.el_reshape(self, shape)

    # ---- reductions used as methods
    def sum(self, axis=None, **kw):
        from . import npmodel
        return npmodel.el_sum(self, axis=axis, **kw)

    def all(self, axis=None):
        from . import npmodel
        return npmodel.el_all(self, axis=axis)

    def any(self, axis=None):
        from . import npmodel
        return npmodel.el_any(self, axis=axis)


def _div(a, b):
    if a.sort() == z3.IntSort():
        a = z3.ToReal(a)
    if b.sort() == z3.IntSort():
        b = z3.ToReal(b)
    return a / b


def _value_fn(value, region_shape):
    """closure giving the broadcast value at region coordinates"""
    if isinstance(value, EArr):
        vs = value._shape
        vat = value._at           # snapshot at assignment time
        if value._writer is not None:
            # reading a view lazily would see our own write; snapshot through closure is fine
            pass
        off = len(region_shape) - len(vs)
        if off < 0:
            raise Unsupported("value has more dims than target region")
        ones = []
        for k, d in enumerate(vs):
            tgt = region_shape[off + k]
            eq = dims_equal(d, tgt)
            if eq is True or (eq is not False and eq):
                ones.append(False)          # same length (numpy copies elementwise)
            else:
                one = dims_equal(d, 1)
                if one is True or (one is not False and one):
                    ones.append(True)       # numpy broadcasts a length-1 axis silently
                else:
                    raise ValueError("could not broadcast input array into shape")

        def vfn(*r):
            idx = [z3.IntVal(0) if ones[k] else r[off + k] for k in range(len(vs))]
            return vat(*idx)
        return vfn
    if isinstance(value, numpy.ndarray) and value.ndim > 0:
        return _value_fn(EArr.from_concrete(value), region_shape)
    tv = _t(value.item() if isinstance(value, numpy.ndarray) else value)
    return lambda *r: tv


def as_earr(x):
    if isinstance(x, EArr):
        return x
    if isinstance(x, (sym.SymInt, sym.SymReal, sym.SymBool)):
        t = x.t
        dt = {z3.IntSort(): numpy.int64, z3.RealSort(): numpy.float64, z3.BoolSort(): bool}[t.sort()]
        return EArr((), lambda: t, dt)
    a = numpy.asarray(x)
    if a.ndim == 0:
        t = _t(a.item())
        return EArr((), lambda: t, a.dtype)
    return EArr.from_concrete(a)


def broadcast_shapes(shapes):
    nd = max(len(s) for s in shapes)
    out = []
    for k in range(nd):
        dim = 1
        for s in shapes:
            j = k - (nd - len(s))
            if j < 0:
                continue
            d = s[j]
            if isinstance(d, int) and d == 1:
                continue
            if isinstance(dim, int) and dim == 1:
                dim = d
            else:
                eq = dims_equal(dim, d)
                if eq is not True and not eq:
                    raise ValueError("operands could not be broadcast together")
        out.append(dim)
    return tuple(out)


def elementwise(f, operands, out_dtype=None):
    ops = [as_earr(o) for o in operands]
    shp = broadcast_shapes([o._shape for o in ops])
    nd = len(shp)
    ats = [o._at for o in ops]
    shapes = [o._shape for o in ops]

    def at(*i):
        vals = []
        for o_at, s in zip(ats, shapes):
            off = nd - len(s)
            idx = [z3.IntVal(0) if (isinstance(s[k], int) and s[k] == 1 and not (isinstance(shp[off + k], int) and shp[off + k] == 1)) else i[off + k]
                   for k in range(len(s))]
            vals.append(o_at(*idx))
        if len(vals) == 2:
            a, b = vals
            if a.sort() != b.sort() and z3.BoolSort() not in (a.sort(), b.sort()):
                if a.sort() == z3.IntSort():
                    a = z3.ToReal(a)
                if b.sort() == z3.IntSort():
                    b = z3.ToReal(b)
            vals = [a, b]
        return f(*vals)
    if out_dtype is None:
        out_dtype = numpy.result_type(*[o._dt for o in ops])
    if nd == 0:
        return wrap(at())
    return EArr(shp, at, out_dtype)
