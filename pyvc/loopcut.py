"""Mechanical extraction of a function from /repo's current source and loop
cutting (mode A2).

`load_function(target)` re-reads the file from the repository working tree on
every run, finds the function/method by name, and compiles it *unchanged except
for loops*: every `for`/`while` statement is rewritten to the classical
invariant-cut form, calling back into the engine:

    for T in IT: BODY          ==>   L = vc.loop(id, IT)
                                     if L.concrete:  for T in L.it: BODY
                                     else:
                                        L.init(locals())               # obligation: Inv at entry
                                        (m1..mk) = L.havoc(locals())   # arbitrary iteration state, Inv assumed
                                        if L.more():                   # fork: one more iteration / exit
                                            T = L.item()
                                            BODY    (break -> leaves the loop on this path)
                                            L.preserve(locals())       # obligation: Inv after the body; path ends
                                        # else: continue after the loop with Inv and the exit condition

What the extraction drops: docstrings and annotations (irrelevant to execution).
Everything else -- statements, expressions, calls -- is the repository's code
compiled by CPython.  Names `len`, `range`, `enumerate`, `zip`, `min`, `max`,
`abs`, `isinstance` resolve to symbolic-aware versions that defer to the
builtins for concrete arguments.
"""
import ast, os, hashlib, copy, builtins, textwrap
import numpy, z3
from . import REPO, sym
from .sym import SymInt, SymBool, SymReal, wrap, _t, cur, Unsupported, PathEnd
from .arr import EArr


# ---------------------------------------------------------------------------
# source access

_SRC_CACHE = {}


def read_source(relpath):
    path = os.path.join(REPO, relpath)
    with open(path, "rb") as f:
        data = f.read()
    return data.decode("utf-8")


def find_def(tree, qualname):
    parts = qualname.split(".")
    node = tree
    for p in parts:
        found = None
        for n in node.body:
            if isinstance(n, (ast.FunctionDef, ast.ClassDef)) and n.name == p:
                found = n   # last definition wins, as in python
        if found is None:
            raise KeyError("definition %s not found" % qualname)
        node = found
    return node


def strip_doc(fn):
    if fn.body and isinstance(fn.body[0], ast.Expr) and isinstance(getattr(fn.body[0], "value", None), ast.Constant) \
            and isinstance(fn.body[0].value.value, str):
        fn.body = fn.body[1:] or [ast.Pass()]
    return fn


def source_digest(relpath, qualname):
    """digest of the function's AST (docstring/comment/format insensitive)"""
    tree = ast.parse(read_source(relpath))
    node = copy.deepcopy(find_def(tree, qualname))
    if isinstance(node, ast.FunctionDef):
        strip_doc(node)
        node.returns = None
        for a in node.args.args + node.args.kwonlyargs:
            a.annotation = None
    return hashlib.sha256(ast.dump(node).encode()).hexdigest()[:16]


# ---------------------------------------------------------------------------
# AST transformation

_MUTATORS = {"append", "extend", "insert", "pop", "remove", "sort", "reverse", "clear", "shuffle"}


def _assigned_names(nodes, attrs=None):
    names, stores = [], []
    if attrs is None:
        attrs = []

    class V(ast.NodeVisitor):
        def visit_Name(self, n):
            if isinstance(n.ctx, (ast.Store, ast.Del)) and n.id not in names:
                names.append(n.id)

        def visit_Subscript(self, n):
            if isinstance(n.ctx, ast.Store):
                b = n.value
                while isinstance(b, (ast.Subscript, ast.Attribute)):
                    b = b.value
                if isinstance(b, ast.Name) and b.id not in stores:
                    stores.append(b.id)
            self.generic_visit(n)

        def visit_Call(self, n):
            f = n.func
            if isinstance(f, ast.Attribute) and f.attr in _MUTATORS:
                tgt = None
                if isinstance(f.value, ast.Name) and f.attr != "shuffle":
                    tgt = f.value.id
                elif f.attr == "shuffle" and n.args and isinstance(n.args[0], ast.Name):
                    tgt = n.args[0].id
                if tgt is not None:
                    if tgt not in stores:
                        stores.append(tgt)
                    if tgt not in names:
                        names.append(tgt)
            self.generic_visit(n)

        def visit_Attribute(self, n):
            if isinstance(n.ctx, ast.Store) and isinstance(n.value, ast.Name):
                if (n.value.id, n.attr) not in attrs:
                    attrs.append((n.value.id, n.attr))
            self.generic_visit(n)

        def visit_FunctionDef(self, n):
            if n.name not in names:
                names.append(n.name)

        def visit_Lambda(self, n):
            pass

        def visit_ListComp(self, n):
            for g in n.generators:
                self.visit(g.iter)
        visit_SetComp = visit_GeneratorExp = visit_DictComp = visit_ListComp
    v = V()
    for n in nodes:
        v.visit(n)
    return names, stores


class _BreakRewriter(ast.NodeTransformer):
    """inside a cut body: `break` -> set flag and leave the one-shot loop;
    `continue` -> leave the one-shot loop.  Nested loops are not entered."""

    def __init__(self, flag):
        self.flag = flag

    def visit_For(self, n):
        return n

    visit_While = visit_For
    visit_FunctionDef = visit_For

    def visit_Break(self, n):
        return [ast.Assign(targets=[ast.Name(self.flag, ast.Store())], value=ast.Constant(True)), ast.Break()]

    def visit_Continue(self, n):
        return ast.Break()


class LoopCutter(ast.NodeTransformer):
    def __init__(self, fname):
        self.fname = fname
        self.path = []
        self.counter = [0]
        self.loops = {}

    def _id(self):
        return ".".join(str(p) for p in self.path)

    def visit_FunctionDef(self, n):
        if self.path or getattr(self, "_entered", False):
            return n      # nested defs are left alone
        self._entered = True
        self.generic_visit(n)
        return n

    def visit_ListComp(self, n):
        """[ELT for T in IT]  ==>  _vc_listcomp(lambda T: ELT, IT): a python list when IT is concrete, a symbolic list
        (length + item closure) when IT has symbolic length.  Other comprehension forms are left alone."""
        self.generic_visit(n)
        if len(n.generators) == 1 and not n.generators[0].ifs and not n.generators[0].is_async \
                and isinstance(n.generators[0].target, ast.Name):
            g = n.generators[0]
            lam = ast.Lambda(args=ast.arguments(posonlyargs=[], args=[ast.arg(g.target.id)], kwonlyargs=[], kw_defaults=[], defaults=[]),
                             body=n.elt)
            return ast.Call(ast.Name("_vc_listcomp", ast.Load()), [lam, g.iter], [])
        return n

    def _cut(self, node, is_for):
        idx = self.counter[-1]
        self.counter[-1] += 1
        self.path.append(idx)
        self.counter.append(0)
        lid = self._id()
        # transform nested loops first
        node.body = [self.visit(s) for s in node.body]
        node.body = _flatten(node.body)
        self.counter.pop()
        self.path.pop()
        if node.orelse:
            raise Unsupported("loop else clause in %s loop %s" % (self.fname, lid))
        attrs = []
        names, stores = _assigned_names(node.body + ([node.target] if is_for else []), attrs)
        if is_for:
            tnames, _ = _assigned_names([node.target])
        else:
            tnames = []
        mod = [x for x in names if not x.startswith("_vc_")]
        self.loops[lid] = dict(line=node.lineno, kind="for" if is_for else "while", modified=mod, stores=stores,
                               attrs=attrs)
        L = "_vc_L" + lid.replace(".", "_")
        brk = "_vc_brk" + lid.replace(".", "_")
        src_lines = []
        # build with ast.parse of a template for readability
        tmpl = f"""
{L} = _vc_rt.loop({lid!r}, {'_vc_ITER' if is_for else 'None'}, {mod!r}, {stores!r}, {attrs!r})
if {L}.concrete:
    _vc_CONCRETE
else:
    {L}.init(locals())
    _vc_HAVOC
    {brk} = False
    if {L}.more({'None' if is_for else '_vc_COND'}):
        _vc_ITEM
        for _vc_once in (0,):
            _vc_BODY
        if not {brk}:
            {L}.preserve(locals())
"""
        t = ast.parse(textwrap.dedent(tmpl)).body
        assign, ifnode = t[0], t[1]
        if is_for:
            assign.value.args[1] = node.iter
            conc = ast.For(target=copy.deepcopy(node.target), iter=ast.Attribute(ast.Name(L, ast.Load()), "it", ast.Load()),
                           body=copy.deepcopy(node.body), orelse=[])
        else:
            conc = ast.While(test=copy.deepcopy(node.test), body=copy.deepcopy(node.body), orelse=[])
        # the concrete branch re-uses the (already nested-cut) body as is
        ifnode.body = [conc]
        els = ifnode.orelse
        # els: [init, HAVOC, brk=False, if more: ...]
        hv = []
        if mod:
            hv.append(ast.Assign(
                targets=[ast.Tuple([ast.Name(m, ast.Store()) for m in mod], ast.Store())],
                value=ast.Call(ast.Attribute(ast.Name(L, ast.Load()), "havoc", ast.Load()),
                               [ast.Call(ast.Name("locals", ast.Load()), [], [])], [])))
            # names that were unbound before the loop stay unbound
            hv.append(ast.parse(textwrap.dedent(f"""
for _vc_n in {L}.unbound:
    exec('del ' + _vc_n)
""")).body[0]) if False else None
        else:
            hv.append(ast.Expr(ast.Call(ast.Attribute(ast.Name(L, ast.Load()), "havoc", ast.Load()),
                                        [ast.Call(ast.Name("locals", ast.Load()), [], [])], [])))
        els[1:2] = hv
        ifmore = els[-1]
        if not is_for:
            ifmore.test.args[0] = ast.Lambda(
                args=ast.arguments(posonlyargs=[], args=[], kwonlyargs=[], kw_defaults=[], defaults=[]),
                body=copy.deepcopy(node.test))
        body = ifmore.body
        # body: [ITEM, for once: BODY, if not brk: preserve]
        if is_for:
            item = ast.Assign(targets=[copy.deepcopy(node.target)],
                              value=ast.Call(ast.Attribute(ast.Name(L, ast.Load()), "item", ast.Load()), [], []))
            body[0] = item
        else:
            body[0] = ast.Pass()
        once = body[1]
        once.body = [_BreakRewriter(brk).visit(copy.deepcopy(s)) for s in node.body]
        once.body = _flatten(once.body)
        out = [assign, ifnode]
        for o in out:
            ast.copy_location(o, node)
        return out

    def visit_For(self, node):
        return self._cut(node, True)

    def visit_While(self, node):
        return self._cut(node, False)


def _flatten(stmts):
    out = []
    for s in stmts:
        if isinstance(s, list):
            out.extend(_flatten(s))
        else:
            out.append(s)
    return out


# ---------------------------------------------------------------------------
# runtime

class SymRange:
    """range(start, stop, step) with symbolic bounds"""

    def __init__(self, start, stop, step):
        self.start, self.stop, self.step = start, stop, step

    def length(self):
        if isinstance(self.step, int):
            st = self.step
            s, e = _t(self.start), _t(self.stop)
            if st == 1:
                n = z3.If(e - s > 0, e - s, 0)
            elif st > 0:
                n = z3.If(e - s > 0, (e - s + (st - 1)) / st, 0)
            elif st < 0:
                n = z3.If(s - e > 0, (s - e + (-st - 1)) / (-st), 0)
            else:
                raise ValueError("range() arg 3 must not be zero")
            return wrap(z3.simplify(n))
        raise Unsupported("range with symbolic step")

    def item(self, k):
        return wrap(_t(self.start) + _t(k) * _t(self.step))


class SymEnumerate:
    def __init__(self, seq, start=0):
        self.seq = as_symseq(seq)
        self.start = start

    def length(self):
        return self.seq.length()

    def item(self, k):
        return (wrap(_t(k) + _t(self.start)), self.seq.item(k))


class SymZip:
    def __init__(self, seqs):
        self.seqs = [as_symseq(s) for s in seqs]

    def length(self):
        n = _t(self.seqs[0].length())
        for s in self.seqs[1:]:
            m = _t(s.length())
            n = z3.If(m < n, m, n)
        return wrap(z3.simplify(n))

    def item(self, k):
        return tuple(s.item(k) for s in self.seqs)


class SymArrSeq:
    def __init__(self, a):
        self.a = a

    def length(self):
        return self.a._shape[0]

    def item(self, k):
        a = self.a
        if a.ndim == 1:
            return wrap(a._at(_t(k)))
        sub = a._at
        kk = _t(k)
        return EArr(a._shape[1:], lambda *i: sub(kk, *i), a._dt)


class ConcSeq:
    def __init__(self, xs):
        self.xs = list(xs)

    def length(self):
        return len(self.xs)

    def item(self, k):
        raise Unsupported("symbolic position in concrete sequence")


def is_symbolic_iterable(it):
    if isinstance(it, (SymRange, SymEnumerate, SymZip)):
        return True
    if isinstance(it, EArr):
        return not isinstance(it._shape[0], int)
    return False


def as_symseq(it):
    if isinstance(it, (SymRange, SymEnumerate, SymZip, SymArrSeq)):
        return it
    if isinstance(it, EArr):
        return SymArrSeq(it)
    if isinstance(it, range):
        return SymRange(it.start, it.stop, it.step)
    raise Unsupported("cannot view %r as a symbolic sequence" % type(it))


def vc_range(*a):
    if any(isinstance(x, SymInt) for x in a):
        if len(a) == 1:
            return SymRange(0, a[0], 1)
        if len(a) == 2:
            return SymRange(a[0], a[1], 1)
        return SymRange(*a)
    return builtins.range(*[int(x) for x in a])


def vc_len(x):
    if isinstance(x, EArr) or hasattr(x, "vlen"):
        return x._shape[0]
    if isinstance(x, (SymRange, SymEnumerate, SymZip)):
        return x.length()
    return builtins.len(x)


def vc_enumerate(x, start=0):
    if is_symbolic_iterable(x):
        return SymEnumerate(x, start)
    return builtins.enumerate(x, start)


def vc_zip(*xs, **kw):
    if any(is_symbolic_iterable(x) for x in xs):
        return SymZip(xs)
    return builtins.zip(*xs, **kw)


def vc_min(*a, **k):
    if len(a) >= 2 and any(sym.is_sym(x) for x in a):
        r = a[0]
        for x in a[1:]:
            r = sym.ite(x < r, x, r)
        return r
    return builtins.min(*a, **k)


def vc_max(*a, **k):
    if len(a) >= 2 and any(sym.is_sym(x) for x in a):
        r = a[0]
        for x in a[1:]:
            r = sym.ite(x > r, x, r)
        return r
    return builtins.max(*a, **k)


def vc_isinstance(obj, cls):
    import numbers
    if cls is vc_str:
        cls = builtins.str
    elif isinstance(cls, tuple) and any(c is vc_str for c in cls):
        cls = tuple(builtins.str if c is vc_str else c for c in cls)
    if isinstance(obj, SymInt):
        tup = cls if isinstance(cls, tuple) else (cls,)
        return any(c in (int, numbers.Integral, numbers.Number, numbers.Real, numpy.integer, object) for c in tup)
    if isinstance(obj, SymReal):
        tup = cls if isinstance(cls, tuple) else (cls,)
        return any(c in (float, numbers.Real, numbers.Number, numpy.floating, object) for c in tup)
    if isinstance(obj, SymBool):
        tup = cls if isinstance(cls, tuple) else (cls,)
        return any(c in (bool, numpy.bool_, object) for c in tup)
    return builtins.isinstance(obj, cls)


def vc_int(x=0, *a):
    if isinstance(x, SymInt):
        return x
    return builtins.int(x, *a)


def vc_listcomp(fn, it):
    if is_symbolic_iterable(it):
        seq = as_symseq(it)

        def at(k):
            return _t(fn(seq.item(wrap(k))))
        probe = at(z3.Int("q_lc"))
        return SymList(seq.length(), at, probe.sort())
    return [fn(x) for x in it]


PYSTR = z3.DeclareSort("PyStr")
_LITS = {}
STRPAD = z3.Function("STRPAD", z3.IntSort(), z3.IntSort(), PYSTR)     # str(i).zfill(w); w = 0: str(i)
CAT = z3.Function("CAT", PYSTR, PYSTR, PYSTR)
STR_TRUST = ("python strings are an uninterpreted sort: literals are pairwise distinct constants, str(i).zfill(w) is injective "
             "in i (STRPAD), concatenation with a fixed prefix is injective in the suffix (CAT)")


def str_lit(v):
    if v not in _LITS:
        _LITS[v] = z3.Const("lit_%d_%s" % (len(_LITS), "".join(c if c.isalnum() else "_" for c in v)[:12]), PYSTR)
    return _LITS[v]


def str_axioms():
    a, b, w = z3.Ints("q_sa q_sb q_sw")
    x, y, pfx = z3.Consts("q_sx q_sy q_sp", PYSTR)
    ax = [z3.ForAll([a, b, w], z3.Implies(STRPAD(a, w) == STRPAD(b, w), a == b), patterns=[z3.MultiPattern(STRPAD(a, w), STRPAD(b, w))]),
          z3.ForAll([pfx, x, y], z3.Implies(CAT(pfx, x) == CAT(pfx, y), x == y), patterns=[z3.MultiPattern(CAT(pfx, x), CAT(pfx, y))])]
    if len(_LITS) > 1:
        ax.append(z3.Distinct(*_LITS.values()))
    return ax


class SymStr:
    """a python string built from symbolic integers: term of the uninterpreted sort PyStr"""

    def __init__(self, term, num=None):
        self._vc_term = term
        self._num = num          # (int term) when the string is str(i), so that zfill can form STRPAD(i, w)

    def zfill(self, w):
        if self._num is None:
            raise Unsupported("zfill of a symbolic string that is not str(<int>)")
        return SymStr(STRPAD(self._num, _t(w)))

    def __add__(self, o):
        return SymStr(CAT(self._vc_term, _t(o) if not isinstance(o, str) else str_lit(o)))

    def __radd__(self, o):
        return SymStr(CAT(str_lit(o) if isinstance(o, str) else _t(o), self._vc_term))


def vc_str(x="", *a):
    if isinstance(x, SymInt):
        return SymStr(STRPAD(x.t, z3.IntVal(0)), num=x.t)
    return builtins.str(x, *a)


import numbers as _numbers
_numbers.Integral.register(SymInt)
_numbers.Real.register(SymReal)


class patched_modules:
    """context manager: give repository modules (e.g. the check_* helpers) the
    symbolic-aware builtins"""

    def __init__(self, modnames, names=("isinstance", "len")):
        self.modnames, self.names = modnames, names

    def __enter__(self):
        import importlib, sys as _sys
        self.saved = []
        mods = []
        for mn in self.modnames:
            if mn.endswith("*"):
                mods += [m for k, m in list(_sys.modules.items()) if k.startswith(mn[:-1]) and m is not None]
            else:
                mods.append(importlib.import_module(mn))
        for m in mods:
            for n in self.names:
                had = n in vars(m)
                self.saved.append((m, n, had, vars(m).get(n)))
                setattr(m, n, OVERRIDES[n])
        return self

    def __exit__(self, *exc):
        for m, n, had, old in self.saved:
            if had:
                setattr(m, n, old)
            else:
                delattr(m, n)


OVERRIDES = dict(len=vc_len, range=vc_range, enumerate=vc_enumerate, zip=vc_zip, min=vc_min, max=vc_max,
                 isinstance=vc_isinstance, str=vc_str, _vc_listcomp=vc_listcomp)


EXTRACTED_LOCALS = {}
_PINNED = None


def _pinned_locals():
    global _PINNED
    if _PINNED is None:
        import json
        from . import VERIF
        try:
            _PINNED = json.load(open(os.path.join(VERIF, "expected", "locals.json")))
        except Exception:
            _PINNED = {}
    return _PINNED


def local_order(fn):
    """parameter names, then local names in the order of their first binding in the source"""
    out = []
    a = fn.args
    for x in a.posonlyargs + a.args + ([a.vararg] if a.vararg else []) + a.kwonlyargs + ([a.kwarg] if a.kwarg else []):
        out.append(x.arg)

    class V(ast.NodeVisitor):
        def visit_Name(self, n):
            if isinstance(n.ctx, ast.Store) and n.id not in out:
                out.append(n.id)

        def visit_FunctionDef(self, n):
            if n is not fn:
                if n.name not in out:
                    out.append(n.name)
                return
            self.generic_visit(n)

        def visit_Lambda(self, n):
            return

        def visit_ListComp(self, n):
            return
        visit_SetComp = visit_DictComp = visit_GeneratorExp = visit_ListComp
    V().visit(fn)
    return out


class _Aliased(dict):
    """a locals dict in which the pinned names of renamed locals resolve to their current values"""

    def __init__(self, d, alias):
        dict.__init__(self, d)
        for old, new in alias.items():
            if new in d and old not in d:
                dict.__setitem__(self, old, d[new])


class LoopRT:
    """runtime object of one dynamic loop instance"""

    def __init__(self, owner, lid, it, modified, stores, attrs=()):
        self.owner = owner
        self.lid = lid
        self.modified = modified
        self.stores = stores
        self.attrs = list(attrs)
        self.spec = owner.loop_specs.get(lid)
        self.sym = False
        if it is None:          # while loop
            self.sym = self.spec is not None
            self.concrete = not self.sym
            self.seq = None
        else:
            if is_symbolic_iterable(it):
                self.sym = True
                self.concrete = False
                self.seq = as_symseq(it)
            else:
                self.concrete = True
                self.it = it
        if self.sym:
            if self.spec is None:
                raise Unsupported("loop %s of %s has symbolic bounds but no invariant in the contract"
                                  % (lid, owner.name))
            owner.loops_cut.add(lid)
            self.N = self.seq.length() if self.seq is not None else None
            self.k = 0
            self.ghost = {}

    # state handed to invariants
    def _state(self, loc, phase="assume"):
        st = dict(loc)
        for m in self.modified:
            if isinstance(st.get(m), list):     # concrete python list at loop entry: same view as SymList
                st[m] = SymList.from_list(st[m])
        st = _Aliased(st, self.owner.alias)
        st["_phase"] = phase
        st["_k"] = self.k
        st["_N"] = self.N
        st["_seq"] = self.seq
        st["_pre"] = self.pre_state
        return st

    def init(self, loc):
        self.pre_state = _Aliased({k: v for k, v in loc.items() if not k.startswith("_vc_")}, self.owner.alias)
        self.pre_snap = {n: (v._at if isinstance(v, EArr) else None) for n, v in loc.items() if isinstance(v, EArr)}
        self.k = 0
        self._prove_all("init", self._state(loc, "init"))

    def _prove_all(self, what, st):
        """prove the invariant clauses in order; `hint:` clauses (intermediate
        assertions) are proved first and, once proved, assumed for the rest"""
        e = cur()
        for name, inv in self._invs(st):
            ok = e.prove("%s:loop%s:%s:%s" % (self.owner.name, self.lid, what, name), inv, kind="loop-" + what)
            if ok and name.startswith("hint:"):
                e.assume(inv)

    def _invs(self, st):
        res = self.spec(st)
        if isinstance(res, dict):
            return list(res.items())
        return [("inv", res)]

    def havoc(self, loc):
        e = cur()
        out = []
        # iteration counter
        if self.seq is not None:
            kk = z3.Int(e.fresh_name("k%s" % self.lid))
            e.assume(z3.And(kk >= 0, kk <= _t(self.N)))
            self.k = SymInt(kk)
        else:
            kk = z3.Int(e.fresh_name("k%s" % self.lid))
            e.assume(kk >= 0)
            self.k = SymInt(kk)
        # arrays mutated in place: fresh content, same shape
        for s in self.stores:
            v = loc.get(s)
            if isinstance(v, EArr):
                fresh = EArr.fresh("hv_" + s, v._shape, v._dt)
                if v._writer is not None:
                    raise Unsupported("loop mutates a view %s" % s)
                v._at = fresh._at
                v._fn = fresh._fn
            elif v is not None and s not in self.modified:
                raise Unsupported("loop stores into %s of type %s" % (s, type(v)))
            # python lists mutated by method calls are rebound to fresh symbolic lists (see _fresh_like)
        # attributes assigned in the body (obj.attr = ...), plus those the contract declares
        # as modified through calls (spec.extra_attrs)
        extra = list(getattr(self.spec, "extra_attrs", ()))
        for oname, attr in self.attrs + extra:
            o = loc.get(oname)
            if o is None:
                continue
            curv = getattr(o, attr, _UNBOUND)
            nv = self._fresh_like("%s.%s" % (oname, attr), curv)
            if nv is not _UNBOUND:
                setattr(o, attr, nv)
        hook = getattr(self.spec, "on_havoc", None)
        if hook:
            hook(_Aliased(loc, self.owner.alias), self)
        new = dict(loc)
        for m in self.modified:
            v = loc.get(m, _UNBOUND)
            nv = self._fresh_like(m, v)
            new[m] = nv
            out.append(nv)
        st = self._state(new)
        for name, inv in self._invs(st):
            if not name.startswith("hint:"):
                e.assume(inv)
        self._hv_state = _Aliased(new, self.owner.alias)
        if len(self.modified) == 0:
            return None
        return tuple(out)

    def _fresh_like(self, name, v):
        e = cur()
        if v is _UNBOUND:
            return _UNBOUND
        if isinstance(v, bool) or isinstance(v, SymBool):
            return SymBool(z3.Bool(e.fresh_name("hv_" + name)))
        if isinstance(v, (int, SymInt, numpy.integer)):
            return SymInt(z3.Int(e.fresh_name("hv_" + name)))
        if isinstance(v, (float, SymReal, numpy.floating)):
            return SymReal(z3.Real(e.fresh_name("hv_" + name)))
        if isinstance(v, EArr):
            if name in self.stores:
                return v       # already havoced in place
            shp = tuple(SymInt(z3.Int(e.fresh_name("hv_%s_d%d" % (name, d)))) for d in range(v.ndim))
            for d in shp:
                e.assume(d.t >= 0)
            return EArr.fresh("hv_" + name, shp, v._dt)
        if v is None:
            return None
        if isinstance(v, (list, SymList)):
            return SymList.fresh("hv_" + name, getattr(v, "_es", None))
        if isinstance(v, dict):
            return Token(e.fresh_name("hv_" + name))
        hook = self.owner.havoc_hooks.get(type(v))
        if hook:
            return hook(name, v)
        raise Unsupported("cannot havoc loop variable %s of type %s" % (name, type(v)))

    def more(self, cond=None):
        e = cur()
        if self.seq is not None:
            c = SymBool(_t(self.k) < _t(self.N))
            r = bool(c)
            return r
        c = cond()
        return bool(c)

    def item(self):
        return self.seq.item(self.k)

    def preserve(self, loc):
        self.k = wrap(_t(self.k) + 1)
        self._prove_all("preserve", self._state(loc, "preserve"))
        raise PathEnd()


class SymList:
    """a python list of integers (or reals) of symbolic length: length term + item closure; append mutates in place"""

    def __init__(self, n, at, esort=None):
        self._n = n
        self._at = at
        self._es = esort if esort is not None else z3.IntSort()

    @classmethod
    def fresh(cls, name, esort=None):
        e = cur()
        n = z3.Int(e.fresh_name(name + "_len"))
        e.assume(n >= 0)
        f = z3.Function(e.fresh_name(name), z3.IntSort(), esort if esort is not None else z3.IntSort())
        o = cls(SymInt(n), lambda k: f(k), esort)
        o._fn = f
        return o

    @classmethod
    def from_list(cls, lst):
        vals = [_t(v) for v in lst]
        es = vals[0].sort() if vals else z3.IntSort()

        def at(k):
            r = vals[-1] if vals else z3.IntVal(0)
            for i in range(len(vals) - 2, -1, -1):
                r = z3.If(k == i, vals[i], r)
            return r
        return cls(len(vals), at, es)

    def vlen(self):
        return self._n

    @property
    def _shape(self):
        return (self._n,)

    def at(self, k):
        return self._at(_t(k))

    def append(self, v):
        old, n, tv = self._at, _t(self._n), _t(v)
        self._at = lambda k: z3.If(k == n, tv, old(k))
        self._n = wrap(z3.simplify(n + 1))

    def __getitem__(self, i):
        if isinstance(i, int) and i < 0:
            return wrap(self._at(_t(self._n) + i))
        return wrap(self._at(_t(i)))

    def __len__(self):
        if isinstance(self._n, int):
            return self._n
        raise Unsupported("len() of a symbolic list in an unpatched namespace")

    def __iter__(self):
        raise Unsupported("python iteration over a symbolic list")


class Stub:
    """`self` stand-in for a method under contract: attributes set by the harness win; anything else is looked up on the
    real class (`_real`), so that helper methods, static methods and properties the method calls on `self` are the
    repository's own (a refactoring that extracts a helper onto the class is followed)"""
    _real = None

    def __getattr__(self, a):
        import inspect, types
        real = object.__getattribute__(self, "_real") if "_real" in type(self).__dict__ or "_real" in self.__dict__ else type(self)._real
        if real is None or (a.startswith("__") and a.endswith("__")):
            raise AttributeError(a)
        v = inspect.getattr_static(real, a)
        if isinstance(v, staticmethod):
            return v.__func__
        if isinstance(v, classmethod):
            return types.MethodType(v.__func__, real)
        if isinstance(v, property):
            return v.fget(self)
        if inspect.isfunction(v):
            return types.MethodType(v, self)
        return v


def stub_of(real, **attrs):
    """an instance of a fresh Stub subclass bound to the real class"""
    cls = type("StubOf" + getattr(real, "__name__", "X"), (Stub,), {"_real": real})
    o = cls()
    for k, v in attrs.items():
        setattr(o, k, v)
    return o


class Token(dict):
    """an opaque container (a dict, so the repository's check_is_dict passes)
    whose content is arbitrary; identity is what contracts talk about"""

    def __init__(self, name, origin=None):
        dict.__init__(self)
        self.name = name
        self.origin = origin

    def __repr__(self):
        return "<%s>" % self.name

    __hash__ = object.__hash__

    def __eq__(self, o):
        return self is o


class _Unbound:
    def __repr__(self):
        return "<unbound>"

    def _fail(self, *a, **k):
        raise NameError("use of a variable that is unbound at loop entry")
    __add__ = __sub__ = __getitem__ = __call__ = __lt__ = __bool__ = _fail


_UNBOUND = _Unbound()


class Extracted:
    """A function extracted from the repository and compiled with loop cuts."""

    def __init__(self, target, loop_specs=None, overrides=None, module_globals=None):
        self.target = target
        relpath, qual = target.split(":")
        self.relpath, self.qual = relpath, qual
        self.name = qual.split(".")[-1]
        self.loop_specs = loop_specs or {}
        self.loops_cut = set()
        self.havoc_hooks = {}
        src = read_source(relpath)
        tree = ast.parse(src)
        fn = copy.deepcopy(find_def(tree, qual))
        if not isinstance(fn, ast.FunctionDef):
            raise Unsupported("%s is not a function" % target)
        strip_doc(fn)
        fn.returns = None
        for a in fn.args.args + fn.args.kwonlyargs + fn.args.posonlyargs:
            a.annotation = None
        if fn.args.vararg:
            fn.args.vararg.annotation = None
        if fn.args.kwarg:
            fn.args.kwarg.annotation = None
        fn.decorator_list = []
        self.digest = source_digest(relpath, qual)
        # renamed locals: the contract speaks in the names of the pinned source; if the current function binds the same number of
        # locals in the same order of first binding, names that differ are aliases (pinned name -> current name)
        self.local_names = local_order(fn)
        EXTRACTED_LOCALS[target] = self.local_names
        pinned = _pinned_locals().get(target)
        self.alias = {}
        if pinned and pinned != self.local_names and len(pinned) == len(self.local_names):
            self.alias = {a: b for a, b in zip(pinned, self.local_names) if a != b}
            if set(self.alias) & set(self.local_names):       # a pinned name is still in use for something else: not a pure renaming
                self.alias = {}
        self.unalias = {b: a for a, b in self.alias.items()}
        cutter = LoopCutter(self.name)
        fn = cutter.visit(fn)
        self.loops = cutter.loops
        for info in self.loops.values():                       # contracts see the pinned names
            info["modified_current"] = list(info["modified"])
            info["modified"] = [self.unalias.get(m, m) for m in info["modified"]]
        mod = ast.Module(body=[fn], type_ignores=[])
        ast.fix_missing_locations(mod)
        self.transformed_src = ast.unparse(mod)
        code = compile(mod, os.path.join(REPO, relpath), "exec")
        if module_globals is None:
            module_globals = self._module_globals(relpath)
        g = dict(module_globals)
        g.update(OVERRIDES)
        if overrides:
            g.update(overrides)
        self._explicit_overrides = dict(overrides or {})
        g["_vc_rt"] = self
        self.globals = g
        exec(code, g)
        self.fn = g[fn.name]

    @staticmethod
    def _module_globals(relpath):
        import importlib
        modname = relpath[:-3].replace("/", ".")
        m = importlib.import_module(modname)
        return vars(m)

    def loop(self, lid, it, modified, stores, attrs=()):
        return LoopRT(self, lid, it, modified, stores, attrs)

    def __call__(self, *a, **k):
        # explicit overrides of names the module itself binds (imports, module-level helpers) are also visible to the module's
        # OTHER functions for the duration of the call: a helper that the function under contract calls sees the same stand-ins
        ov = getattr(self, "_explicit_overrides", None)
        if ov:
            import importlib
            try:
                mod = importlib.import_module(self.relpath[:-3].replace("/", "."))
            except Exception:
                mod = None
            if mod is not None:
                names = {n: v for n, v in ov.items() if n in mod.__dict__}
                if names:
                    with patched_globals(mod, **names):
                        return self.fn(*a, **k)
        return self.fn(*a, **k)


class patched_globals:
    """temporarily rebind names in a real module's namespace (so that helper functions of that module which the function under
    contract calls see the same stand-ins as the extracted function itself); restored on exit"""

    def __init__(self, module, **names):
        self.module, self.names, self.saved = module, names, {}

    def __enter__(self):
        for k, v in self.names.items():
            self.saved[k] = self.module.__dict__.get(k, _UNBOUND)
            self.module.__dict__[k] = v
        return self

    def __exit__(self, *exc):
        for k, v in self.saved.items():
            if v is _UNBOUND:
                self.module.__dict__.pop(k, None)
            else:
                self.module.__dict__[k] = v


def like(real_fn, impl):
    """a stand-in for `real_fn` that accepts exactly the calls the real function accepts (positional or keyword) and hands
    the arguments to `impl` by the REAL parameter names"""
    import inspect
    sig = inspect.signature(real_fn)

    def stand_in(*a, **k):
        b = sig.bind(*a, **k)
        b.apply_defaults()
        return impl(**b.arguments)
    stand_in.__name__ = getattr(real_fn, "__name__", "stand_in")
    return stand_in
