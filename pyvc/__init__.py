"""pyvc -- contract-based deductive verification of the real pybrops code.

See /verif/DESIGN.md.  The package never copies repository code: functions under
contract are re-read (AST) or executed (proxy execution) from the working tree
named by $PYBROPS_REPO (default /repo) on every run.
"""
import os, sys

REPO = os.environ.get("PYBROPS_REPO", "/repo")
VERIF = os.path.dirname(os.path.dirname(os.path.abspath(__file__)))


def install_shim():
    """numpy-2 compatibility shim (harness side, not in /repo) + sys.path."""
    import numpy
    if not hasattr(numpy, "float_"):
        numpy.float_ = numpy.float64
    if not hasattr(numpy, "in1d"):
        numpy.in1d = lambda a, b, **k: numpy.isin(a, b, **k).ravel()
    if REPO not in sys.path:
        sys.path.insert(0, REPO)
    # make sure an already imported pybrops comes from REPO
    import importlib
    pb = sys.modules.get("pybrops")
    if pb is not None and not os.path.abspath(pb.__file__).startswith(os.path.abspath(REPO)):
        raise RuntimeError("pybrops imported from %s, expected %s" % (pb.__file__, REPO))
