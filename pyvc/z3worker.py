"""One reseeded z3 attempt at a query, run as a separate process by `sym.solve`'s restart portfolio.

usage: python z3worker.py <file.smt2> <seed> <timeout_ms>
prints one line: `unsat`, `unknown <reason>` or `sat <json of the model's constants>`.

z3's search on nonlinear real queries is heavy tailed: the same satisfiability question is answered in 0.2 s under most random
seeds and not within 30 s under a few (and an in-process solver is not even reproducible from one process to the next).  A restart
with another seed changes only the search order, never the question asked.
"""
import sys, json


def main():
    fn, seed, timeout_ms = sys.argv[1], int(sys.argv[2]), int(sys.argv[3])
    import z3
    for k in ("smt.random_seed", "sat.random_seed", "nlsat.seed"):
        z3.set_param(k, seed)
    s = z3.Solver()
    s.set("timeout", timeout_ms)
    s.set("random_seed", seed)
    s.from_file(fn)
    r = s.check()
    if r == z3.unsat:
        print("unsat")
    elif r == z3.sat:
        m = s.model()
        try:
            model = {d.name(): str(m[d]) for d in m.decls() if d.arity() == 0}
        except Exception:
            model = {}
        print("sat " + json.dumps(model))
    else:
        print("unknown " + s.reason_unknown())


if __name__ == "__main__":
    main()
