"""Units, runner, verdicts, evidence.

A *unit* is one function (or one method x configuration family) under contract,
or one property-level lemma group, or one bounded ring check.  Each unit runs in
its own process (fork pool) and returns a picklable result record.
"""
import os, sys, json, time, hashlib, traceback, importlib, multiprocessing, random, glob, fnmatch

from . import REPO, VERIF, sym

UNITS = {}      # property id -> list of unit specs


class UnitSpec:
    def __init__(self, prop, name, fn, mode, targets, tiers, bounded, note, timeout_s):
        self.prop, self.name, self.fn, self.mode = prop, name, fn, mode
        self.targets, self.tiers, self.bounded, self.note = targets, tiers, bounded, note
        self.timeout_s = timeout_s


def unit(prop, name, mode, targets=(), tiers=("quick", "thorough"), bounded=False, note="", timeout_s=300):
    """decorator registering a unit.  mode: A1|A2|B|F|L|R (DESIGN §3.4);
    bounded=True means the unit is a bounded stand-in and is never counted as proved."""
    def deco(fn):
        UNITS.setdefault(prop, []).append(UnitSpec(prop, name, fn, mode, list(targets), tiers, bounded, note, timeout_s))
        return fn
    return deco


class Ctx:
    """handed to a unit function; collects everything the unit reports"""

    def __init__(self, spec, tier, seed):
        self.spec = spec
        self.tier = tier
        self.seed = seed
        self.rng = random.Random(seed * 1000003 + hash(spec.name) % 1000)
        self.obligations = []
        self.trusted = set()
        self.assumptions = set()
        self.failures = []          # concrete failing inputs (native), dicts
        self.evaluations = 0
        self.distinct = set()
        self.samples = []
        self.rule = ""
        self.paths = 0
        self.solver_s = 0.0
        self.functions = {}         # target -> digest
        self.notes = []
        self.exhaustive = None

    # -- symbolic
    def explorer(self, **kw):
        kw.setdefault("unit", self.spec.name)
        kw.setdefault("timeout_ms", 10000 if self.tier == "quick" else 30000)
        ex = sym.Explorer(**kw)
        ex._ctx = self
        return ex

    def absorb(self, ex):
        self.obligations.extend(ex.obligations)
        self.paths += len(ex.paths)
        self.solver_s += ex.solver_s

    def record(self, name, ok, kind="check", seconds=0.0, solver="native", detail=None, expect="proved"):
        rec = dict(name=name, unit=self.spec.name, kind=kind, path=0, status="proved" if ok else "refuted",
                   solver=solver, seconds=round(seconds, 4), expect=expect)
        if detail is not None:
            rec["detail"] = str(detail)[:2000]
        self.obligations.append(rec)
        return ok

    def prove(self, name, assumptions, goal, timeout_ms=None, kind="lemma", expect="proved"):
        """standalone obligation (no path context)"""
        t = timeout_ms or (10000 if self.tier == "quick" else 30000)
        status, solver, dt, extra = sym.solve(assumptions, goal, t, use_cvc5=(expect == "proved"))
        self.solver_s += dt
        rec = dict(name=name, unit=self.spec.name, kind=kind, path=0, status=status, solver=solver,
                   seconds=round(dt, 4), expect=expect)
        if status != "proved":
            rec["detail"] = str(extra)[:2000]
            rec["goal"] = str(goal)[:1500]
        self.obligations.append(rec)
        return status == "proved"

    # -- bookkeeping
    def trust(self, *texts):
        self.trusted.update(texts)

    def assume_note(self, *texts):
        self.assumptions.update(texts)

    def target(self, t):
        from .loopcut import source_digest
        rel, q = t.split(":")
        self.functions[t] = source_digest(rel, q)

    # -- bounded / native
    def case(self, key, nontrivial=True, sample=None):
        self.evaluations += 1
        if nontrivial:
            if len(self.distinct) < 2000000:
                self.distinct.add(key if isinstance(key, (str, int, tuple)) else repr(key))
        if sample is not None and len(self.samples) < 4:
            self.samples.append(sample)

    def fail_input(self, obligation, input, cls="", message=""):
        """a concrete failing input found natively on the real code"""
        rec = dict(obligation=obligation, input=input, cls=cls, message=str(message)[:1500])
        self.failures.append(rec)
        # handed to the parent process at once: a failing input found before the code under test takes the interpreter down
        # (a segmentation fault inside a native library) is not lost with the unit process
        if _STREAM.get("conn") is not None:
            try:
                _STREAM["conn"].send(("failure", rec))
            except Exception:
                pass


_STREAM = {"conn": None}


def _tree_files():
    out = []
    for root, dirs, files in os.walk(os.path.join(REPO, "pybrops")):
        dirs[:] = [d for d in dirs if d != "__pycache__"]
        for f in files:
            if f.endswith(".py"):
                out.append(os.path.join(root, f))
    return sorted(out)


def file_digest(path):
    try:
        with open(path, "rb") as f:
            return hashlib.sha256(f.read()).hexdigest()[:16]
    except OSError:
        return "missing"


class _FileTracker:
    """records which repository files had code executed (sys.monitoring, cheap)"""

    def __init__(self):
        self.files = set()
        self.on = False

    def start(self):
        try:
            mon = sys.monitoring
            self.tool = mon.PROFILER_ID
            mon.use_tool_id(self.tool, "pyvc-files")
            root = os.path.join(REPO, "pybrops")

            def cb(code, off):
                fn = code.co_filename
                # functions only (CO_NEWLOCALS): importing a module or building a class body is not "executing its code under
                # contract", and would make every unit depend on every file of the package
                if (code.co_flags & 0x2) and fn.startswith(root):
                    self.files.add(fn)
                return mon.DISABLE
            mon.register_callback(self.tool, mon.events.PY_START, cb)
            mon.set_events(self.tool, mon.events.PY_START)
            self.on = True
        except Exception:
            self.on = False

    def stop(self):
        if self.on:
            mon = sys.monitoring
            mon.set_events(self.tool, 0)
            mon.register_callback(self.tool, mon.events.PY_START, None)
            mon.free_tool_id(self.tool)
            self.on = False


def _run_unit(args):
    prop, idx, tier, seed = args
    spec = UNITS[prop][idx]
    ctx = Ctx(spec, tier, seed)
    t0 = time.time()
    tracker = _FileTracker()
    res = dict(unit=spec.name, mode=spec.mode, bounded=spec.bounded, note=spec.note, crashed=None)
    try:
        tracker.start()
        for t in spec.targets:
            ctx.target(t)
        spec.fn(ctx)
    except sym.Unsupported as e:
        res["unsupported"] = "%s" % (e,)
        res["crashed"] = None
        ctx.obligations.append(dict(name="%s:supported-subset" % spec.name, unit=spec.name, kind="unsupported", path=0,
                                    status="unknown", solver="front-end", seconds=0.0, expect="proved",
                                    detail="UNSUPPORTED %s\n%s" % (e, traceback.format_exc()[-1500:])))
    except Exception:
        res["crashed"] = traceback.format_exc()
    finally:
        tracker.stop()
    files = {os.path.relpath(f, REPO): file_digest(f) for f in sorted(tracker.files)}
    for t in spec.targets:
        rel = t.split(":")[0]
        files.setdefault(rel, file_digest(os.path.join(REPO, rel)))
    for rel in sorted(getattr(ctx, "extra_files", ())):     # files a unit read (AST) without executing them
        files.setdefault(rel, file_digest(os.path.join(REPO, rel)))
    res.update(obligations=ctx.obligations, trusted=sorted(ctx.trusted), assumptions=sorted(ctx.assumptions),
               failures=ctx.failures, evaluations=ctx.evaluations, distinct=len(ctx.distinct), samples=ctx.samples,
               rule=ctx.rule, paths=ctx.paths, solver_s=round(ctx.solver_s, 3), functions=ctx.functions,
               files=files, wall_s=round(time.time() - t0, 3), notes=ctx.notes, exhaustive=ctx.exhaustive)
    from . import npmodel, loopcut
    res["trusted"] = sorted(set(res["trusted"]) | set(npmodel.AXIOMS_USED))
    res["locals"] = dict(loopcut.EXTRACTED_LOCALS)
    return res


def load_property(prop):
    from . import install_shim
    install_shim()
    if VERIF not in sys.path:
        sys.path.insert(0, VERIF)
    importlib.import_module("contracts.%s" % prop)
    return UNITS.get(prop, [])


def _child(conn, args):
    """one unit in its own process: address-space limit (a runaway symbolic execution must not take the machine down)"""
    try:
        import resource
        gb = float(os.environ.get("PYVC_UNIT_MEM_GB", "14"))
        resource.setrlimit(resource.RLIMIT_AS, (int(gb * 2 ** 30), int(gb * 2 ** 30)))
    except Exception:
        pass
    try:
        import faulthandler
        faulthandler.enable()          # a crash of the interpreter leaves its python stack in the check's output
    except Exception:
        pass
    _STREAM["conn"] = conn
    try:
        res = _run_unit(args)
    except BaseException:
        prop, idx, tier, seed = args
        spec = UNITS[prop][idx]
        res = dict(unit=spec.name, mode=spec.mode, bounded=spec.bounded, note=spec.note, crashed=traceback.format_exc(),
                   obligations=[], trusted=[], assumptions=[], failures=[], evaluations=0, distinct=0, samples=[], rule="", paths=0,
                   solver_s=0.0, functions=[], files={}, wall_s=0.0, notes=[], exhaustive=False)
    try:
        conn.send(res)
    except Exception:
        pass
    conn.close()


def _killed_result(prop, idx, why, failures=None):
    spec = UNITS[prop][idx]
    files = {}
    for t in spec.targets:
        rel = t.split(":")[0]
        files.setdefault(rel, file_digest(os.path.join(REPO, rel)))
    return dict(unit=spec.name, mode=spec.mode, bounded=spec.bounded, note=spec.note, crashed=why, obligations=[], trusted=[],
                assumptions=[], failures=list(failures or []), evaluations=len(failures or []), distinct=len(failures or []), samples=[], rule="",
                paths=0, solver_s=0.0, functions=[], files=files, wall_s=0.0, notes=[], exhaustive=False, killed=True)


def _cpu_seconds(pid):
    """user + system CPU seconds of a process (all its threads, plus children it has waited for), or None"""
    try:
        f = open("/proc/%d/stat" % pid).read().rsplit(")", 1)[1].split()
        return sum(int(x) for x in f[11:15]) / float(os.sysconf("SC_CLK_TCK"))
    except Exception:
        return None


def _over_limit(pr, t0, lim):
    """a unit's time limit counts work, not waiting: past `lim` wall-clock seconds the unit is stopped once it has also used `lim`
    CPU seconds, or -- when it has not -- once the wall clock passes `lim` times the load factor of the machine (on an idle machine
    that is `lim` itself: a unit that hangs without using CPU is stopped at once; on a machine whose every core is taken several
    times over, a unit that is merely waiting for a core is not declared dead)"""
    wall = time.time() - t0
    if wall <= lim:
        return False
    cpu = _cpu_seconds(pr.pid)
    if cpu is None or cpu > lim:
        return True
    try:
        load = os.getloadavg()[0] / float(os.cpu_count() or 1)
    except OSError:
        load = 0.0
    return wall > lim * max(1.0, min(20.0, 1.5 * load))


def run_units(prop, tier, seed, only=None, jobs=None):
    specs = load_property(prop)
    todo = [(prop, i, tier, seed) for i, s in enumerate(specs)
            if tier in s.tiers and (only is None or any(s.name == o or fnmatch.fnmatch(s.name, o) for o in only))]
    if not todo:
        return []
    jobs = jobs or min(len(todo), int(os.environ.get("PYVC_JOBS", "16")))
    if os.environ.get("PYVC_INPROCESS") == "1":
        return [_run_unit(a) for a in todo]
    ctxm = multiprocessing.get_context("fork")
    results = {}
    early = {}            # unit index -> failing inputs received before the unit ended
    pending = list(todo)
    running = []          # (args, process, conn, t0, limit)
    scale = 1.0 if tier == "quick" else 10.0
    while pending or running:
        while pending and len(running) < jobs:
            a = pending.pop(0)
            pc, cc = ctxm.Pipe(duplex=False)
            pr = ctxm.Process(target=_child, args=(cc, a), daemon=True)
            pr.start()
            cc.close()
            running.append((a, pr, pc, time.time(), specs[a[1]].timeout_s * scale))
        time.sleep(0.05)
        still = []
        for a, pr, pc, t0, lim in running:
            done = False
            while not done and pc.poll():
                try:
                    msg = pc.recv()
                except EOFError:
                    pr.join(5)
                    results[a[1]] = _killed_result(a[0], a[1], "unit process died without a result (exit code %s: a negative value is a signal, "
                                                   "-11 a segmentation fault; otherwise the memory limit)" % pr.exitcode, early.get(a[1]))
                    done = True
                    break
                if isinstance(msg, tuple) and msg and msg[0] == "failure":
                    early.setdefault(a[1], []).append(msg[1])        # a failing input streamed before the end of the unit
                    continue
                results[a[1]] = msg
                pr.join(5)
                done = True
            if done:
                continue
            if not pr.is_alive():
                results[a[1]] = _killed_result(a[0], a[1], "unit process exited with code %s without a result (memory limit?)" % pr.exitcode,
                                               early.get(a[1]))
                continue
            if _over_limit(pr, t0, lim):
                pr.kill()
                pr.join(5)
                results[a[1]] = _killed_result(a[0], a[1], "unit exceeded its time limit of %d s and was stopped" % lim, early.get(a[1]))
                continue
            still.append((a, pr, pc, t0, lim))
        running = still
    return [results[a[1]] for a in todo]
