"""Symbolic scalars, path exploration by re-execution, obligations.

The real code is executed by CPython; symbolic values are proxies carrying z3
terms.  `bool()` of a symbolic condition forks the path (decided by the
Explorer, replayed deterministically).  Obligations are proved in the context of
the assumptions accumulated on the current path.
"""
import time, itertools, subprocess, tempfile, os, hashlib
import z3


class PathEnd(Exception):
    """Current path is complete (e.g. loop body cut after the preserve check)."""


class Infeasible(Exception):
    """Assumptions of the current path are contradictory."""


class ContractViolation(Exception):
    """raised by a contract harness itself when the code under contract visibly breaks the contract at run time (e.g. a search
    that does not stop within the bound its own termination argument gives); unlike other exceptions under proxy execution it
    is a failed obligation on changed source too"""


class Unsupported(Exception):
    """Construct outside the verifier's subset; never silently skipped."""


class Raised:
    def __init__(self, exc, tb=None):
        self.exc = exc
        self.tb = tb

    def __repr__(self):
        return "Raised(%s: %s)" % (type(self.exc).__name__, self.exc)


_EXPLORER = None


def cur():
    if _EXPLORER is None:
        raise RuntimeError("no active Explorer")
    return _EXPLORER


def active():
    return _EXPLORER is not None


CVC5_BIN = "/usr/bin/cvc5"


def _cvc5(s, timeout_ms):
    """(status or None, note): the query of solver s decided by the cvc5 binary"""
    smt = "(set-logic ALL)\n" + s.to_smt2()
    with tempfile.NamedTemporaryFile("w", suffix=".smt2", delete=False) as f:
        f.write(smt)
        fn = f.name
    try:
        out = subprocess.run([CVC5_BIN, "--tlimit=%d" % int(timeout_ms), fn], capture_output=True, text=True, timeout=timeout_ms / 1000 + 5)
        o = out.stdout.strip().splitlines()
        if o and o[0] == "unsat":
            return "proved"
        if o and o[0] == "sat":
            return "refuted"
        return None
    finally:
        os.unlink(fn)


def solve(assumptions, goal, timeout_ms, use_cvc5=True, cvc5_first=False):
    """Return (status, solver, seconds, model_or_reason).  status in
    proved / refuted / unknown.  Proves assumptions => goal."""
    t0 = time.time()
    timeout_ms = int(timeout_ms * float(os.environ.get("PYVC_TIMEOUT_SCALE", "1")))      # second attempt of a unit: larger budgets
    s = z3.Solver()
    s.set("timeout", int(timeout_ms))
    for a in assumptions:
        s.add(a)
    s.add(z3.Not(goal))
    if cvc5_first and use_cvc5 and os.path.exists(CVC5_BIN):
        # obligations marked [cvc5]: quantifier instantiation patterns on which cvc5 is quick and z3 runs into its budget
        try:
            st = _cvc5(s, timeout_ms)
            if st == "proved":
                return "proved", "cvc5", time.time() - t0, None
        except Exception:
            pass
    r = s.check()
    dt = time.time() - t0
    if r == z3.unsat:
        return "proved", "z3", dt, None
    if r == z3.sat:
        return "refuted", "z3", dt, s.model()
    reason = s.reason_unknown()
    if use_cvc5:
        st, who, extra = _portfolio(s, timeout_ms)
        if st is not None:
            return st, who, time.time() - t0, extra
        reason += extra
    return "unknown", "z3+cvc5", time.time() - t0, reason


Z3_RESTARTS = 4      # reseeded z3 attempts run next to cvc5 once the in-process attempt has said `unknown` (8 in a unit's second attempt)


def _portfolio(s, timeout_ms):
    """(status or None, solver, model / reason): the query of solver s put to cvc5 and to reseeded z3 processes side by side; the first
    definite answer is taken and the rest are stopped.  z3's run time on the nonlinear real queries of mode B is heavy tailed (the
    same query: 0.2 s under most seeds, `unknown` after 30 s under a few, and not reproducible between processes), so a restart
    under another seed is the remedy -- it changes the search order only, never the question.  No answer, a crash or a time-out
    of a helper process is never a verdict."""
    import sys, json
    smt = s.to_smt2()
    procs, files, note = [], [], ""
    try:
        with tempfile.NamedTemporaryFile("w", suffix=".smt2", delete=False) as f:
            f.write(smt)
            files.append(f.name)
        worker = os.path.join(os.path.dirname(os.path.abspath(__file__)), "z3worker.py")
        nseeds = Z3_RESTARTS * (2 if os.environ.get("PYVC_TIMEOUT_SCALE") else 1)
        for seed in range(1, nseeds + 1):
            try:
                procs.append(("z3/seed%d" % seed, time.time() + timeout_ms / 1000 + 10, subprocess.Popen(
                    [sys.executable, worker, files[0], str(seed), str(int(timeout_ms))],
                    stdout=subprocess.PIPE, stderr=subprocess.DEVNULL, text=True)))
            except Exception as e:
                note += " / z3 restart: %r" % (e,)
        if os.path.exists(CVC5_BIN):
            try:
                with tempfile.NamedTemporaryFile("w", suffix=".smt2", delete=False) as f:
                    f.write("(set-logic ALL)\n" + smt)
                    files.append(f.name)
                procs.append(("cvc5", time.time() + timeout_ms * 2 / 1000 + 5, subprocess.Popen(
                    [CVC5_BIN, "--tlimit=%d" % int(timeout_ms * 2), files[-1]],
                    stdout=subprocess.PIPE, stderr=subprocess.DEVNULL, text=True)))
            except Exception as e:  # cvc5 trouble is never a verdict
                note += " / cvc5: %r" % (e,)
        live = list(procs)
        while live:
            time.sleep(0.05)
            for item in list(live):
                who, deadline, p = item
                if p.poll() is None:
                    if time.time() > deadline:
                        p.kill()
                        live.remove(item)
                    continue
                live.remove(item)
                try:
                    o = (p.stdout.read() or "").strip().splitlines()
                except Exception:
                    o = []
                first = o[0] if o else ""
                if first == "unsat":
                    return "proved", who, None
                if first == "sat" or first.startswith("sat "):
                    if who == "cvc5":
                        return "refuted", who, "cvc5: sat"
                    try:
                        return "refuted", who, json.loads(first[4:])
                    except Exception:
                        return "refuted", who, "z3 restart: sat"
        return None, "", note
    finally:
        for _, _, p in procs:
            if p.poll() is None:
                p.kill()
            try:
                p.wait(timeout=5)
                p.stdout.close()
            except Exception:
                pass
        for fn in files:
            try:
                os.unlink(fn)
            except OSError:
                pass


_QCACHE = {}


def _has_quantifier(e):
    k = e.get_id()
    r = _QCACHE.get(k)
    if r is None:
        r = _hq(e, set())
        _QCACHE[k] = r
    return r


def _hq(e, seen):
    if z3.is_quantifier(e):
        return True
    i = e.get_id()
    if i in seen:
        return False
    seen.add(i)
    return any(_hq(c, seen) for c in e.children())


class Explorer:
    """Depth-first exploration of all feasible paths of a thunk."""

    def __init__(self, timeout_ms=10000, branch_timeout_ms=1500, max_paths=20000, unit=""):
        self.timeout_ms = timeout_ms
        self.branch_timeout_ms = branch_timeout_ms
        self.quant_branch_timeout_ms = 400
        self.max_paths = max_paths
        self.unit = unit
        self.obligations = []     # dicts
        self.paths = []           # (decisions, outcome)
        self.pruned = 0
        self.solver_s = 0.0
        self._reset_path([])

    # ---- per path state
    def _reset_path(self, prefix):
        self.prefix = list(prefix)
        self.decisions = []
        self.pos = 0
        self.assumptions = []
        self.fresh_ctr = itertools.count()
        self.pending = []
        self.trace = []           # ghost event trace (effects, draws)
        self.path_id = len(self.paths)
        self.notes = []
        self.memo = {}            # per-path caches of contract instances (e.g. numpy.repeat position maps)

    def fresh_name(self, base):
        return "%s!%d" % (base, next(self.fresh_ctr))

    def assume(self, e):
        if isinstance(e, SymBool):
            e = e.t
        if isinstance(e, bool):
            if not e:
                raise Infeasible()
            return
        self.assumptions.append(e)

    def _feasible(self, cond):
        """over-approximate feasibility of cond on the current path.  First the
        quantifier-free assumptions only (cheap, decides almost everything), then
        the full set with a short budget; `unknown` counts as feasible."""
        t0 = time.time()
        try:
            s = z3.Solver()
            s.set("timeout", self.branch_timeout_ms)
            quant = False
            for a in self.assumptions:
                if _has_quantifier(a):
                    quant = True
                else:
                    s.add(a)
            s.add(cond)
            r = s.check()
            if r == z3.unsat:
                return False
            if not quant:
                return True
            s2 = z3.Solver()
            s2.set("timeout", self.quant_branch_timeout_ms)
            for a in self.assumptions:
                s2.add(a)
            s2.add(cond)
            return s2.check() != z3.unsat
        finally:
            self.solver_s += time.time() - t0

    def branch(self, cond):
        """Decide a symbolic condition on the current path."""
        cond = z3.simplify(cond)
        if z3.is_true(cond):
            return True
        if z3.is_false(cond):
            return False
        if self.pos < len(self.prefix):
            d = self.prefix[self.pos]
            self.pos += 1
            self.decisions.append(d)
            self.assumptions.append(cond if d else z3.Not(cond))
            return d
        ft = self._feasible(cond)
        ff = self._feasible(z3.Not(cond))
        self.pos += 1
        if ft and ff:
            self.decisions.append(True)
            self.pending.append(self.decisions[:-1] + [False])
            self.assumptions.append(cond)
            return True
        self.pruned += 1
        if ft:
            self.decisions.append(True)
            self.assumptions.append(cond)
            return True
        if ff:
            self.decisions.append(False)
            self.assumptions.append(z3.Not(cond))
            return False
        raise Infeasible()

    def fork(self, label=""):
        """Non-deterministic boolean choice (both always explored)."""
        if self.pos < len(self.prefix):
            d = self.prefix[self.pos]
            self.pos += 1
            self.decisions.append(d)
            return d
        self.pos += 1
        self.decisions.append(True)
        self.pending.append(self.decisions[:-1] + [False])
        return True

    # ---- obligations
    def prove(self, name, goal, kind="post", timeout_ms=None, expect="proved", info=None):
        if isinstance(goal, SymBool):
            goal = goal.t
        literal_false = goal is False
        if isinstance(goal, bool):
            goal = z3.BoolVal(goal)
        if literal_false:
            # a python-level check failed: only an infeasible path could still discharge it -- short budget, z3 only
            status, solver, dt, extra = solve(self.assumptions, goal, min(2000, timeout_ms or self.timeout_ms), use_cvc5=False)
            if status != "proved":
                status, extra = "refuted", "python-level condition is False on this path"
        else:
            status, solver, dt, extra = solve(self.assumptions, goal, timeout_ms or self.timeout_ms,
                                              use_cvc5=(expect == "proved"), cvc5_first="[cvc5]" in name)
        self.solver_s += dt
        if expect == "fail" and status == "proved":
            # a discharged canary is only meaningful on a feasible path: if the path condition itself is
            # contradictory (a branch taken because infeasibility could not be decided in time) skip it
            chk = z3.Solver()
            chk.set("timeout", int(timeout_ms or self.timeout_ms))
            for a in self.assumptions:
                chk.add(a)
            if chk.check() == z3.unsat:
                raise Infeasible()
        rec = dict(name=name, unit=self.unit, kind=kind, path=self.path_id, status=status,
                   solver=solver, seconds=round(dt, 4), expect=expect)
        if status != "proved":
            rec["detail"] = str(extra)[:2000]
            rec["goal"] = str(goal)[:1500]
            if isinstance(extra, z3.ModelRef):
                try:
                    rec["model"] = {d.name(): str(extra[d]) for d in extra.decls() if d.arity() == 0}
                except Exception:
                    pass
            elif isinstance(extra, dict):     # the counter-model of a reseeded z3 process (already name -> value)
                rec["model"] = extra
        if info:
            rec["info"] = info
        self.obligations.append(rec)
        return status == "proved"

    # ---- driver
    def explore(self, thunk):
        global _EXPLORER
        stack = [[]]
        outcomes = []
        while stack:
            if len(self.paths) >= self.max_paths:
                raise Unsupported("path explosion (> %d paths) in %s" % (self.max_paths, self.unit))
            prefix = stack.pop()
            self._reset_path(prefix)
            prev = _EXPLORER
            _EXPLORER = self
            try:
                try:
                    out = thunk()
                except PathEnd:
                    out = PathEnd
                except Infeasible:
                    out = Infeasible
                except Unsupported:
                    raise
                except RecursionError:
                    raise
                except Exception as e:
                    import traceback
                    out = Raised(e, traceback.format_exc())
            finally:
                _EXPLORER = prev
            stack.extend(self.pending)
            self.paths.append((list(self.decisions), out))
            outcomes.append(out)
        return outcomes


class Inconclusive(Exception):
    """a concrete replay cannot decide (value within rounding distance, division by zero, non-ground term)"""


def _gval(e):
    """exact value of a ground arithmetic term: Fraction"""
    from fractions import Fraction
    e = z3.simplify(e)
    if z3.is_int_value(e):
        return Fraction(e.as_long())
    if z3.is_rational_value(e):
        return Fraction(e.numerator_as_long(), e.denominator_as_long())
    raise Inconclusive("not a ground number: %s" % str(e)[:80])


def ground_eval(e, tol=1e-9):
    """truth value of a ground formula; real equalities hold when both sides agree up to rounding (relative `tol`), an order
    comparison of values that close is Inconclusive"""
    from fractions import Fraction
    if isinstance(e, bool):
        return e
    if z3.is_true(e):
        return True
    if z3.is_false(e):
        return False
    k = e.decl().kind() if z3.is_app(e) else None
    ch = e.children() if z3.is_app(e) else []
    if k == z3.Z3_OP_AND:
        return all([ground_eval(c, tol) for c in ch])
    if k == z3.Z3_OP_OR:
        return any([ground_eval(c, tol) for c in ch])
    if k == z3.Z3_OP_NOT:
        return not ground_eval(ch[0], tol)
    if k == z3.Z3_OP_IMPLIES:
        return (not ground_eval(ch[0], tol)) or ground_eval(ch[1], tol)
    if k == z3.Z3_OP_ITE and e.sort() == z3.BoolSort():
        return ground_eval(ch[1] if ground_eval(ch[0], tol) else ch[2], tol)
    if k in (z3.Z3_OP_EQ, z3.Z3_OP_IFF) and ch[0].sort() == z3.BoolSort():
        return ground_eval(ch[0], tol) == ground_eval(ch[1], tol)
    if k in (z3.Z3_OP_EQ, z3.Z3_OP_DISTINCT, z3.Z3_OP_LE, z3.Z3_OP_LT, z3.Z3_OP_GE, z3.Z3_OP_GT) and len(ch) == 2 \
            and ch[0].sort() in (z3.IntSort(), z3.RealSort()):
        a, b = _gval(_ground_ite(ch[0], tol)), _gval(_ground_ite(ch[1], tol))
        exact = ch[0].sort() == z3.IntSort() and ch[1].sort() == z3.IntSort()
        close = (a == b) if exact else abs(a - b) <= Fraction(tol) * (1 + max(abs(a), abs(b)))
        if k == z3.Z3_OP_EQ:
            return close
        if k == z3.Z3_OP_DISTINCT:
            return not close
        if close and a != b:
            raise Inconclusive("order comparison of values within rounding distance")
        return {z3.Z3_OP_LE: a <= b, z3.Z3_OP_LT: a < b, z3.Z3_OP_GE: a >= b, z3.Z3_OP_GT: a > b}[k]
    s_ = z3.simplify(e)
    if z3.is_true(s_):
        return True
    if z3.is_false(s_):
        return False
    raise Inconclusive("cannot evaluate %s" % str(e)[:80])


def _ground_ite(e, tol):
    """resolve If(c, a, b) inside arithmetic by evaluating c with the tolerant comparison"""
    if not z3.is_app(e) or not e.children():
        return e
    if e.decl().kind() == z3.Z3_OP_ITE:
        c, a, b = e.children()
        return _ground_ite(a if ground_eval(c, tol) else b, tol)
    if e.decl().kind() in (z3.Z3_OP_DIV, z3.Z3_OP_IDIV, z3.Z3_OP_MOD) and _gval(_ground_ite(e.children()[1], tol)) == 0:
        raise Inconclusive("division by zero")
    ch = [_ground_ite(c, tol) for c in e.children()]
    return e.decl()(*ch)


class ConcreteExplorer(Explorer):
    """Replays ONE counter-model natively: every fresh symbol is the model's value as an ordinary python / numpy number, so the code
    under contract runs on real numpy arrays; obligations are evaluated, not proved (DESIGN 5.6)."""
    concrete = True

    def __init__(self, model, unit=""):
        Explorer.__init__(self, unit=unit)
        self.model = dict(model)
        self.results = {}
        self.inputs = {}
        self.assumption_broken = None

    def value(self, name, kind, lo=None, hi=None):
        from fractions import Fraction
        raw = self.model.get(name)
        if raw is None:
            v = Fraction(0)
            if lo is not None and v < lo:
                v = Fraction(lo)
            if hi is not None and v > hi:
                v = Fraction(hi)
        else:
            if raw in ("True", "False"):
                v = raw == "True"
            else:
                try:
                    v = Fraction(raw.replace(" ", ""))
                except ValueError:
                    raise Inconclusive("model value %r of %s is not rational" % (raw, name))
        out = bool(v) if kind == "b" else int(v) if kind == "i" else float(v)
        self.inputs[name] = out
        return out

    def assume(self, e):
        if isinstance(e, SymBool):
            e = e.t
        try:
            if not ground_eval(e):
                self.assumption_broken = str(e)[:200]
        except Inconclusive:
            pass

    def prove(self, name, goal, kind="post", timeout_ms=None, expect="proved", info=None):
        if isinstance(goal, SymBool):
            goal = goal.t
        try:
            self.results.setdefault(name, ground_eval(goal))
        except (Inconclusive, Unsupported) as x:
            self.results.setdefault(name, None)
        return True

    def run(self, thunk):
        global _EXPLORER
        prev = _EXPLORER
        _EXPLORER = self
        self._reset_path([])
        try:
            return thunk()
        finally:
            _EXPLORER = prev


class CInt(int):
    """a model value handed out by a concrete replay: an ordinary int that also answers `.t` like a symbolic scalar"""
    t = property(lambda self: z3.IntVal(int(self)))


class CFloat(float):
    t = property(lambda self: _t(float(self)))


def concrete():
    e = _EXPLORER
    return e if getattr(e, "concrete", False) else None


# ---------------------------------------------------------------------------
# scalars

def _t(x):
    """z3 term of a python/symbolic scalar."""
    if isinstance(x, (SymInt, SymReal, SymBool)):
        return x.t
    if isinstance(x, bool):
        return z3.BoolVal(x)
    if isinstance(x, int):
        return z3.IntVal(x)
    if isinstance(x, float):
        if x == float("inf"):
            return INF          # opaque constant: only stored and compared for equality (trusted use)
        if x == float("-inf"):
            return -INF
        if x != x:
            raise Unsupported("NaN constant in symbolic arithmetic")
        return z3.RealVal(_float_as_rational(x))
    if z3.is_expr(x):
        return x
    if hasattr(x, "_vc_term"):
        return x._vc_term
    try:
        import numpy
        if isinstance(x, numpy.bool_):
            return z3.BoolVal(bool(x))
        if isinstance(x, numpy.integer):
            return z3.IntVal(int(x))
        if isinstance(x, numpy.floating):
            return _t(float(x))
    except ImportError:
        pass
    raise Unsupported("cannot convert %r to a z3 term" % (type(x),))


INF = z3.Real("+inf")
_FRAC_CACHE = {}


def _float_as_rational(x):
    """floats are read as reals (DESIGN 3.2): a concrete float is read as the
    simplest rational that rounds to it (1.0/6 -> 1/6, 0.1 -> 1/10), which undoes
    the rounding of constants computed natively before they meet symbolic values"""
    r = _FRAC_CACHE.get(x)
    if r is None:
        from fractions import Fraction
        fx = Fraction(x)
        r = fx
        for bound in (10, 1000, 10 ** 6, 10 ** 9, 10 ** 12):
            c = fx.limit_denominator(bound)
            if float(c) == x:
                r = c
                break
        r = "%d/%d" % (r.numerator, r.denominator)
        _FRAC_CACHE[x] = r
    return r


def wrap(t):
    """Wrap a z3 term in the matching proxy (constants become python values)."""
    if not z3.is_expr(t):
        return t
    t = z3.simplify(t)
    if z3.is_int_value(t):
        return t.as_long()
    if z3.is_true(t):
        return True
    if z3.is_false(t):
        return False
    s = t.sort()
    if s == z3.IntSort():
        return SymInt(t)
    if s == z3.RealSort():
        return SymReal(t)
    if s == z3.BoolSort():
        return SymBool(t)
    return t


def is_sym(x):
    return isinstance(x, (SymInt, SymReal, SymBool))


class SymBool:
    __array_ufunc__ = None

    def __init__(self, t):
        self.t = t

    def __bool__(self):
        return cur().branch(self.t)

    def __and__(self, o):
        return wrap(z3.And(self.t, _t(o)))
    __rand__ = __and__

    def __or__(self, o):
        return wrap(z3.Or(self.t, _t(o)))
    __ror__ = __or__

    def __invert__(self):
        return wrap(z3.Not(self.t))

    def __eq__(self, o):
        return wrap(self.t == _t(o))

    def __ne__(self, o):
        return wrap(self.t != _t(o))

    __hash__ = None

    def __repr__(self):
        return "SymBool(%s)" % self.t


def _num(a, b):
    """coerce two operands to a common numeric sort"""
    ta, tb = _t(a), _t(b)
    if ta.sort() == z3.BoolSort():
        ta = z3.If(ta, 1, 0)
    if tb.sort() == z3.BoolSort():
        tb = z3.If(tb, 1, 0)
    if ta.sort() != tb.sort():
        if ta.sort() == z3.IntSort():
            ta = z3.ToReal(ta)
        if tb.sort() == z3.IntSort():
            tb = z3.ToReal(tb)
    return ta, tb


class _SymNum:
    __array_ufunc__ = None
    __hash__ = None

    def __init__(self, t):
        self.t = t

    def _bin(self, o, f, swap=False):
        if isinstance(o, float) and o in (float("inf"), float("-inf")):
            # a symbolic number is finite: comparisons with +-inf are decided, arithmetic is not modelled
            import operator
            probe = f(z3.RealVal(0), z3.RealVal(1)) if not swap else f(z3.RealVal(1), z3.RealVal(0))
            if z3.is_bool(probe):
                lo, hi = (z3.RealVal(0), z3.RealVal(1)) if o > 0 else (z3.RealVal(1), z3.RealVal(0))
                return bool(z3.is_true(z3.simplify(f(lo, hi) if not swap else f(hi, lo))))
            raise Unsupported("arithmetic with an infinite constant")
        try:
            a, b = _num(self, o)
        except Unsupported:
            return NotImplemented
        if swap:
            a, b = b, a
        return wrap(f(a, b))

    def __add__(self, o): return self._bin(o, lambda a, b: a + b)
    def __radd__(self, o): return self._bin(o, lambda a, b: a + b, True)
    def __sub__(self, o): return self._bin(o, lambda a, b: a - b)
    def __rsub__(self, o): return self._bin(o, lambda a, b: a - b, True)
    def __mul__(self, o): return self._bin(o, lambda a, b: a * b)
    def __rmul__(self, o): return self._bin(o, lambda a, b: a * b, True)
    def __neg__(self): return wrap(-self.t)
    def __pos__(self): return self
    def __lt__(self, o): return self._bin(o, lambda a, b: a < b)
    def __le__(self, o): return self._bin(o, lambda a, b: a <= b)
    def __gt__(self, o): return self._bin(o, lambda a, b: a > b)
    def __ge__(self, o): return self._bin(o, lambda a, b: a >= b)

    def __eq__(self, o):
        if o is None:
            return False
        return self._bin(o, lambda a, b: a == b)

    def __ne__(self, o):
        if o is None:
            return True
        return self._bin(o, lambda a, b: a != b)

    def __abs__(self):
        return wrap(z3.If(self.t >= 0, self.t, -self.t))

    def __bool__(self):
        return cur().branch(self.t != 0)


class SymInt(_SymNum):
    def __floordiv__(self, o):
        a, b = _num(self, o)
        if a.sort() != z3.IntSort():
            raise Unsupported("real floor division")
        # python floor division == z3 div for positive divisor
        return wrap(z3.If(b > 0, a / b, -((-a) / (-b)) if False else (a / b)))

    def __rfloordiv__(self, o):
        return SymInt(_t(o)).__floordiv__(self) if not isinstance(o, SymInt) else o.__floordiv__(self)

    def __mod__(self, o):
        a, b = _num(self, o)
        return wrap(a % b)

    def __rmod__(self, o):
        a, b = _num(o, self)
        return wrap(a % b)

    def __truediv__(self, o):
        a, b = _num(self, o)
        return wrap(z3.ToReal(a) / (z3.ToReal(b) if b.sort() == z3.IntSort() else b)
                    if a.sort() == z3.IntSort() else a / b)

    def __rtruediv__(self, o):
        a, b = _num(o, self)
        return wrap((z3.ToReal(a) if a.sort() == z3.IntSort() else a) / z3.ToReal(b)
                    if b.sort() == z3.IntSort() else a / b)

    def __index__(self):
        v = z3.simplify(self.t)
        if z3.is_int_value(v):
            return v.as_long()
        if not active():
            raise Unsupported("symbolic integer used where a concrete index is required: %s" % self.t)
        # concretise under the path condition: pick a model value and branch on it (forks over the
        # finitely many values the path allows; pruned at once when the value is determined)
        e = cur()
        for _ in range(64):
            s = z3.Solver()
            s.set("timeout", e.branch_timeout_ms)
            for a in e.assumptions:
                if not _has_quantifier(a):
                    s.add(a)
            if s.check() != z3.sat:
                raise Infeasible()
            val = s.model().eval(self.t, model_completion=True)
            if e.branch(self.t == val):
                return val.as_long()
        raise Unsupported("symbolic integer with too many possible values used as an index: %s" % self.t)

    __int__ = __index__

    def __repr__(self):
        return "SymInt(%s)" % self.t


class SymReal(_SymNum):
    def __truediv__(self, o):
        a, b = _num(self, o)
        return wrap(a / b)

    def __rtruediv__(self, o):
        a, b = _num(o, self)
        if a.sort() == z3.IntSort():
            a = z3.ToReal(a)
        return wrap(a / b)

    def __pow__(self, o):
        if isinstance(o, int) and o >= 0:
            r = z3.RealVal(1)
            for _ in range(o):
                r = r * self.t
            return wrap(r)
        raise Unsupported("symbolic power")

    def __float__(self):
        raise Unsupported("symbolic real used where a concrete float is required: %s" % self.t)

    def __repr__(self):
        return "SymReal(%s)" % self.t


def fresh_int(base, lo=None, hi=None):
    e = cur()
    if getattr(e, "concrete", False):
        return CInt(e.value(e.fresh_name(base), "i", lo, None if hi is None else hi - 1))
    v = z3.Int(e.fresh_name(base))
    if lo is not None:
        e.assume(v >= _t(lo))
    if hi is not None:
        e.assume(v < _t(hi))
    return SymInt(v)


def fresh_real(base):
    if getattr(cur(), "concrete", False):
        return CFloat(cur().value(cur().fresh_name(base), "f"))
    return SymReal(z3.Real(cur().fresh_name(base)))


def fresh_bool(base):
    if getattr(cur(), "concrete", False):
        return cur().value(cur().fresh_name(base), "b")
    return SymBool(z3.Bool(cur().fresh_name(base)))


def And(*xs):
    return z3.And(*[_t(x) for x in xs]) if xs else z3.BoolVal(True)


def Or(*xs):
    return z3.Or(*[_t(x) for x in xs]) if xs else z3.BoolVal(False)


def Implies(a, b):
    return z3.Implies(_t(a), _t(b))


def Not(a):
    return z3.Not(_t(a))


def ForAll(names, body_fn, sorts=None):
    """ForAll over fresh integer (default) bound variables."""
    if isinstance(names, str):
        names = names.split()
    vs = [z3.Const("q_" + n, (sorts or {}).get(n, z3.IntSort())) for n in names]
    body = body_fn(*[wrap_bound(v) for v in vs])
    return z3.ForAll(vs, _t(body))


def wrap_bound(v):
    if v.sort() == z3.IntSort():
        return SymInt(v)
    if v.sort() == z3.RealSort():
        return SymReal(v)
    return v


def ite(c, a, b):
    ta, tb = _num(a, b) if not (isinstance(a, SymBool) or isinstance(a, bool)) else (_t(a), _t(b))
    return wrap(z3.If(_t(c), ta, tb))
