"""Helpers for the native bounded rings (mode R): scripted generators, small
population builders.  Everything here runs the *real* pybrops code imported
from $PYBROPS_REPO under the numpy-2 shim."""
import itertools
import numpy


class ScriptedRandomState(numpy.random.RandomState):
    """A RandomState whose `uniform` returns a scripted pattern (so that the
    generator's outcome is an enumerated, reproducible input of the ring) and
    records every draw.  Other methods fall through to a seeded RandomState."""

    def __init__(self, pattern, seed=0):
        super().__init__(seed)
        self.pattern = numpy.asarray(pattern, dtype=float)
        self.log = []
        self.pos = 0

    def uniform(self, low=0.0, high=1.0, size=None):
        if size is None:
            n = 1
        else:
            n = int(numpy.prod(size))
        idx = (self.pos + numpy.arange(n)) % len(self.pattern)
        self.pos += n
        out = low + (high - low) * self.pattern[idx]
        out = out.reshape(size) if size is not None else float(out[0])
        self.log.append(("uniform", low, high, size))
        return out


def coded_founders(n, p, xoprob, chrgrp=None, group=True, phypos=None):
    """n founders, p markers; every chromosome copy carries its own int8 code
    (2*taxon + phase) at all loci, so that provenance of every progeny allele
    can be read off"""
    from pybrops.popgen.gmat.DensePhasedGenotypeMatrix import DensePhasedGenotypeMatrix
    assert 2 * n <= 127
    mat = numpy.empty((2, n, p), dtype="int8")
    for m in range(2):
        for t in range(n):
            mat[m, t, :] = 2 * t + m
    if chrgrp is None:
        chrgrp = numpy.ones(p, dtype="int64")
    pg = DensePhasedGenotypeMatrix(
        mat=mat,
        taxa=numpy.array(["P%03d" % i for i in range(n)], dtype=object),
        taxa_grp=numpy.arange(n, dtype="int64"),
        vrnt_chrgrp=numpy.asarray(chrgrp, dtype="int64"),
        vrnt_phypos=numpy.arange(1, p + 1, dtype="int64") * 10 if phypos is None else numpy.asarray(phypos, dtype="int64"),
        vrnt_name=numpy.array(["m%d" % i for i in range(p)], dtype=object),
        vrnt_genpos=numpy.linspace(0.0, 1.0, p) if p > 1 else numpy.zeros(p),
        vrnt_xoprob=numpy.asarray(xoprob, dtype=float),
        vrnt_hapgrp=numpy.arange(p, dtype="int64"),
        vrnt_mask=numpy.ones(p, dtype=bool),
    )
    if group:
        pg.group_vrnt()
    return pg


def snapshot(obj, names):
    out = {}
    for n in names:
        v = getattr(obj, n, None)
        out[n] = None if v is None else numpy.array(v, copy=True)
    return out


def same(a, b):
    if a is None or b is None:
        return a is None and b is None
    a, b = numpy.asarray(a), numpy.asarray(b)
    if a.shape != b.shape:
        return False
    if a.dtype.kind == "f" or b.dtype.kind == "f":
        return bool(numpy.array_equal(a, b, equal_nan=True))
    return bool(numpy.array_equal(a, b))


def tolist(x):
    if isinstance(x, numpy.ndarray):
        return x.tolist()
    if isinstance(x, (numpy.integer,)):
        return int(x)
    if isinstance(x, (numpy.floating,)):
        return float(x)
    if isinstance(x, (list, tuple)):
        return [tolist(y) for y in x]
    if isinstance(x, dict):
        return {k: tolist(v) for k, v in x.items()}
    return x
