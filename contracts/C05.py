"""C05 -- see DESIGN.md §8 C05."""
from pyvc.unit import unit
P = "C05"
REPLAYERS = {}
try:
    from contracts.rings import C05 as _ring
    REPLAYERS.update(getattr(_ring, "REPLAYERS", {}))
except ImportError:
    _ring = None

import ast, itertools
import numpy, z3
from pyvc import sym, barr, modeb, loopcut
from pyvc.sym import cur, _t

PROB = "pybrops/breed/prot/sel/prob/"
R = lambda x: (z3.ToReal(_t(x)) if _t(x).sort() == z3.IntSort() else _t(x))
# criteria whose latent vector is "minus the contribution-weighted mean of a per-candidate data matrix"
LINEAR = {
    "EstimatedBreedingValue": ("EstimatedBreedingValueSelectionProblem.py", ""),
    "GenomicEstimatedBreedingValue": ("GenomicEstimatedBreedingValueSelectionProblem.py", ""),
    "GeneralizedWeightedGenomicEstimatedBreedingValue": ("GeneralizedWeightedGenomicEstimatedBreedingValueSelectionProblem.py", ""),
    "ExpectedMaximumBreedingValue": ("ExpectedMaximumBreedingValueSelectionProblem.py", ""),
    "OptimalHaploidValue": ("OptimalHaploidValueSelectionProblem.py", ""),
    "Random": ("RandomSelectionProblem.py", ""),
    "UsefulnessCriterion": ("UsefulnessCriterionSelectionProblem.py", "Mate"),
}


def _data_attr(relpath, qual):
    node = loopcut.find_def(ast.parse(loopcut.read_source(relpath)), qual)
    attrs = [n.attr for n in ast.walk(node) if isinstance(n, ast.Attribute) and isinstance(n.value, ast.Name) and n.value.id == "self"]
    return attrs[0] if attrs else None


def _linear_family(ctx, fam):
    fname, mate = LINEAR[fam]
    rel = PROB + fname
    fns, attrs = {}, {}
    for enc in ("Subset", "Real", "Integer", "Binary"):
        cls = "%s%s%sSelectionProblem" % (fam, enc, mate)
        fns[enc] = loopcut.Extracted(rel + ":" + cls + ".latentfn")
        attrs[enc] = _data_attr(rel, cls + ".latentfn")

    def body(e, shape, tag):
        n, t = shape
        data = barr.fresh("d", (n, t), "float64")

        import importlib
        _mod = importlib.import_module(rel[:-3].replace("/", "."))

        def me(enc):
            o = loopcut.stub_of(getattr(_mod, "%s%s%sSelectionProblem" % (fam, enc, mate)))
            setattr(o, attrs[enc], data)
            setattr(o, attrs[enc].lstrip("_"), data)
            return o
        col = lambda wts: [sum((wts[i] * R(data[i, k]) for i in range(n)), z3.RealVal(0)) for k in range(t)]
        # subset encoding: every non-empty subset in two listings
        for ksz in range(1, n + 1):
            for S in itertools.combinations(range(n), ksz):
                spec = [-c / ksz for c in col([z3.RealVal(1 if i in S else 0) for i in range(n)])]
                for order in (S, tuple(reversed(S))):
                    out = fns["Subset"](me("Subset"), numpy.array(order))
                    e.prove("%s:subset%s==minus-mean-of-members" % (tag, list(order)), z3.And(*[R(out[k]) == spec[k] for k in range(t)]))
                b = numpy.array([1 if i in S else 0 for i in range(n)])
                for enc, vec in (("Binary", b), ("Integer", 3 * b), ("Real", b * 0.25)):
                    out = fns[enc](me(enc), vec)
                    e.prove("%s:%s-encoding-of-subset%s-agrees" % (tag, enc.lower(), list(S)), z3.And(*[R(out[k]) == spec[k] for k in range(t)]))
        # contribution encodings on symbolic vectors: definition and positive rescaling
        x = barr.fresh("x", (n,), "float64", 0, None)
        a = sym.fresh_real("a")
        tot = sum((R(x[i]) for i in range(n)), z3.RealVal(0))
        e.assume(z3.And(tot >= z3.RealVal("1/10000000000"), a.t > 0, a.t * tot >= z3.RealVal("1/10000000000")))
        spec = [-c / tot for c in col([R(x[i]) for i in range(n)])]
        out = fns["Real"](me("Real"), x)
        e.prove(tag + ":real==minus-contribution-weighted-mean", z3.And(*[R(out[k]) == spec[k] for k in range(t)]))
        out2 = fns["Real"](me("Real"), x * a)
        e.prove(tag + ":real-invariant-to-positive-rescaling", z3.And(*[R(out2[k]) == R(out[k]) for k in range(t)]))
        xi = barr.fresh("c", (n,), "int64", 0, None)
        toti = sum((R(xi[i]) for i in range(n)), z3.RealVal(0))
        e.assume(toti >= 1)
        outi = fns["Integer"](me("Integer"), xi)
        e.prove(tag + ":integer==minus-count-weighted-mean",
                z3.And(*[R(outi[k]) == -sum((R(xi[i]) * R(data[i, k]) for i in range(n)), z3.RealVal(0)) / toti for k in range(t)]))
        return "ok"
    modeb.run_shapes(ctx, fam, [(1, 1), (2, 2), (3, 1)], body)


def _reg_lin(fam):
    fname, mate = LINEAR[fam]
    @unit(P, "B[%s criterion: latent == definition in all four encodings, order/scale invariant]" % fam, "B", bounded=True,
          targets=[PROB + fname + ":%s%s%sSelectionProblem.latentfn" % (fam, enc, mate) for enc in ("Subset", "Real", "Integer", "Binary")],
          note="bounded(shape): n<=3 candidates, t<=2 traits; data and contribution vectors symbolic (sum >= 1e-10)")
    def u(ctx):
        _linear_family(ctx, fam)
    return u


for _f in LINEAR:
    _reg_lin(_f)


@unit(P, "A1[SelectionProblem.evalfn == declared weights x declared transformations of the latent vector]", "A1",
      targets=[PROB + "SelectionProblem.py:SelectionProblem.evalfn"])
def u_evalfn(ctx):
    f = loopcut.Extracted(PROB + "SelectionProblem.py:SelectionProblem.evalfn")
    log = []

    class V:
        def __init__(self, n): self.n = n
        def __rmul__(self, o): return ("mul", o, self)
        def __mul__(self, o): return ("mul", self, o)

    class Me:
        obj_wt, ineqcv_wt, eqcv_wt = V("obj_wt"), V("ineqcv_wt"), V("eqcv_wt")
        obj_trans_kwargs, ineqcv_trans_kwargs, eqcv_trans_kwargs = {"a": 1}, {"b": 2}, {"c": 3}

        def latentfn(self, x, *a, **k):
            log.append(("latentfn", x, a, k))
            return "LATENT"

        def _tr(nm):
            def g(self, x, latent, **kw):
                log.append((nm, x, latent, kw))
                return V(nm + "-out")
            return g
        obj_trans, ineqcv_trans, eqcv_trans = _tr("obj_trans"), _tr("ineqcv_trans"), _tr("eqcv_trans")
    me = Me()
    x = object()
    obj, ineq, eq = f(me, x, "extra", kw=1)
    ctx.record("evalfn: latent vector computed once from x with the caller's extra arguments",
               [l for l in log if l[0] == "latentfn"] == [("latentfn", x, ("extra",), {"kw": 1})], detail=str(log))
    for nm, out, wt, kw in (("obj", obj, Me.obj_wt, {"a": 1}), ("ineqcv", ineq, Me.ineqcv_wt, {"b": 2}), ("eqcv", eq, Me.eqcv_wt, {"c": 3})):
        tr = [l for l in log if l[0] == nm + "_trans"]
        ctx.record("evalfn: %s == %s_wt * %s_trans(x, latent, **%s_trans_kwargs)" % (nm, nm, nm, nm),
                   len(tr) == 1 and tr[0][1] is x and tr[0][2] == "LATENT" and tr[0][3] == kw and isinstance(out, tuple) and out[0] == "mul"
                   and out[1] is wt and isinstance(out[2], V) and out[2].n == nm + "_trans-out", detail=str((tr, out)))


# the usefulness-criterion data of factory-built problems: the same unit as C12's (registered for this property too)
from contracts import C12 as _c12
unit(P, _c12.UC_UNIT["name"], _c12.UC_UNIT["mode"], bounded=True, targets=_c12.UC_UNIT["targets"], note=_c12.UC_UNIT["note"])(_c12.u_b_uc)


# ---------------------------------------------------------------------------------------------------
# criteria built on a Cholesky-type factor C: the latent value is the 2-norm of C . contributions (mean genomic
# relationship; optimal contribution = that norm followed by minus the mean breeding values; L2 genomic distance per trait)
from pyvc import lemma
NORMFAM = {
    "MeanGenomicRelationship": ("MeanGenomicRelationshipSelectionProblem.py", "mgr"),
    "OptimalContribution": ("OptimalContributionSelectionProblem.py", "ocs"),
    "L2NormGenomic": ("L2NormGenomicSelectionProblem.py", "l2"),
}


def _norm_family(ctx, fam):
    import importlib
    fname, kind = NORMFAM[fam]
    rel = PROB + fname
    mod = importlib.import_module((PROB + fname)[:-3].replace("/", "."))
    fns = {enc: loopcut.Extracted(rel + ":%s%sSelectionProblem.latentfn" % (fam, enc)) for enc in ("Subset", "Real", "Integer", "Binary")}
    ctx.trust(*lemma.TRUST)

    def body(e, shape, tag):
        n, r, t = shape                       # candidates, rows of the factor, traits
        C = barr.fresh("C", (t, r, n) if kind == "l2" else (r, n), "float64")
        ebv = barr.fresh("b", (n, t), "float64")

        def me(enc):
            o = loopcut.stub_of(getattr(mod, "%s%sSelectionProblem" % (fam, enc)))
            for a_ in ("C", "_C"):
                setattr(o, a_, C)
            for a_ in ("ebv", "_ebv"):
                setattr(o, a_, ebv)
            return o

        def spec_ok(out, w, tot):
            """out against the definition for contributions w/tot: squared norms (and minus weighted means for OCS)"""
            cl = []
            blocks = range(t) if kind == "l2" else [None]
            for bi, tt in enumerate(blocks):
                sq = z3.RealVal(0)
                for rr in range(r):
                    v = sum(((R(C[tt, rr, i]) if kind == "l2" else R(C[rr, i])) * w[i] for i in range(n)), z3.RealVal(0)) / tot
                    sq = sq + v * v
                cl += [R(out[bi]) >= 0, R(out[bi]) * R(out[bi]) == sq]
            if kind == "ocs":
                for k in range(t):
                    cl.append(R(out[1 + k]) == -sum((w[i] * R(ebv[i, k]) for i in range(n)), z3.RealVal(0)) / tot)
            return z3.And(*cl)
        nout = t if kind == "l2" else (1 + t if kind == "ocs" else 1)
        for ksz in range(1, n + 1):
            for S in itertools.combinations(range(n), ksz):
                w = [z3.RealVal(1 if i in S else 0) for i in range(n)]
                for order in (S, tuple(reversed(S))):
                    out = fns["Subset"](me("Subset"), numpy.array(order))
                    e.prove("%s:subset%s==definition" % (tag, list(order)), z3.And(len(out) == nout, spec_ok(out, w, z3.RealVal(ksz))))
                b = numpy.array([1 if i in S else 0 for i in range(n)])
                for enc, vec in (("Binary", b), ("Integer", 3 * b), ("Real", b * 0.25)):
                    out = fns[enc](me(enc), vec)
                    e.prove("%s:%s-encoding-of-subset%s-agrees" % (tag, enc.lower(), list(S)), spec_ok(out, w, z3.RealVal(ksz)))
        if r > 1 and n > 1:
            return "ok"       # symbolic contributions with several factor rows: sums of squares of rational functions stay `unknown`
        x = barr.fresh("x", (n,), "float64", 0, None)
        a = sym.fresh_real("a")
        tot = sum((R(x[i]) for i in range(n)), z3.RealVal(0))
        e.assume(z3.And(tot >= z3.RealVal("1/10000000000"), a.t > 0, a.t * tot >= z3.RealVal("1/10000000000")))
        out = fns["Real"](me("Real"), x)
        e.prove(tag + ":real==definition-on-symbolic-contributions", spec_ok(out, [R(x[i]) for i in range(n)], tot))
        out2 = fns["Real"](me("Real"), x * a)
        e.prove(tag + ":real-invariant-to-positive-rescaling", spec_ok(out2, [R(x[i]) for i in range(n)], tot))
        return "ok"
    modeb.run_shapes(ctx, fam, [(1, 1, 1), (2, 2, 1), (3, 1, 1)] + ([(2, 2, 2), (3, 2, 1)] if ctx.tier == "thorough" else []), body, timeout_ms=20000)


def _reg_norm(fam):
    fname, kind = NORMFAM[fam]

    @unit(P, "B[%s criterion: latent == 2-norm of factor x contributions (and mean values) in all four encodings, order/scale invariant]" % fam,
          "B", bounded=True, targets=[PROB + fname + ":%s%sSelectionProblem.latentfn" % (fam, enc) for enc in ("Subset", "Real", "Integer", "Binary")],
          note="bounded(shape): n<=3 candidates, <=2 factor rows, <=2 traits; factor, breeding values and contributions symbolic (sum >= 1e-10); "
               "the norm is stated through its square (sqrt by its defining law)")
    def u(ctx):
        _norm_family(ctx, fam)
    return u


for _f in NORMFAM:
    _reg_norm(_f)


# ---------------------------------------------------------------------------
# what the optimisers see: SelectionProblem._evaluate labels the three parts of evalfn as F (objectives), G (inequality constraint
# violations) and H (equality constraint violations) and leaves out exactly the empty ones -- whichever of them are empty
SPF = "pybrops/breed/prot/sel/prob/SelectionProblem.py"


@unit(P, "B[SelectionProblem._evaluate: F/G/H are the objective / inequality / equality parts of evalfn, empty parts left out, vector and matrix input]",
      "B", bounded=True, targets=[SPF + ":SelectionProblem._evaluate"],
      note="bounded(shape): 1-2 objectives x 0-2 inequality x 0-2 equality constraints, one vector or a matrix of 1-3 candidates; the values "
           "evalfn returns are symbolic reals")
def u_b_evaluate(ctx):
    f = loopcut.Extracted(SPF + ":SelectionProblem._evaluate")

    def body(e, shape, tag):
        from pybrops.breed.prot.sel.prob.SelectionProblem import SelectionProblem as _Real
        nobj, nineq, neq, nsoln = shape
        ndecn = 2
        rows = 1 if nsoln == 0 else nsoln
        X = numpy.arange(rows * ndecn, dtype=float).reshape(rows, ndecn)
        parts = {}
        calls = []

        def evalfn(x, *a, **kw):
            i = len(calls)
            calls.append(x)
            parts[i] = (barr.fresh("f%d" % i, (nobj,), "float64"), barr.fresh("g%d" % i, (nineq,), "float64"), barr.fresh("h%d" % i, (neq,), "float64"))
            return parts[i]
        me = loopcut.stub_of(_Real)
        me.evalfn = evalfn
        out = {}
        f(me, X[0] if nsoln == 0 else X, out)
        e.prove(tag + ":one-evaluation-per-candidate-in-order", len(calls) == rows and all(numpy.array_equal(c, X[i]) for i, c in enumerate(calls)))
        want = {"F": (0, nobj), "G": (1, nineq), "H": (2, neq)}
        e.prove(tag + ":keys-are-exactly-the-non-empty-parts", set(out) == {k for k, (_, n) in want.items() if n > 0})
        for key, (ix, n) in want.items():
            if n == 0 or key not in out or len(calls) != rows:
                continue
            got = out[key]
            exp_shape = (n,) if nsoln == 0 else (rows, n)
            if tuple(got.shape) != exp_shape:
                e.prove(tag + ":%s:shape" % key, False)
                continue
            cs = []
            for r in range(rows):
                for c in range(n):
                    g = got[c] if nsoln == 0 else got[r, c]
                    cs.append(_t(g) == _t(parts[r][ix][c]))
            e.prove(tag + ":%s is the %s part of evalfn, row by row" % (key, ("objective", "inequality", "equality")[ix]), z3.And(*cs))
        return "ok"
    shapes = [(1, 0, 0, 0), (1, 0, 1, 0), (2, 1, 0, 0), (1, 2, 1, 0), (1, 0, 2, 2), (2, 1, 1, 3), (1, 0, 0, 1), (2, 2, 0, 2)]
    modeb.run_shapes(ctx, "evaluate", shapes, body)
