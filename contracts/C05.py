"""C05 -- see DESIGN.md §8 C05."""
from pyvc.unit import unit
P = "C05"
REPLAYERS = {}
try:
    from contracts.rings import C05 as _ring
    REPLAYERS.update(getattr(_ring, "REPLAYERS", {}))
except ImportError:
    _ring = None
