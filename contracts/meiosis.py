"""Contract of the meiosis kernel (shared by C01, C02, C10).

    gamete = mat_meiosis(geno, sel, xoprob, rng)

pre  : geno (m>=2, t, p) ; sel (n,) with 0 <= sel[r] < t ; xoprob (p,)
ghost: rnd = the single rng.uniform(0, 1, (n, p)) draw (universally quantified, 0 <= rnd < 1)
       hit(r, j) := rnd[r, j] < xoprob[j]
       ph(r, -1) = 0 ;  ph(r, j) = 1 - ph(r, j-1) if hit(r, j) else ph(r, j-1)
post : gamete.shape == (n, p)  and  for all r, j:  gamete[r, j] == geno[ph(r, j), sel[r], j]
       (a left-to-right mosaic of the two copies of parent sel[r] only; the copy changes
        between j-1 and j iff rnd[r, j] < xoprob[j], which forces xoprob[j] > 0)
frame: geno, sel, xoprob are not assigned; randomness is drawn only from `rng`, by exactly
       one uniform(0, 1, (n, p)) call.
"""
import numpy, z3
from pyvc import sym, npmodel, loopcut
from pyvc.sym import cur, _t, fresh_int
from pyvc.arr import EArr

TRUST = [
    "numpy.random Generator/RandomState.uniform(0,1,shape): array of that shape with 0 <= r < 1 (values universally quantified)",
    "numpy basic slicing/assignment semantics incl. silent clipping of slice bounds and length-1 broadcast",
]


class SymRng:
    """proxy generator: every draw is a fresh universally quantified array;
    draws are logged (entropy frame)"""

    def __init__(self, on_draw=None, name="rng"):
        self.log = []
        self.on_draw = on_draw
        self.name = name

    def uniform(self, low=0.0, high=1.0, size=None):        # numpy's parameter names (callers may use keywords)
        lo, hi = low, high
        shape = tuple(size) if isinstance(size, (tuple, list)) else (size,)
        a = EArr.fresh("rnd", shape, numpy.float64)
        qs = [z3.Int("q_u%d" % d) for d in range(len(shape))]
        cur().assume(z3.ForAll(qs, z3.And(a._fn(*qs) >= _t(lo), a._fn(*qs) < _t(hi))))
        self.log.append(("uniform", lo, hi, shape, a))
        if self.on_draw:
            self.on_draw(a)
        return a

    def __getattr__(self, name):
        raise sym.Unsupported("generator method %s is not modelled: unexpected entropy use" % name)


def define_ph(e, rnd, xoprob, prove_lemma=True, tag=""):
    """ghost ph for one draw + the segment lemma SEG proved by induction on j"""
    ph = z3.Function(e.fresh_name("ph"), z3.IntSort(), z3.IntSort(), z3.IntSort())
    r, j, a, tt = z3.Ints("q_r q_j q_a q_t")
    xat = xoprob._at
    rat = rnd._at
    hit = lambda r_, t_: rat(r_, t_) < xat(t_)
    e.assume(z3.ForAll([r], ph(r, -1) == 0))
    e.assume(z3.ForAll([r, j], z3.Implies(j >= 0, ph(r, j) == z3.If(hit(r, j), 1 - ph(r, j - 1), ph(r, j - 1))),
                       patterns=[ph(r, j)]))
    P = lambda rr, aa, jj: z3.Implies(
        z3.And(-1 <= aa, aa <= jj, z3.ForAll([tt], z3.Implies(z3.And(aa < tt, tt <= jj), z3.Not(hit(rr, tt))))),
        ph(rr, jj) == ph(rr, aa))
    if prove_lemma:
        r0, a0, j0 = (z3.Int(e.fresh_name(x)) for x in "raj")
        e.prove("lemma:SEG%s:base" % tag, P(r0, a0, a0), kind="lemma")
        saved = list(e.assumptions)
        e.assume(a0 <= j0)
        e.assume(P(r0, a0, j0))
        e.prove("lemma:SEG%s:step" % tag, P(r0, a0, j0 + 1), kind="lemma")
        e.assumptions[:] = saved
    e.assume(z3.ForAll([r, a, j], P(r, a, j), patterns=[z3.MultiPattern(ph(r, j), ph(r, a))]))
    # lemma BIN: ph takes only the values 0 and 1 (induction on j from j = -1)
    B = lambda rr, jj: z3.Or(ph(rr, jj) == 0, ph(rr, jj) == 1)
    if prove_lemma:
        r0, j0 = (z3.Int(e.fresh_name(x)) for x in "rj")
        e.prove("lemma:BIN%s:base" % tag, B(r0, -1), kind="lemma")
        saved = list(e.assumptions)
        e.assume(j0 >= -1)
        e.assume(B(r0, j0))
        e.prove("lemma:BIN%s:step" % tag, B(r0, j0 + 1), kind="lemma")
        e.assumptions[:] = saved
    e.assume(z3.ForAll([r, j], z3.Implies(j >= -1, B(r, j)), patterns=[ph(r, j)]))
    return ph, hit


def loop_specs(GH):
    def inv_outer(st, k):
        g, geno, sel, xoprob = st["gamete"], st["geno"], st["sel"], st["xoprob"]
        PH = GH["ph"]
        r, j = z3.Ints("q_r q_j")
        p = _t(xoprob.shape[0])
        return z3.ForAll([r, j], z3.Implies(z3.And(0 <= r, r < _t(k), 0 <= j, j < p),
                                            g.at(r, j) == geno.at(PH(r, j), sel.at(r), j)))

    def outer(st):
        d = {}
        if st["_phase"] == "preserve":
            PH = GH["ph"]
            j = z3.Int("q_j")
            p = _t(st["xoprob"].shape[0])
            i, s = _t(st["i"]), _t(st["s"])
            g, geno = st["gamete"], st["geno"]
            d["hint:tail"] = z3.ForAll([j], z3.Implies(z3.And(_t(st["stix"]) <= j, j < p), PH(i, j) == _t(st["phase"])))
            d["hint:row"] = z3.ForAll([j], z3.Implies(z3.And(0 <= j, j < p), g.at(i, j) == geno.at(PH(i, j), s, j)))
        d["rows_done"] = inv_outer(st, st["_k"])
        return d

    def inner(st):
        PH = GH["ph"]
        g, geno, xoix = st["gamete"], st["geno"], st["xoix"]
        ti, ts, tst, tph, tk = (_t(st[x]) for x in ("i", "s", "stix", "phase", "_k"))
        p = _t(st["xoprob"].shape[0])
        j = z3.Int("q_j")
        d = {}
        d["stix"] = z3.And(z3.Implies(tk == 0, tst == 0), z3.Implies(tk > 0, tst == xoix.at(tk - 1)), 0 <= tst, tst <= p)
        d["phase"] = z3.And(z3.Or(tph == 0, tph == 1),
                            z3.Implies(tk == 0, z3.And(tph == 0, tph == PH(ti, -1))),
                            z3.Implies(tk > 0, tph == PH(ti, tst)))
        d["prefix"] = z3.ForAll([j], z3.Implies(z3.And(0 <= j, j < tst), g.at(ti, j) == geno.at(PH(ti, j), ts, j)))
        d["rows_done"] = inv_outer(st, st["i"])
        return d
    return {"0": outer, "0.0": inner}


def prove_meiosis(ctx, target):
    """all obligations of the meiosis kernel at `target` (A2, unbounded)"""
    GH = {}
    f = loopcut.Extracted(target, loop_specs=loop_specs(GH))
    name = f.name
    ex = ctx.explorer()
    ctx.trust(*TRUST)
    ctx.assume_note("int8 allele codes are read as mathematical integers (no arithmetic is performed on them by the kernel)",
                    "floats are read as reals (the kernel only compares them)")

    def thunk():
        e = cur()
        n, p, t = fresh_int("n", 0), fresh_int("p", 0), fresh_int("t", 1)
        nph = fresh_int("m", 2)
        geno = EArr.fresh("geno", (nph, t, p), numpy.int8)
        sel = EArr.fresh("sel", (n,), numpy.int64)
        xoprob = EArr.fresh("xoprob", (p,), numpy.float64)
        q = z3.Int("q_k")
        e.assume(z3.ForAll([q], z3.Implies(z3.And(0 <= q, q < n.t), z3.And(0 <= sel._fn(q), sel._fn(q) < t.t))))
        frames = dict(geno=geno._at, sel=sel._at, xoprob=xoprob._at)

        def on_draw(rnd):
            GH["ph"], GH["hit"] = define_ph(e, rnd, xoprob)
            GH["rnd"] = rnd
        rng = SymRng(on_draw)
        res = f(geno, sel, xoprob, rng)
        ph = GH["ph"]
        e.prove(name + ":post:shape", z3.And(_t(res.shape[0]) == n.t, _t(res.shape[1]) == p.t, res.ndim == 2))
        r1, j1 = z3.Int(e.fresh_name("r")), z3.Int(e.fresh_name("j"))
        e.assume(z3.And(0 <= r1, r1 < n.t, 0 <= j1, j1 < p.t))
        e.prove(name + ":post:mosaic", res.at(r1, j1) == geno.at(ph(r1, j1), sel.at(r1), j1))
        e.prove(name + ":post:only-two-copies", z3.Or(ph(r1, j1) == 0, ph(r1, j1) == 1))
        e.prove(name + ":post:switch-iff-draw-below-xoprob",
                (ph(r1, j1) != ph(r1, j1 - 1)) == (GH["rnd"].at(r1, j1) < xoprob.at(j1)))
        e.prove(name + ":post:switch-needs-positive-xoprob",
                z3.Implies(ph(r1, j1) != ph(r1, j1 - 1), xoprob.at(j1) > 0))
        e.prove(name + ":post:dtype", res.dtype == geno.dtype)
        e.prove(name + ":frame:inputs-not-assigned",
                geno._at is frames["geno"] and sel._at is frames["sel"] and xoprob._at is frames["xoprob"])
        e.prove(name + ":entropy:exactly-one-uniform(0,1,(n,p))-on-rng",
                len(rng.log) == 1 and rng.log[0][1] == 0 and rng.log[0][2] == 1 and len(rng.log[0][3]) == 2
                and bool(z3.is_true(z3.simplify(z3.And(_t(rng.log[0][3][0]) == n.t, _t(rng.log[0][3][1]) == p.t)))))
        e.prove(name + ":canary:wrong-copy", res.at(r1, j1) == geno.at(1 - ph(r1, j1), sel.at(r1), j1),
                expect="fail", timeout_ms=1500)
        return res

    with npmodel.patched_numpy():
        outs = ex.explore(thunk)
    ctx.absorb(ex)
    finished = [o for o in outs if isinstance(o, EArr)]
    raised = [o for o in outs if isinstance(o, sym.Raised)]
    ctx.record(name + ":noraise", not raised, kind="noraise",
               detail="; ".join("%r" % r for r in raised) + ("\n" + raised[0].tb[-800:] if raised else ""))
    ctx.record(name + ":returns-on-some-path (cover)", len(finished) >= 1, kind="cover")
    ctx.record(name + ":loops-cut", f.loops_cut == {"0", "0.0"}, kind="cover",
               detail="loops cut: %s of %s" % (sorted(f.loops_cut), sorted(f.loops)))
    ctx.notes.append("transformed source digest %s" % f.digest)


def meiosis_stub(tag_list):
    """contract stub used at call sites of mat_meiosis/dense_meiosis (modular
    verification: callers see the contract, not the body)"""
    def stub(geno, sel, xoprob, rng):
        e = cur()
        idx = len(tag_list)
        tag = "call%d" % idx
        ok_nd = geno.ndim == 3 and sel.ndim == 1 and xoprob.ndim == 1
        e.prove("callsite:%s:pre:ranks" % tag, ok_nd, kind="call-pre")
        n, p, t = sel.shape[0], xoprob.shape[0], geno.shape[1]
        e.prove("callsite:%s:pre:marker-count" % tag, _t(geno.shape[2]) == _t(p), kind="call-pre")
        e.prove("callsite:%s:pre:two-copies" % tag, _t(geno.shape[0]) >= 2, kind="call-pre")
        q = z3.Int(e.fresh_name("q"))
        saved = list(e.assumptions)
        e.assume(z3.And(0 <= q, q < _t(n)))
        e.prove("callsite:%s:pre:sel-in-range" % tag, z3.And(0 <= sel.at(q), sel.at(q) < _t(t)), kind="call-pre")
        e.assumptions[:] = saved
        rnd = rng.uniform(0, 1, (n, p))
        ph, hit = define_ph(e, rnd, xoprob, prove_lemma=False)
        res = EArr.fresh("gamete", (n, p), geno.dtype)
        r, j = z3.Ints("q_r q_j")
        gat, sat = geno._at, sel._at
        e.assume(z3.ForAll([r, j], z3.Implies(z3.And(0 <= r, r < _t(n), 0 <= j, j < _t(p)),
                                              res._fn(r, j) == gat(ph(r, j), sat(r), j)), patterns=[res._fn(r, j)]))
        tag_list.append(dict(ph=ph, rnd=rnd, geno=geno, gat=gat, sel=sel, sat=sat, res=res, rng=rng, xoprob=xoprob))
        return res
    return stub


# ---------------------------------------------------------------------------
# native ring of the kernel contract (bounded; also the counterexample search
# and replay route for failed kernel obligations)
def spec_gamete(geno, sel, xoprob, rnd):
    """the contract's postcondition evaluated natively (ghost ph by recursion)"""
    n, p = len(sel), len(xoprob)
    out = numpy.empty((n, p), dtype=geno.dtype)
    for r in range(n):
        ph = 0
        for j in range(p):
            if rnd[r, j] < xoprob[j]:
                ph = 1 - ph
            out[r, j] = geno[ph, sel[r], j]
    return out


def _import(target):
    import importlib
    rel, q = target.split(":")
    return getattr(importlib.import_module(rel[:-3].replace("/", ".")), q)


def run_kernel_case(case):
    from pyvc import ring
    fn = _import(case["target"])
    n, p, t = case["n"], case["p"], case["t"]
    rs = numpy.random.RandomState(case["seed"])
    geno = rs.randint(-3, 4, size=(2, t, p)).astype("int8") if not case.get("coded") else \
        (numpy.arange(2 * t).reshape(2, t, 1) * numpy.ones((1, 1, p))).astype("int8")
    sel = rs.randint(0, t, size=n)
    xoprob = numpy.array(case["xoprob"], dtype=float) if case.get("xoprob") is not None else \
        rs.choice([0.0, 0.5, 1.0, 0.2], size=p)
    g0, s0, x0 = geno.copy(), sel.copy(), xoprob.copy()
    if case.get("pattern") is not None:
        rng = ring.ScriptedRandomState(case["pattern"])
        twin = ring.ScriptedRandomState(case["pattern"])
    else:
        rng = numpy.random.default_rng(case["seed"])
        twin = numpy.random.default_rng(case["seed"])
    out = fn(geno, sel, xoprob, rng)
    rnd = twin.uniform(0, 1, (n, p))
    exp = spec_gamete(geno, sel, xoprob, rnd)
    if out.shape != (n, p):
        return True, "shape %s != %s" % (out.shape, (n, p))
    if out.dtype != geno.dtype:
        return True, "dtype %s" % out.dtype
    if not numpy.array_equal(out, exp):
        r, j = [int(v[0]) for v in numpy.nonzero(out != exp)]
        return True, "gamete[%d,%d]=%d but the contract gives geno[ph,sel,j]=%d (xoprob[j]=%s, draw=%s)" % (
            r, j, out[r, j], exp[r, j], xoprob[j], rnd[r, j])
    if not (numpy.array_equal(geno, g0) and numpy.array_equal(sel, s0) and numpy.array_equal(xoprob, x0)):
        return True, "an input array was modified"
    # entropy frame: the generator must be exactly one (n,p) uniform draw ahead
    if case.get("pattern") is None:
        if rng.bit_generator.state != twin.bit_generator.state:
            return True, "generator state after the call differs from one uniform(0,1,(n,p)) draw"
    return False, "ok"


def ring_kernel(ctx, target):
    ctx.rule = ("real kernel vs. the native evaluation of its contract; sizes n<=5, p<=6, t<=3 with scripted draws "
                "{0,.25,.5,.75} and xoprob in {0,.2,.5,1}; thorough adds larger random shapes and one case with "
                "n*p just above 2^24 elements; distinct by input")
    pats = [[0.0, 0.25, 0.75], [0.5, 0.0], [0.25], [0.75, 0.5, 0.25, 0.0, 0.9], None, None]
    N = 400 if ctx.tier == "quick" else 6000
    cases = []
    for c in range(N):
        n, p, t = ctx.rng.choice([0, 1, 2, 3, 5]), ctx.rng.choice([0, 1, 2, 3, 4, 6]), ctx.rng.choice([1, 2, 3])
        cases.append(dict(target=target, n=n, p=p, t=t, seed=ctx.rng.randrange(10 ** 6), pattern=ctx.rng.choice(pats),
                          xoprob=[ctx.rng.choice([0.0, 0.2, 0.5, 1.0]) for _ in range(p)]))
    if ctx.tier == "thorough":
        for c in range(30):
            cases.append(dict(target=target, n=ctx.rng.randrange(1, 60), p=ctx.rng.randrange(1, 300), t=ctx.rng.randrange(1, 9),
                              seed=ctx.rng.randrange(10 ** 6), pattern=None, xoprob=None))
        cases.append(dict(target=target, n=4100, p=4096, t=3, seed=7, pattern=None, xoprob=None))
    for case in cases:
        try:
            bad, msg = run_kernel_case(case)
        except Exception as e:
            bad, msg = True, "exception %s: %s" % (type(e).__name__, e)
        ctx.case(repr(sorted(case.items(), key=str)), nontrivial=case["n"] > 0 and case["p"] > 0,
                 sample={k: case[k] for k in ("n", "p", "t", "xoprob", "pattern")})
        if bad:
            ctx.fail_input("ring:kernel:%s" % target.split(":")[1], case, cls="kernel", message=msg)
            if len(ctx.failures) >= 2:
                break


def replay_kernel(case):
    try:
        return run_kernel_case(case)
    except Exception as e:
        return True, "exception %s: %s" % (type(e).__name__, e)
