"""C19 -- see DESIGN.md §8 C19."""
from pyvc.unit import unit
P = "C19"
REPLAYERS = {}
try:
    from contracts.rings import C19 as _ring
    REPLAYERS.update(getattr(_ring, "REPLAYERS", {}))
except ImportError:
    _ring = None

import itertools
import numpy, z3
from pyvc import sym, barr, modeb
from pyvc.sym import cur, _t

R = lambda x: (z3.ToReal(_t(x)) if _t(x).sort() == z3.IntSort() else _t(x))


def _dominated_by(F, i, j, nobj):
    """point j is at least as good as i in every objective and strictly better in one (maximising)"""
    ge = z3.And(*[F[j][k] >= F[i][k] for k in range(nobj)])
    gt = z3.Or(*[F[j][k] > F[i][k] for k in range(nobj)])
    return z3.And(ge, gt)


def _pareto_body(e, shape, tag):
    from pybrops.core.util.pareto import is_pareto_efficient
    npt, nobj, signs = shape
    pts = barr.fresh("f", (npt, nobj), "float64")
    wt = numpy.array(signs, dtype=float)
    mask = is_pareto_efficient(pts, wt, return_mask=True)
    idx = is_pareto_efficient(pts, wt, return_mask=False)
    F = [[R(pts[i, k]) * int(signs[k]) for k in range(nobj)] for i in range(npt)]
    mk = [bool(mask[i]) for i in range(npt)]          # concrete on this path
    for i in range(npt):
        dom_any = z3.Or(*[_dominated_by(F, i, j, nobj) for j in range(npt) if j != i]) if npt > 1 else z3.BoolVal(False)
        if mk[i]:
            e.prove("%s:marked-point-%d-is-not-dominated" % (tag, i), z3.Not(dom_any))
        else:
            cover = z3.Or(*[z3.Or(_dominated_by(F, i, j, nobj), z3.And(*[F[j][k] == F[i][k] for k in range(nobj)]))
                            for j in range(npt) if j != i and mk[j]]) if any(mk) else z3.BoolVal(False)
            e.prove("%s:unmarked-point-%d-is-equalled-or-dominated-by-a-marked-one" % (tag, i), cover)
    e.prove(tag + ":mask-and-index-forms-agree", sorted(int(x) for x in idx) == [i for i in range(npt) if mk[i]])
    return "ok"


def _reg_pareto(npt, nobjs, tiers):
    @unit(P, "B[is_pareto_efficient == non-dominated set, npt=%d]" % npt, "B", bounded=True, tiers=tiers,
          targets=["pybrops/core/util/pareto.py:is_pareto_efficient"],
          note="bounded(shape): npt=%d, nobj in %s; coordinates symbolic reals incl. ties/duplicates; sign vectors enumerated" % (npt, nobjs))
    def u(ctx):
        shapes = []
        for nobj in nobjs:
            for signs in itertools.product([1, -1], repeat=nobj):
                if nobj == 3 and signs not in ((1, 1, 1), (1, -1, 1)):
                    continue
                if npt >= 4 and nobj >= 2 and ctx.tier == "quick" and signs not in ((1, 1), (1, -1)):
                    continue
                shapes.append((npt, nobj, signs))
        modeb.run_shapes(ctx, "pareto", shapes, _pareto_body, max_paths=200000)
    return u


for _n in (1, 2, 3, 4):
    _reg_pareto(_n, [1, 2] if _n == 4 else [1, 2, 3], ("quick", "thorough"))
_reg_pareto(5, [1, 2], ("thorough",))


@unit(P, "B[pymoo_addon.dominates: feasibility first, then Pareto dominance]", "B", bounded=True,
      targets=["pybrops/opt/algo/pymoo_addon.py:dominates"], note="bounded(shape): nobj<=3; objectives and violations symbolic reals")
def u_b_dominates(ctx):
    def body(e, shape, tag):
        from pybrops.opt.algo.pymoo_addon import dominates
        nobj = shape[0]
        o1, o2 = barr.fresh("a", (nobj,), "float64"), barr.fresh("b", (nobj,), "float64")
        c1, c2 = sym.fresh_real("cv1"), sym.fresh_real("cv2")
        res = dominates(o1, c1, o2, c2)
        feas = z3.And(c1.t <= 0, c2.t <= 0)
        pareto = z3.And(z3.And(*[R(o1[k]) <= R(o2[k]) for k in range(nobj)]), z3.Or(*[R(o1[k]) < R(o2[k]) for k in range(nobj)]))
        spec = z3.If(feas, pareto, c1.t < c2.t)
        e.prove(tag + ":result==spec", _t(res) == spec)
        return "ok"
    modeb.run_shapes(ctx, "dominates", [(1,), (2,), (3,)], body)


# ---------------------------------------------------------------------------------------------------
# distance-to-preference-vector transformations == their geometric definition (mode B, all real coordinates)
from pyvc import lemma
TRANS = ["pybrops/breed/prot/sel/prob/trans.py:trans_ndpt_to_vec_dist", "pybrops/breed/prot/sel/transfn.py:trans_ndpt_to_vec_dist",
         "pybrops/core/util/trans.py:trans_ndpt_pseudo_dist"]


@unit(P, "B[trans_ndpt_to_vec_dist == distance of the range-normalised weighted point to the preference ray]", "B", bounded=True,
      targets=TRANS,
      note="bounded(shape): fronts of <= 3 points x <= 2 objectives; coordinates, objective weights (non-zero) and the preference "
           "vector symbolic reals: every range > 0 however small is rescaled to [0,1], exactly constant objectives contribute 0")
def u_b_vecdist(ctx):
    ctx.trust(*lemma.TRUST)

    def body(e, shape, tag):
        import importlib
        npt, nobj, which = shape[:3]
        mod = importlib.import_module(["pybrops.breed.prot.sel.prob.trans", "pybrops.breed.prot.sel.transfn", "pybrops.core.util.trans"][which])
        f = mod.trans_ndpt_to_vec_dist if which < 2 else mod.trans_ndpt_pseudo_dist      # the third implementation (same definition)
        pts = barr.fresh("f", (npt, nobj), "float64")
        if nobj == 1:
            wt = barr.fresh("w", (nobj,), "float64")
            vec = barr.fresh("v", (nobj,), "float64")
            for k in range(nobj):
                e.assume(R(wt[k]) != 0)
            e.assume(sum((R(vec[k]) * R(vec[k]) for k in range(nobj)), z3.RealVal(0)) > 0)
            if which == 2:
                for k in range(nobj):
                    e.assume(R(vec[k]) >= 0)          # its documented precondition: non-negative pseudo-weights
        else:
            # two objectives: concrete sign weights and preference vectors keep the queries polynomial of low degree
            wt = numpy.array(shape[3], dtype=float)
            vec = numpy.array(shape[4], dtype=float)
        snap = [[_t(pts[i, k]) for k in range(nobj)] for i in range(npt)]
        d = f(pts, wt, vec)
        e.prove(tag + ":one-distance-per-point", tuple(d.shape) == (npt,))
        # definition: y = w*x; z_k = (y_k - min_k) / (max_k - min_k) if max_k > min_k else 0; d = | z - (z.v / v.v) v |
        Y = [[R(wt[k]) * snap[i][k] for k in range(nobj)] for i in range(npt)]
        Z = [[None] * nobj for _ in range(npt)]
        for k in range(nobj):
            col = [Y[i][k] for i in range(npt)]
            mn, mx = col[0], col[0]
            for c in col[1:]:
                mn = z3.If(c < mn, c, mn)
                mx = z3.If(c > mx, c, mx)
            for i in range(npt):
                Z[i][k] = z3.If(mx > mn, (Y[i][k] - mn) / (mx - mn), z3.RealVal(0))
        vv = sum((R(vec[k]) * R(vec[k]) for k in range(nobj)), z3.RealVal(0))
        for i in range(npt):
            t = sum((Z[i][k] * R(vec[k]) for k in range(nobj)), z3.RealVal(0)) / vv
            sq = sum(((Z[i][k] - t * R(vec[k])) * (Z[i][k] - t * R(vec[k])) for k in range(nobj)), z3.RealVal(0))
            e.prove(tag + ":d[%d]>=0 and d[%d]^2 == squared distance to the preference ray" % (i, i),
                    z3.And(R(d[i]) >= 0, R(d[i]) * R(d[i]) == sq), timeout_ms=20000)
        e.prove(tag + ":front-not-modified", all(_t(pts[i, k]).eq(snap[i][k]) for i in range(npt) for k in range(nobj)))
        return "ok"
    shapes = [(1, 1, 0), (2, 1, 0), (2, 1, 1), (2, 2, 0, (1, -1), (1, 1)), (2, 2, 1, (-1, -1), (1, 1)),
              (2, 1, 2), (2, 2, 2, (-1, 1), (1, 1)), (2, 2, 2, (-1, -1), (1, 1))]
    if ctx.tier == "thorough":
        # fronts of 3 points x 2 objectives: their nonlinear queries are decided in seconds on an idle machine but went `unknown` when all
        # cores were busy -- left out of the registered tier (a solver budget is no verdict); the native rings cover fronts of that size
        shapes += [(3, 1, 1), (3, 1, 2), (2, 2, 1, (-1, -1), (2, 1)), (2, 2, 0, (1, 1), (1, 3))]
    modeb.run_shapes(ctx, "vecdist", shapes, body, max_paths=5000)


# ---------------------------------------------------------------------------------------------------
# A2: the Pareto filter for point sets of every size (loop invariant over the shrinking survivor list)
import numpy as _np
from pyvc import loopcut, npmodel
from pyvc.arr import EArr
from pyvc.sym import fresh_int

PARETO = "pybrops/core/util/pareto.py:is_pareto_efficient"


def _forall(vs, body, *pats, alts=()):
    """ForAll with the given pattern terms if they are usable as E-matching patterns (uninterpreted applications without ite)"""
    def ok(t):
        if not (z3.is_app(t) and t.decl().kind() == z3.Z3_OP_UNINTERPRETED and t.num_args() > 0):
            return False
        todo = list(t.children())
        while todo:
            x = todo.pop()
            if z3.is_app(x) and x.decl().kind() in (z3.Z3_OP_ITE, z3.Z3_OP_AND, z3.Z3_OP_OR, z3.Z3_OP_NOT, z3.Z3_OP_LE, z3.Z3_OP_LT,
                                                    z3.Z3_OP_GE, z3.Z3_OP_GT, z3.Z3_OP_EQ):
                return False
            todo.extend(x.children())
        return True
    groups = [g for g in ([pats] if pats else []) + list(alts) if g and all(ok(t) for t in g)]
    if groups:
        return z3.ForAll(vs, body, patterns=[z3.MultiPattern(*g) if len(g) > 1 else g[0] for g in groups])
    return z3.ForAll(vs, body)


def _pareto_loop(ctx, return_mask):
    box = {}

    def ghosts(e, W, npt, nobj):
        """NLE(a, b): point b has a coordinate strictly greater than point a (so a does not weakly dominate b)"""
        NLE = z3.Function(e.fresh_name("nle"), z3.IntSort(), z3.IntSort(), z3.BoolSort())
        KW = z3.Function(e.fresh_name("nlek"), z3.IntSort(), z3.IntSort(), z3.IntSort())
        a, b, k = z3.Ints("q_a q_b q_k")
        e.assume(z3.ForAll([a, b], z3.Implies(NLE(a, b), z3.And(0 <= KW(a, b), KW(a, b) < nobj, W(b, KW(a, b)) > W(a, KW(a, b)))),
                           patterns=[NLE(a, b)]))
        e.assume(z3.ForAll([a, b, k], z3.Implies(z3.And(0 <= k, k < nobj, W(b, k) > W(a, k)), NLE(a, b)),
                           patterns=[z3.MultiPattern(W(b, k), W(a, k))]))
        # transitivity of "weakly dominates": c <= b <= a (all coordinates) => c <= a.  Proved once from the two axioms, then assumed.
        x, y, z_ = (z3.Int(e.fresh_name(n_)) for n_ in ("ta", "tb", "tc"))
        ok = e.prove("lemma:weak-dominance-is-transitive", z3.Implies(z3.And(z3.Not(NLE(x, y)), z3.Not(NLE(y, z_))), z3.Not(NLE(x, z_))), kind="lemma")
        if ok:
            c = z3.Int("q_c")
            e.assume(z3.ForAll([a, b, c], z3.Implies(z3.And(z3.Not(NLE(a, b)), z3.Not(NLE(b, c))), z3.Not(NLE(a, c))),
                               patterns=[z3.MultiPattern(NLE(a, b), NLE(b, c))]))
        return NLE

    def on_havoc(loc, rt):
        box["rt"] = rt

    def inv(st):
        R, F, p = st["is_efficient"], st["fmat"], _t(st["pt_ix"])
        W, NLE, npt, nobj = box["W"], box["NLE"], box["npt"], box["nobj"]
        d = {}
        if not (isinstance(R, EArr) and isinstance(F, EArr) and R.ndim == 1 and F.ndim == 2):
            return {"shape": False}
        m = _t(R.shape[0])
        i, j, k, q = z3.Ints("q_i q_j q_k q_q")
        if st["_phase"] == "preserve":
            # intermediate assertions about this iteration (proved first, then assumed): what the mask means, where the pivot lands
            o = box["rt"]._hv_state
            R0, p0 = o["is_efficient"], _t(o["pt_ix"])
            m0 = _t(R0.shape[0])
            g = list(cur().memo["mask_positions"].values())[-1][1]._ghost
            fpos, rank, mask = g["f"], g["rank"], g["mask"]
            d["hint:kept=>pivot-or-beats-the-pivot-somewhere [cvc5]"] = _forall(
                [i], z3.Implies(z3.And(0 <= i, i < m0, mask(i)), z3.Or(i == p0, NLE(R0.at(p0), R0.at(i)))), R0.at(i))
            d["hint:dropped=>weakly-dominated-by-the-pivot [cvc5]"] = _forall(
                [i], z3.Implies(z3.And(0 <= i, i < m0, z3.Not(mask(i))), z3.And(i != p0, z3.Not(NLE(R0.at(p0), R0.at(i))))), R0.at(i))
            d["hint:pivot-kept-at-position-rank"] = z3.And(mask(p0), 0 <= rank(p0), rank(p0) < m, fpos(rank(p0)) == p0, p == rank(p0) + 1)
            d["hint:positions-before-the-new-cursor-are-old-positions-up-to-the-pivot"] = _forall(
                [i], z3.Implies(z3.And(0 <= i, i < p), z3.And(0 <= fpos(i), fpos(i) <= p0)), fpos(i))
            d["hint:positions-are-distinct-kept-old-positions"] = _forall(
                [i, j], z3.Implies(z3.And(0 <= i, i < m, 0 <= j, j < m, i != j),
                                   z3.And(fpos(i) != fpos(j), mask(fpos(i)), 0 <= fpos(i), fpos(i) < m0)), fpos(i), fpos(j))
        d["shape"] = z3.And(_t(F.shape[0]) == m, _t(F.shape[1]) == nobj, 0 <= p, p <= m, m <= npt)
        d["survivors-are-increasing-indices"] = z3.And(
            _forall([i], z3.Implies(z3.And(0 <= i, i < m), z3.And(0 <= R.at(i), R.at(i) < npt)), R.at(i)),
            _forall([i, j], z3.Implies(z3.And(0 <= i, i < j, j < m), R.at(i) < R.at(j)), R.at(i), R.at(j)))
        d["rows-are-the-survivors'-weighted-points"] = _forall([i, k], z3.Implies(z3.And(0 <= i, i < m, 0 <= k, k < nobj),
                                                                               F.at(i, k) == W(R.at(i), k)), F.at(i, k),
                                                              alts=[[W(R.at(i), k)]])
        d["processed-pivots-are-beaten-somewhere-by-every-other-survivor"] = _forall(
            [i, j], z3.Implies(z3.And(0 <= i, i < p, 0 <= j, j < m, i != j), NLE(R.at(i), R.at(j))), R.at(i), R.at(j))
        d["every-point-is-weakly-dominated-by-a-survivor"] = z3.ForAll(
            [q], z3.Implies(z3.And(0 <= q, q < npt), z3.Exists([i], z3.And(0 <= i, i < m, z3.Not(NLE(R.at(i), q))))))
        return d
    inv.on_havoc = on_havoc
    f = loopcut.Extracted(PARETO, loop_specs={"0": inv})
    ex = ctx.explorer(timeout_ms=6000)       # every obligation of this unit discharges in well under a second when it holds
    tagp = "pareto[%s]" % ("mask" if return_mask else "index")

    def thunk():
        e = cur()
        npt, nobj = fresh_int("npt", 0), fresh_int("nobj", 1)
        pts = EArr.fresh("f", (npt, nobj), _np.float64)
        wt = EArr.fresh("w", (nobj,), _np.float64)
        WF = z3.Function(e.fresh_name("wpt"), z3.IntSort(), z3.IntSort(), z3.RealSort())      # weighted coordinate of an original point
        a_, k_ = z3.Ints("q_a q_k")
        e.assume(z3.ForAll([a_, k_], WF(a_, k_) == pts._fn(a_, k_) * wt._fn(k_), patterns=[WF(a_, k_)]))
        W = lambda x_, y_: WF(x_, y_)
        box.update(W=W, npt=npt.t, nobj=nobj.t, NLE=ghosts(e, W, npt.t, nobj.t))
        NLE = box["NLE"]
        pts_at0 = pts._at
        out = f(pts, wt, return_mask)
        e.prove(tagp + ":frame:input-not-written", pts._at is pts_at0)
        q, s_ = (z3.Int(e.fresh_name(x)) for x in ("q", "s"))
        e.assume(z3.And(0 <= q, q < npt.t, 0 <= s_, s_ < npt.t))
        i = z3.Int("q_i")
        k = z3.Int("q_k")
        Rf = box["rt"]._hv_state["is_efficient"]              # the survivor list when the loop is left
        m = _t(Rf.shape[0])
        dominates = lambda a_, b_: z3.And(z3.ForAll([k], z3.Implies(z3.And(0 <= k, k < nobj.t), W(a_, k) >= W(b_, k))),
                                          z3.Exists([k], z3.And(0 <= k, k < nobj.t, W(a_, k) > W(b_, k))))
        survivor = lambda a_: z3.Exists([i], z3.And(0 <= i, i < m, Rf.at(i) == a_))
        if return_mask:
            e.prove(tagp + ":post:shape", z3.And(out.ndim == 1, _t(out.shape[0]) == npt.t))
            e.prove(tagp + ":post:marked-iff-survivor", out.at(s_) == survivor(s_))
            marked = lambda a_: out.at(a_)
        else:
            e.prove(tagp + ":post:result-is-the-survivor-list", out is Rf)
            marked = survivor
            e.prove(tagp + ":post:indices-increasing-and-in-range",
                    z3.ForAll([i], z3.Implies(z3.And(0 <= i, i < m), z3.And(0 <= Rf.at(i), Rf.at(i) < npt.t,
                                                                           z3.Implies(i + 1 < m, Rf.at(i) < Rf.at(i + 1))))))
        # the ghost predicate means what it says (definitional lemmas for arbitrary points a, b):
        a1, b1 = (z3.Int(e.fresh_name(x)) for x in ("a", "b"))
        weakly = lambda x_, y_: z3.ForAll([k], z3.Implies(z3.And(0 <= k, k < nobj.t), W(y_, k) <= W(x_, k)))      # y <= x everywhere
        e.prove(tagp + ":lemma:not-NLE(a,b) <=> b <= a in every coordinate", z3.Not(NLE(a1, b1)) == weakly(a1, b1), kind="lemma")
        e.prove(tagp + ":lemma:a dominates b <=> b <= a everywhere and a > b somewhere <=> not NLE(a,b) and NLE(b,a) [cvc5]",
                dominates(a1, b1) == z3.And(z3.Not(NLE(a1, b1)), NLE(b1, a1)), kind="lemma")
        i1 = z3.Int(e.fresh_name("i"))
        e.prove(tagp + ":post:sound:a-survivor-is-dominated-by-no-point",
                z3.Implies(z3.And(0 <= i1, i1 < m), z3.Not(z3.And(z3.Not(NLE(q, Rf.at(i1))), NLE(Rf.at(i1), q)))))
        e.prove(tagp + ":post:complete:every-point-is-equalled-or-dominated-by-a-survivor",
                z3.Exists([i], z3.And(0 <= i, i < m, z3.Not(NLE(Rf.at(i), q)))))
        e.prove(tagp + ":canary:every-point-is-marked", marked(q), expect="fail", timeout_ms=2000)
        return "ok"
    with npmodel.patched_numpy():
        outs = ex.explore(thunk)
    ctx.absorb(ex)
    raised = [o for o in outs if isinstance(o, sym.Raised)]
    ctx.record(tagp + ":noraise", not raised, kind="noraise", detail="; ".join(repr(r) + r.tb[-1500:] for r in raised[:1]))
    ctx.record(tagp + ":loop-cut", f.loops_cut == set(f.loops), kind="cover", detail=str(f.loops))
    ctx.record(tagp + ":returns-on-some-path (cover)", any(o == "ok" for o in outs), kind="cover")


@unit(P, "loop[is_pareto_efficient, index form: the survivors are exactly a non-dominated cover, for every number of points and objectives]",
      "A2", targets=[PARETO])
def u_pareto_loop_index(ctx):
    _pareto_loop(ctx, False)


@unit(P, "loop[is_pareto_efficient, mask form]", "A2", targets=[PARETO])
def u_pareto_loop_mask(ctx):
    _pareto_loop(ctx, True)


# ---------------------------------------------------------------------------------------------------
# the memetic optimisers USE the dominance predicate: a hill climb replaces its leader exactly when the proposal dominates it, so the
# leader it returns is not dominated (feasible points: Pareto; otherwise: smaller total violation) by any solution it evaluated
ADDON = "pybrops/opt/algo/pymoo_addon.py"


def _spec_dominates(o1, c1, o2, c2):
    if c1 <= 0.0 and c2 <= 0.0:
        return all(a <= b for a, b in zip(o1, o2)) and any(a < b for a, b in zip(o1, o2))
    return c1 < c2


def _climb_case(case):
    """one seeded hill climb of the real MultiObjectiveStochasticHillClimberMutation on a table-driven problem; returns (bad, message)"""
    import random as _random
    import numpy as np
    from pybrops.opt.algo.pymoo_addon import MultiObjectiveStochasticHillClimberMutation as M
    rnd = _random.Random(case["seed"])
    nset, k, nobj, regime = case["nset"], case["k"], case["nobj"], case["regime"]
    setspace = np.arange(10, 10 + nset)
    # additive per-element scores (small integers: ties and exact comparisons) and a constraint slack that is negative (satisfied,
    # pymoo convention), around zero, or mostly positive
    f = {int(e): [rnd.randrange(-3, 4) for _ in range(nobj)] for e in setspace}
    base = {"slack": -6.0, "mixed": -1.0, "violated": 1.0}[regime]
    g = {int(e): rnd.choice([-1.0, -0.5, 0.0, 0.5, 1.0]) for e in setspace}
    seen = []

    class Prob:
        n_var, n_obj = k, nobj

        def _evaluate(self, X, out, *a, **kw):
            F = np.array([[float(sum(f[int(e)][j] for e in x)) for j in range(nobj)] for x in X])
            G = np.array([[base + sum(g[int(e)] for e in x)] for x in X])
            for x, fo, go in zip(X, F, G):
                seen.append((tuple(int(v) for v in x), tuple(fo), float(go.sum())))
            out["F"], out["G"] = F, G
    x0 = np.array(rnd.sample([int(e) for e in setspace], k))
    mut = M(setspace=setspace, p_hillclimb=1.0)
    st = np.random.get_state()
    np.random.seed(case["seed"] % (2 ** 31))
    try:
        res = mut.hillclimb(Prob(), x0.copy())
    finally:
        np.random.set_state(st)
    res = [int(v) for v in np.asarray(res).ravel()]
    if len(res) != k or len(set(res)) != k or not set(res) <= set(int(e) for e in setspace):
        return True, "hill climb from %r returned %r: not a subset of %d distinct members of the set space" % (x0.tolist(), res, k)
    mine = [s for s in seen if sorted(s[0]) == sorted(res)]
    if not mine:
        return True, "hill climb returned %r, a solution it never evaluated" % (res,)
    _, lo, lc = mine[-1]
    for sx, so, sc in seen:
        if _spec_dominates(so, sc, lo, lc):
            return True, ("hill climb from %r returned leader %r (objectives %r, total constraint value %r) although it evaluated %r "
                          "(objectives %r, constraint value %r), which dominates it (both feasible: Pareto; otherwise smaller violation)"
                          % (x0.tolist(), res, lo, lc, list(sx), so, sc))
    return False, "ok"


@unit(P, "ring[memetic hill climber accepts and rejects by the dominance predicate: its leader is never dominated by a solution it evaluated]",
      "R", bounded=True, targets=[ADDON + ":MultiObjectiveStochasticHillClimberMutation.hillclimb", ADDON + ":dominates"],
      note="bounded: 600 (thorough 12000) seeded climbs, set space <=9, subsets <=4, 1-3 objectives with small integer scores (ties), one "
           "inequality constraint reported with its signed slack in three regimes (always satisfied with slack, mixed, mostly violated)")
def u_ring_climb(ctx):
    ctx.rule = ("seeded table-driven problems; numpy's global generator is seeded per case and restored; non-trivial if the climb evaluated "
                "at least two different solutions; distinct by the full case")
    n = 600 if ctx.tier == "quick" else 12000
    for c in range(n):
        k = ctx.rng.choice([1, 2, 3, 4])
        case = dict(seed=ctx.rng.randrange(10 ** 9), nset=ctx.rng.randrange(k + 1, 10), k=k, nobj=ctx.rng.choice([1, 2, 2, 3]),
                    regime=ctx.rng.choice(["slack", "slack", "mixed", "violated"]))
        try:
            bad, msg = _climb_case(case)
        except Exception as e:
            bad, msg = True, "exception %s: %s" % (type(e).__name__, e)
        ctx.case(repr(sorted(case.items())), nontrivial=True, sample=case if c < 3 else None)
        if bad:
            ctx.fail_input("ring:memetic-climb:leader-dominated", case, cls="memetic-climb", message=msg)
            if len(ctx.failures) >= 3:
                break


REPLAYERS["ring[memetic hill climber accepts and rejects by the dominance predicate: its leader is never dominated by a solution it evaluated]"] = _climb_case


def _descent_front_case(case):
    """MultiObjectiveStochasticDescentHillClimberMutation.hillclimb documents that it returns non-dominated individuals: on an
    unconstrained table-driven problem no returned individual may be Pareto-dominated by another returned one"""
    import io
    import contextlib
    import numpy as np
    from pymoo.core.problem import Problem
    from pymoo.core.individual import Individual
    from pybrops.opt.algo import pymoo_addon as _addon
    steepest = case.get("which") == "steepest"
    M = _addon.MultiObjectiveSteepestDescentHillClimberMutation if steepest else _addon.MultiObjectiveStochasticDescentHillClimberMutation
    rs = np.random.RandomState(case["seed"])
    table = rs.randint(0, 5, size=(case["nset"], case["nobj"])).astype(float)

    class P_(Problem):
        def __init__(self):
            super().__init__(n_var=case["k"], n_obj=case["nobj"], xl=0, xu=case["nset"] - 1, vtype=int)

        def _evaluate(self, x, out, *a, **kw):
            out["F"] = table[np.atleast_2d(x)].sum(1)
    st = np.random.get_state()
    np.random.seed(case["seed"] % (2 ** 31))
    try:
        x0 = np.random.choice(case["nset"], case["k"], replace=False)
        mut = M(setspace=np.arange(case["nset"]), p_hillclimb=1.0) if steepest else M(setspace=np.arange(case["nset"]), phc=1.0, nhc=3 * case["k"])
        with contextlib.redirect_stdout(io.StringIO()):
            pop = mut.hillclimb(P_(), Individual(X=x0.copy()))
    finally:
        np.random.set_state(st)
    if len(pop) == 0:
        return False, "ok"
    F = np.atleast_2d(pop.get("F"))
    for i in range(len(F)):
        for j in range(len(F)):
            if i != j and np.all(F[i] <= F[j]) and np.any(F[i] < F[j]):
                return True, ("hill climb from %r returned individuals with objectives %r: number %d dominates number %d, yet both are "
                              "handed back as the non-dominated result" % (x0.tolist(), F.tolist(), i, j))
    return False, "ok"


@unit(P, "ring[stochastic-descent memetic hill climber returns mutually non-dominated individuals]", "R", bounded=True,
      targets=[ADDON + ":MultiObjectiveStochasticDescentHillClimberMutation.hillclimb", ADDON + ":MultiObjectiveSteepestDescentHillClimberMutation.hillclimb"],
      note="bounded: 400 (thorough 8000) seeded climbs on unconstrained additive table problems, set space <=12, subsets <=4, 1-3 objectives "
           "with small integer scores (ties, duplicates)")
def u_ring_descent(ctx):
    ctx.rule = "seeded; numpy's global generator seeded per case and restored; every case counted; distinct by the case"
    for c in range(400 if ctx.tier == "quick" else 8000):
        k = ctx.rng.choice([2, 3, 4])
        case = dict(seed=ctx.rng.randrange(10 ** 9), nset=ctx.rng.randrange(k + 2, 13), k=k, nobj=ctx.rng.choice([1, 2, 2, 3]),
                    which=ctx.rng.choice(["stochastic", "steepest"]))      # both descent variants document a non-dominated result
        try:
            bad, msg = _descent_front_case(case)
        except Exception as e:
            bad, msg = True, "exception %s: %s" % (type(e).__name__, e)
        ctx.case(repr(sorted(case.items())), nontrivial=True, sample=case if c < 2 else None)
        if bad:
            ctx.fail_input("ring:memetic-descent:returned-front", case, cls="memetic-descent", message=msg)
            if len(ctx.failures) >= 3:
                break


REPLAYERS["ring[stochastic-descent memetic hill climber returns mutually non-dominated individuals]"] = _descent_front_case
