"""C19 -- see DESIGN.md §8 C19."""
from pyvc.unit import unit
P = "C19"
REPLAYERS = {}
try:
    from contracts.rings import C19 as _ring
    REPLAYERS.update(getattr(_ring, "REPLAYERS", {}))
except ImportError:
    _ring = None

import itertools
import numpy, z3
from pyvc import sym, barr, modeb
from pyvc.sym import cur, _t

R = lambda x: (z3.ToReal(_t(x)) if _t(x).sort() == z3.IntSort() else _t(x))


def _dominated_by(F, i, j, nobj):
    """point j is at least as good as i in every objective and strictly better in one (maximising)"""
    ge = z3.And(*[F[j][k] >= F[i][k] for k in range(nobj)])
    gt = z3.Or(*[F[j][k] > F[i][k] for k in range(nobj)])
    return z3.And(ge, gt)


def _pareto_body(e, shape, tag):
    from pybrops.core.util.pareto import is_pareto_efficient
    npt, nobj, signs = shape
    pts = barr.fresh("f", (npt, nobj), "float64")
    wt = numpy.array(signs, dtype=float)
    mask = is_pareto_efficient(pts, wt, return_mask=True)
    idx = is_pareto_efficient(pts, wt, return_mask=False)
    F = [[R(pts[i, k]) * int(signs[k]) for k in range(nobj)] for i in range(npt)]
    mk = [bool(mask[i]) for i in range(npt)]          # concrete on this path
    for i in range(npt):
        dom_any = z3.Or(*[_dominated_by(F, i, j, nobj) for j in range(npt) if j != i]) if npt > 1 else z3.BoolVal(False)
        if mk[i]:
            e.prove("%s:marked-point-%d-is-not-dominated" % (tag, i), z3.Not(dom_any))
        else:
            cover = z3.Or(*[z3.Or(_dominated_by(F, i, j, nobj), z3.And(*[F[j][k] == F[i][k] for k in range(nobj)]))
                            for j in range(npt) if j != i and mk[j]]) if any(mk) else z3.BoolVal(False)
            e.prove("%s:unmarked-point-%d-is-equalled-or-dominated-by-a-marked-one" % (tag, i), cover)
    e.prove(tag + ":mask-and-index-forms-agree", sorted(int(x) for x in idx) == [i for i in range(npt) if mk[i]])
    return "ok"


def _reg_pareto(npt, nobjs, tiers):
    @unit(P, "B[is_pareto_efficient == non-dominated set, npt=%d]" % npt, "B", bounded=True, tiers=tiers,
          targets=["pybrops/core/util/pareto.py:is_pareto_efficient"],
          note="bounded(shape): npt=%d, nobj in %s; coordinates symbolic reals incl. ties/duplicates; sign vectors enumerated" % (npt, nobjs))
    def u(ctx):
        shapes = []
        for nobj in nobjs:
            for signs in itertools.product([1, -1], repeat=nobj):
                if nobj == 3 and signs not in ((1, 1, 1), (1, -1, 1)):
                    continue
                if npt >= 4 and nobj >= 2 and ctx.tier == "quick" and signs not in ((1, 1), (1, -1)):
                    continue
                shapes.append((npt, nobj, signs))
        modeb.run_shapes(ctx, "pareto", shapes, _pareto_body, max_paths=200000)
    return u


for _n in (1, 2, 3, 4):
    _reg_pareto(_n, [1, 2] if _n == 4 else [1, 2, 3], ("quick", "thorough"))
_reg_pareto(5, [1, 2], ("thorough",))


@unit(P, "B[pymoo_addon.dominates: feasibility first, then Pareto dominance]", "B", bounded=True,
      targets=["pybrops/opt/algo/pymoo_addon.py:dominates"], note="bounded(shape): nobj<=3; objectives and violations symbolic reals")
def u_b_dominates(ctx):
    def body(e, shape, tag):
        from pybrops.opt.algo.pymoo_addon import dominates
        nobj = shape[0]
        o1, o2 = barr.fresh("a", (nobj,), "float64"), barr.fresh("b", (nobj,), "float64")
        c1, c2 = sym.fresh_real("cv1"), sym.fresh_real("cv2")
        res = dominates(o1, c1, o2, c2)
        feas = z3.And(c1.t <= 0, c2.t <= 0)
        pareto = z3.And(z3.And(*[R(o1[k]) <= R(o2[k]) for k in range(nobj)]), z3.Or(*[R(o1[k]) < R(o2[k]) for k in range(nobj)]))
        spec = z3.If(feas, pareto, c1.t < c2.t)
        e.prove(tag + ":result==spec", _t(res) == spec)
        return "ok"
    modeb.run_shapes(ctx, "dominates", [(1,), (2,), (3,)], body)
