"""C19 -- see DESIGN.md §8 C19."""
from pyvc.unit import unit
P = "C19"
REPLAYERS = {}
try:
    from contracts.rings import C19 as _ring
    REPLAYERS.update(getattr(_ring, "REPLAYERS", {}))
except ImportError:
    _ring = None

import itertools
import numpy, z3
from pyvc import sym, barr, modeb
from pyvc.sym import cur, _t

R = lambda x: (z3.ToReal(_t(x)) if _t(x).sort() == z3.IntSort() else _t(x))


def _dominated_by(F, i, j, nobj):
    """point j is at least as good as i in every objective and strictly better in one (maximising)"""
    ge = z3.And(*[F[j][k] >= F[i][k] for k in range(nobj)])
    gt = z3.Or(*[F[j][k] > F[i][k] for k in range(nobj)])
    return z3.And(ge, gt)


def _pareto_body(e, shape, tag):
    from pybrops.core.util.pareto import is_pareto_efficient
    npt, nobj, signs = shape
    pts = barr.fresh("f", (npt, nobj), "float64")
    wt = numpy.array(signs, dtype=float)
    mask = is_pareto_efficient(pts, wt, return_mask=True)
    idx = is_pareto_efficient(pts, wt, return_mask=False)
    F = [[R(pts[i, k]) * int(signs[k]) for k in range(nobj)] for i in range(npt)]
    mk = [bool(mask[i]) for i in range(npt)]          # concrete on this path
    for i in range(npt):
        dom_any = z3.Or(*[_dominated_by(F, i, j, nobj) for j in range(npt) if j != i]) if npt > 1 else z3.BoolVal(False)
        if mk[i]:
            e.prove("%s:marked-point-%d-is-not-dominated" % (tag, i), z3.Not(dom_any))
        else:
            cover = z3.Or(*[z3.Or(_dominated_by(F, i, j, nobj), z3.And(*[F[j][k] == F[i][k] for k in range(nobj)]))
                            for j in range(npt) if j != i and mk[j]]) if any(mk) else z3.BoolVal(False)
            e.prove("%s:unmarked-point-%d-is-equalled-or-dominated-by-a-marked-one" % (tag, i), cover)
    e.prove(tag + ":mask-and-index-forms-agree", sorted(int(x) for x in idx) == [i for i in range(npt) if mk[i]])
    return "ok"


def _reg_pareto(npt, nobjs, tiers):
    @unit(P, "B[is_pareto_efficient == non-dominated set, npt=%d]" % npt, "B", bounded=True, tiers=tiers,
          targets=["pybrops/core/util/pareto.py:is_pareto_efficient"],
          note="bounded(shape): npt=%d, nobj in %s; coordinates symbolic reals incl. ties/duplicates; sign vectors enumerated" % (npt, nobjs))
    def u(ctx):
        shapes = []
        for nobj in nobjs:
            for signs in itertools.product([1, -1], repeat=nobj):
                if nobj == 3 and signs not in ((1, 1, 1), (1, -1, 1)):
                    continue
                if npt >= 4 and nobj >= 2 and ctx.tier == "quick" and signs not in ((1, 1), (1, -1)):
                    continue
                shapes.append((npt, nobj, signs))
        modeb.run_shapes(ctx, "pareto", shapes, _pareto_body, max_paths=200000)
    return u


for _n in (1, 2, 3, 4):
    _reg_pareto(_n, [1, 2] if _n == 4 else [1, 2, 3], ("quick", "thorough"))
_reg_pareto(5, [1, 2], ("thorough",))


@unit(P, "B[pymoo_addon.dominates: feasibility first, then Pareto dominance]", "B", bounded=True,
      targets=["pybrops/opt/algo/pymoo_addon.py:dominates"], note="bounded(shape): nobj<=3; objectives and violations symbolic reals")
def u_b_dominates(ctx):
    def body(e, shape, tag):
        from pybrops.opt.algo.pymoo_addon import dominates
        nobj = shape[0]
        o1, o2 = barr.fresh("a", (nobj,), "float64"), barr.fresh("b", (nobj,), "float64")
        c1, c2 = sym.fresh_real("cv1"), sym.fresh_real("cv2")
        res = dominates(o1, c1, o2, c2)
        feas = z3.And(c1.t <= 0, c2.t <= 0)
        pareto = z3.And(z3.And(*[R(o1[k]) <= R(o2[k]) for k in range(nobj)]), z3.Or(*[R(o1[k]) < R(o2[k]) for k in range(nobj)]))
        spec = z3.If(feas, pareto, c1.t < c2.t)
        e.prove(tag + ":result==spec", _t(res) == spec)
        return "ok"
    modeb.run_shapes(ctx, "dominates", [(1,), (2,), (3,)], body)


# ---------------------------------------------------------------------------------------------------
# distance-to-preference-vector transformations == their geometric definition (mode B, all real coordinates)
from pyvc import lemma
TRANS = ["pybrops/breed/prot/sel/prob/trans.py:trans_ndpt_to_vec_dist", "pybrops/breed/prot/sel/transfn.py:trans_ndpt_to_vec_dist"]


@unit(P, "B[trans_ndpt_to_vec_dist == distance of the range-normalised weighted point to the preference ray]", "B", bounded=True,
      targets=TRANS,
      note="bounded(shape): fronts of <= 3 points x <= 2 objectives; coordinates, objective weights (non-zero) and the preference "
           "vector symbolic reals: every range > 0 however small is rescaled to [0,1], exactly constant objectives contribute 0")
def u_b_vecdist(ctx):
    ctx.trust(*lemma.TRUST)

    def body(e, shape, tag):
        import importlib
        npt, nobj, which = shape[:3]
        mod = importlib.import_module("pybrops.breed.prot.sel.prob.trans" if which == 0 else "pybrops.breed.prot.sel.transfn")
        f = mod.trans_ndpt_to_vec_dist
        pts = barr.fresh("f", (npt, nobj), "float64")
        if nobj == 1:
            wt = barr.fresh("w", (nobj,), "float64")
            vec = barr.fresh("v", (nobj,), "float64")
            for k in range(nobj):
                e.assume(R(wt[k]) != 0)
            e.assume(sum((R(vec[k]) * R(vec[k]) for k in range(nobj)), z3.RealVal(0)) > 0)
        else:
            # two objectives: concrete sign weights and preference vectors keep the queries polynomial of low degree
            wt = numpy.array(shape[3], dtype=float)
            vec = numpy.array(shape[4], dtype=float)
        snap = [[_t(pts[i, k]) for k in range(nobj)] for i in range(npt)]
        d = f(pts, wt, vec)
        e.prove(tag + ":one-distance-per-point", tuple(d.shape) == (npt,))
        # definition: y = w*x; z_k = (y_k - min_k) / (max_k - min_k) if max_k > min_k else 0; d = | z - (z.v / v.v) v |
        Y = [[R(wt[k]) * snap[i][k] for k in range(nobj)] for i in range(npt)]
        Z = [[None] * nobj for _ in range(npt)]
        for k in range(nobj):
            col = [Y[i][k] for i in range(npt)]
            mn, mx = col[0], col[0]
            for c in col[1:]:
                mn = z3.If(c < mn, c, mn)
                mx = z3.If(c > mx, c, mx)
            for i in range(npt):
                Z[i][k] = z3.If(mx > mn, (Y[i][k] - mn) / (mx - mn), z3.RealVal(0))
        vv = sum((R(vec[k]) * R(vec[k]) for k in range(nobj)), z3.RealVal(0))
        for i in range(npt):
            t = sum((Z[i][k] * R(vec[k]) for k in range(nobj)), z3.RealVal(0)) / vv
            sq = sum(((Z[i][k] - t * R(vec[k])) * (Z[i][k] - t * R(vec[k])) for k in range(nobj)), z3.RealVal(0))
            e.prove(tag + ":d[%d]>=0 and d[%d]^2 == squared distance to the preference ray" % (i, i),
                    z3.And(R(d[i]) >= 0, R(d[i]) * R(d[i]) == sq), timeout_ms=20000)
        e.prove(tag + ":front-not-modified", all(_t(pts[i, k]).eq(snap[i][k]) for i in range(npt) for k in range(nobj)))
        return "ok"
    shapes = [(1, 1, 0), (2, 1, 0), (2, 1, 1), (2, 2, 0, (1, -1), (1, 1)), (2, 2, 1, (-1, -1), (2, 1))]
    if ctx.tier == "thorough":
        shapes += [(3, 1, 1), (3, 2, 0, (1, 1), (1, 3)), (3, 2, 1, (1, -1), (1, 1))]
    modeb.run_shapes(ctx, "vecdist", shapes, body, max_paths=5000)
