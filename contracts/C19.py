"""C19 -- see DESIGN.md §8 C19."""
from pyvc.unit import unit
P = "C19"
REPLAYERS = {}
try:
    from contracts.rings import C19 as _ring
    REPLAYERS.update(getattr(_ring, "REPLAYERS", {}))
except ImportError:
    _ring = None
