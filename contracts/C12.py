"""C12 -- see DESIGN.md §8 C12."""
from pyvc.unit import unit
P = "C12"
REPLAYERS = {}
try:
    from contracts.rings import C12 as _ring
    REPLAYERS.update(getattr(_ring, "REPLAYERS", {}))
except ImportError:
    _ring = None

import itertools
import numpy, z3
from pyvc import sym, lemma
from pyvc.lemma import real, POW, pow_succ, pow_mul, pow_one, pow_zero
from pyvc.sym import SymInt, _t

VU = "pybrops/model/vmat/util.py"


@unit(P, "lemma[rprob_filial closed form satisfies the selfing recurrence; D1/D2 terms]", "L",
      targets=[VU + ":rprob_filial", VU + ":cov_D1s", VU + ":cov_D2s"])
def u_l_filial(ctx):
    """formulas obtained by running the real functions on symbolic r (real) and k (integer)"""
    from pybrops.model.vmat.util import rprob_filial, cov_D1s, cov_D2s
    ctx.trust(*lemma.TRUST)
    r = real("r")
    k = SymInt(z3.Int("k"))
    x = z3.RealVal("1/2") * (1 - 2 * r.t)
    rng = [0 <= r.t, r.t <= z3.RealVal("1/2")]
    rk, rk1 = rprob_filial(r, k), rprob_filial(r, k + 1)
    half, om = z3.RealVal("1/2"), 1 - 2 * r.t
    kk = z3.ToReal(k.t)
    inst = [pow_succ(half, kk), pow_succ(om, kk)]
    ctx.prove("rprob_filial: r_{k+1} == r + (1/2)(1-2r) r_k (closed form satisfies the selfing recurrence)",
              rng + [k.t >= 1] + inst, _t(rk1) == r.t + x * _t(rk))
    ctx.prove("rprob_filial: r_1 == r", rng + [pow_one(half), pow_one(om)], _t(rprob_filial(r, 1)) == r.t)
    ctx.prove("rprob_filial: concrete k=2,3 agree with two/three steps of the recurrence", rng,
              z3.And(_t(rprob_filial(r, 2)) == r.t + x * r.t, _t(rprob_filial(r, 3)) == r.t + x * (r.t + x * r.t)))
    rinf = rprob_filial(r, numpy.inf)
    ctx.prove("rprob_filial(inf) is the fixed point of the recurrence: r_inf == r + (1/2)(1-2r) r_inf", rng, _t(rinf) == r.t + x * _t(rinf))
    ctx.prove("rprob_filial: stays in [0, 1/2] (k = 1, 2, inf)", rng,
              z3.And(*[z3.And(_t(v) >= 0, _t(v) <= half) for v in (rprob_filial(r, 1), rprob_filial(r, 2), rinf)]))
    # D terms: nself selfings derive gametes from filial generation nself+1
    for ns in (0, 1, 2):
        ctx.prove("cov_D1s(nself=%d) == 1 - 2 r_(nself+1)" % ns, rng, _t(cov_D1s(r, ns)) == 1 - 2 * _t(rprob_filial(r, ns + 1)))
        d2 = cov_D2s(r, ns)
        spec = 1 - 4 * r.t + 4 * r.t * _t(rprob_filial(r, ns + 1))
        ctx.prove("cov_D2s(nself=%d) == 1 - 4r + 4r r_(nself+1)" % ns, rng, _t(d2) == spec)
    ctx.prove("cov_D1s(inf) == 1 - 2 r_inf", rng, _t(cov_D1s(r, numpy.inf)) == 1 - 2 * _t(rinf))
    ctx.prove("canary: r_{k+1} == r + (1-2r) r_k", rng + [k.t >= 1] + inst, _t(rk1) == r.t + 2 * x * _t(rk), expect="fail", timeout_ms=3000)


# ---------------------------------------------------------------------------------------------------
# mode B: the blocked double sum of the two-way matrices on symbolic genotypes, effects and positions

from pyvc import barr, modeb
VM = "pybrops/model/vmat/"
R = lambda x: (z3.ToReal(_t(x)) if _t(x).sort() == z3.IntSort() else _t(x))


def _inbred_pop(e, n, chroms):
    """inbred phased population with `chroms` = list of marker counts per chromosome; genetic positions symbolic and
    non-decreasing within each chromosome"""
    from pybrops.popgen.gmat.DensePhasedGenotypeMatrix import DensePhasedGenotypeMatrix
    p = sum(chroms)
    hap = barr.fresh("h", (n, p), "int8", 0, 1)
    mat = numpy.stack([hap, hap])            # inbred: both phases identical
    taxa = numpy.array(["T%d" % i for i in range(n)], dtype=object)
    chrgrp = numpy.array([c for c, k in enumerate(chroms) for _ in range(k)], dtype="int64")
    phypos = numpy.arange(p, dtype="int64")
    genpos = barr.fresh("g", (p,), "float64", 0, None)
    st = 0
    for k in chroms:
        for j in range(st + 1, st + k):
            e.assume(R(genpos[j - 1]) <= R(genpos[j]))
        st += k
    pg = DensePhasedGenotypeMatrix(mat=mat, taxa=taxa, taxa_grp=numpy.arange(n, dtype="int64"), vrnt_chrgrp=chrgrp,
                                   vrnt_phypos=phypos, vrnt_genpos=genpos)
    pg.group_vrnt()
    return pg, hap, genpos


@unit(P, "B[two-way DH genetic / genic variance == sum_ij (d_i u_i) D1(r_ij) (d_j u_j) per chromosome; symmetric; zero diagonal; chunk invariant]",
      "B", bounded=True,
      targets=[VM + "DenseTwoWayDHAdditiveGeneticVarianceMatrix.py:DenseTwoWayDHAdditiveGeneticVarianceMatrix.from_algmod",
               VM + "DenseTwoWayDHAdditiveGenicVarianceMatrix.py:DenseTwoWayDHAdditiveGenicVarianceMatrix.from_algmod"],
      note="bounded(shape): ntaxa<=3, nvrnt<=3 on 1-2 chromosomes, ntrait<=2, nself in {0,1,2,inf}, mem in {None,1,2}; haplotypes, "
           "marker effects and genetic positions symbolic; r_ij and D1 are the real mapfn / cov_D1s applied to the symbolic distance "
           "(their own contracts: C11 lemmas, the rprob_filial lemma unit)")
def u_b_twoway(ctx):
    ctx.trust(*lemma.TRUST)

    def body(e, shape, tag):
        from pybrops.model.vmat.DenseTwoWayDHAdditiveGeneticVarianceMatrix import DenseTwoWayDHAdditiveGeneticVarianceMatrix as GV
        from pybrops.model.vmat.DenseTwoWayDHAdditiveGenicVarianceMatrix import DenseTwoWayDHAdditiveGenicVarianceMatrix as NV
        from pybrops.model.gmod.DenseAdditiveLinearGenomicModel import DenseAdditiveLinearGenomicModel as A
        from pybrops.popgen.gmap.HaldaneMapFunction import HaldaneMapFunction
        from pybrops.model.vmat.util import cov_D1s
        n, chroms, t, nself, mem = shape
        p = sum(chroms)
        pg, hap, genpos = _inbred_pop(e, n, chroms)
        u = barr.fresh("u", (p, t), "float64")
        trait = numpy.array(["t%d" % i for i in range(t)], dtype=object)
        alg = A(beta=barr.fresh("b", (1, t), "float64"), u_misc=None, u_a=u, trait=trait)
        fn = HaldaneMapFunction()
        fr = modeb.Frame(hap=hap, genpos=genpos, u=u)
        out = GV.from_algmod(alg, pg, 1, 1, nself, fn, mem)
        V = out.mat
        e.prove(tag + ":shape", tuple(V.shape) == (n, n, t))
        bounds, st = [], 0
        for k in chroms:
            bounds.append((st, st + k))
            st += k

        def D(i, j):
            dist = z3.If(R(genpos[i]) >= R(genpos[j]), R(genpos[i]) - R(genpos[j]), R(genpos[j]) - R(genpos[i]))
            return R(cov_D1s(fn.mapfn(sym.SymReal(dist)), nself))
        for f in range(n):
            for m in range(n):
                for k in range(t):
                    d = [R(hap[f, i]) - R(hap[m, i]) for i in range(p)]
                    spec = sum((d[i] * R(u[i, k]) * D(i, j) * d[j] * R(u[j, k]) for a, b in bounds for i in range(a, b) for j in range(a, b)),
                               z3.RealVal(0))
                    if f == m:
                        e.prove(tag + ":genetic[%d,%d,%d]==0 (identical parents)" % (f, m, k), R(V[f, m, k]) == 0)
                    else:
                        e.prove(tag + ":genetic[%d,%d,%d]==blocked-double-sum" % (f, m, k), R(V[f, m, k]) == spec)
        e.prove(tag + ":genetic:symmetric", z3.And(*[R(V[f, m, k]) == R(V[m, f, k]) for f in range(n) for m in range(n) for k in range(t)]))
        e.prove(tag + ":genetic:labels-carried", list(out.taxa) == list(pg.taxa) and list(out.trait) == list(trait))
        e.prove(tag + ":frame:haplotypes-positions-effects-not-modified", fr.unchanged())
        e.prove(tag + ":canary:variance-is-zero", z3.And(*[R(V[f, m, k]) == 0 for f in range(n) for m in range(n) for k in range(t)]),
                expect="fail", timeout_ms=3000)
        gout = NV.from_algmod(alg, pg, 1, 1000 if mem is None else mem)
        W = gout.mat
        for f in range(n):
            for m in range(n):
                if f == m:
                    continue        # diagonal of the genic matrix: known finding C12-F41 (never written)
                for k in range(t):
                    d = [R(hap[f, i]) - R(hap[m, i]) for i in range(p)]
                    spec = sum((d[i] * R(u[i, k]) * d[i] * R(u[i, k]) for i in range(p)), z3.RealVal(0))
                    # the two parents' alleles are 0/1: decided per allele pattern (each case is a polynomial identity in the
                    # effects; the undivided query is a mixed integer/real nonlinear problem on which z3's run time is erratic)
                    goal = R(W[f, m, k]) == spec
                    hv = [_t(hap[f, i]) for i in range(p)] + [_t(hap[m, i]) for i in range(p)]
                    cases = []
                    for pat in itertools.product((0, 1), repeat=2 * p):
                        cases.append(z3.simplify(z3.substitute(goal, *[(hv[a_], z3.IntVal(pat[a_])) for a_ in range(2 * p)])))
                    e.prove(tag + ":genic[%d,%d,%d]==sum_i (d_i u_i)^2 (linkage ignored)" % (f, m, k), z3.And(*cases))
        return "ok"
    inf = numpy.inf
    shapes = [(2, (1,), 1, 0, 1024), (2, (2,), 1, 0, None), (2, (2,), 1, 1, 1), (2, (2, 1), 2, inf, 2), (3, (2,), 1, 2, 1)]
    if ctx.tier == "thorough":
        shapes += [(3, (3,), 1, 1, 2), (2, (2, 2), 1, 0, 1), (3, (1, 2), 2, inf, None)]
    modeb.run_shapes(ctx, "twoway", shapes, body, timeout_ms=30000)


UCP = "pybrops/breed/prot/sel/prob/UsefulnessCriterionSelectionProblem.py"


UC_UNIT = dict(name="B[usefulness criterion: _calc_uc == expected-parental-contribution mean + intensity * sqrt(variance of that cross)]",
               mode="B", bounded=True, targets=[UCP + ":UsefulnessCriterionSelectionProblemMixin._calc_uc"],
               note="bounded(shape): <=3 taxa, <=2 traits, 2-, 3- and 4-parent cross maps with the factory's own (possibly unequal) "
                    "expected parental genome contributions; breeding values, variances, contributions and the intensity symbolic")


def u_b_uc(ctx):
    ctx.trust(*lemma.TRUST)

    def body(e, shape, tag):
        from pybrops.breed.prot.sel.prob.UsefulnessCriterionSelectionProblem import UsefulnessCriterionSelectionProblemMixin as M
        n, t, npar, xmap = shape
        bv = barr.fresh("bv", (n, t), "float64")
        var = barr.fresh("v", (n,) * npar + (t,), "float64", 0, None)
        epgc = [sym.fresh_real("epgc%d" % k) for k in range(npar)]
        inten = sym.fresh_real("intensity")
        calls = []
        tok = dict(pg=object(), fn=object())

        class BVO:
            ntrait = t

            def unscale(self):
                return bv

        class VO:
            mat = var
        VO.epgc = tuple(epgc)

        class GM:
            def gebv(self, pg):
                calls.append(("gebv", pg))
                return BVO()
        gm = GM()

        class F:
            def from_gmod(self, **kw):
                calls.append(("from_gmod", kw))
                return VO()
        xm = numpy.array(xmap, dtype=int).reshape(-1, npar)
        uc = M._calc_uc(F(), 11, 13, 2, tok["fn"], inten, tok["pg"], gm, xm)
        e.prove(tag + ":shape", tuple(uc.shape) == (len(xm), t))
        fg = [c for c in calls if c[0] == "from_gmod"]
        e.prove(tag + ":variance-matrix-requested-for-this-model-population-and-design",
                len(fg) == 1 and fg[0][1].get("gmod") is gm and fg[0][1].get("pgmat") is tok["pg"] and fg[0][1].get("ncross") == 11
                and fg[0][1].get("nprogeny") == 13 and fg[0][1].get("nself") == 2 and fg[0][1].get("gmapfn") is tok["fn"]
                and ("gebv", tok["pg"]) in calls)
        for i, cc in enumerate(xm):
            for k in range(t):
                mean = sum((epgc[a].t * R(bv[int(cc[a]), k]) for a in range(npar)), z3.RealVal(0))
                v = R(var[tuple(int(x) for x in cc) + (k,)])
                # uc = mean + intensity * sqrt(v): stated without sqrt as (uc - mean)^2 == intensity^2 * v with the sign of intensity
                d = R(uc[i, k]) - mean
                e.prove(tag + ":uc[%d,%d]==sum_k epgc_k*bv[parent_k] + intensity*sqrt(var[cross])" % (i, k),
                        z3.And(d * d == inten.t * inten.t * v, z3.Implies(inten.t >= 0, d >= 0), z3.Implies(inten.t <= 0, d <= 0)))
        e.prove(tag + ":canary:midparent-mean", z3.And(*[R(uc[0, k]) * npar == sum((R(bv[int(xm[0][a]), k]) for a in range(npar)), z3.RealVal(0))
                                                         for k in range(t)]), expect="fail", timeout_ms=2000)
        return "ok"
    shapes = [(2, 1, 2, ((0, 1), (1, 1))), (3, 1, 3, ((0, 1, 2), (2, 2, 0))), (3, 2, 2, ((2, 0),)), (2, 1, 4, ((0, 1, 1, 0),))]
    modeb.run_shapes(ctx, "uc", shapes, body, timeout_ms=20000)


unit(P, UC_UNIT["name"], UC_UNIT["mode"], bounded=True, targets=UC_UNIT["targets"], note=UC_UNIT["note"])(u_b_uc)
