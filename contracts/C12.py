"""C12 -- see DESIGN.md §8 C12."""
from pyvc.unit import unit
P = "C12"
REPLAYERS = {}
try:
    from contracts.rings import C12 as _ring
    REPLAYERS.update(getattr(_ring, "REPLAYERS", {}))
except ImportError:
    _ring = None
