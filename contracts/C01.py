"""C01 -- Mendelian fidelity of all mating protocols (DESIGN §8 C01)."""
import numpy, z3
from pyvc.unit import unit
from pyvc import sym, npmodel, loopcut
from pyvc.sym import cur, _t, fresh_int
from pyvc.arr import EArr
from contracts import meiosis

P = "C01"
UTIL = "pybrops/breed/prot/mate/util.py"
CORE = "pybrops/core/util/mate.py"


@unit(P, "meiosis[mate/util.mat_meiosis]", "A2", targets=[UTIL + ":mat_meiosis"])
def u_mat_meiosis(ctx):
    meiosis.prove_meiosis(ctx, UTIL + ":mat_meiosis")


@unit(P, "meiosis[core/util/mate.dense_meiosis]", "A2", targets=[CORE + ":dense_meiosis"])
def u_dense_meiosis(ctx):
    meiosis.prove_meiosis(ctx, CORE + ":dense_meiosis")


def _prove_stack(ctx, target, callee, dh):
    """mat_mate / dense_cross (dh=False) and mat_dh / dense_dh (dh=True),
    checked against the meiosis *contract* (the callee body is not visible)"""
    calls = []
    f = loopcut.Extracted(target, overrides={callee: meiosis.meiosis_stub(calls)})
    name = f.name
    ex = ctx.explorer()
    ctx.trust(*meiosis.TRUST)

    def thunk():
        e = cur()
        del calls[:]
        n, p, t, t2 = fresh_int("n", 0), fresh_int("p", 0), fresh_int("t", 1), fresh_int("t2", 1)
        m1, m2 = fresh_int("m1", 2), fresh_int("m2", 2)
        xoprob = EArr.fresh("xoprob", (p,), numpy.float64)
        rng = meiosis.SymRng()
        q = z3.Int("q_k")

        def sel_arr(nm, tt):
            s = EArr.fresh(nm, (n,), numpy.int64)
            e.assume(z3.ForAll([q], z3.Implies(z3.And(0 <= q, q < n.t), z3.And(0 <= s._fn(q), s._fn(q) < tt.t))))
            return s
        fgeno = EArr.fresh("fgeno", (m1, t, p), numpy.int8)
        fsel = sel_arr("fsel", t)
        if dh:
            res = f(fgeno, fsel, xoprob, rng)
        else:
            mgeno = EArr.fresh("mgeno", (m2, t2, p), numpy.int8)
            msel = sel_arr("msel", t2)
            res = f(fgeno, mgeno, fsel, msel, xoprob, rng)
        e.prove(name + ":post:shape", z3.And(res.ndim == 3, _t(res.shape[0]) == 2, _t(res.shape[1]) == n.t,
                                            _t(res.shape[2]) == p.t))
        e.prove(name + ":calls-meiosis-%d-times" % (1 if dh else 2), len(calls) == (1 if dh else 2))
        r1, j1 = z3.Int(e.fresh_name("r")), z3.Int(e.fresh_name("j"))
        e.assume(z3.And(0 <= r1, r1 < n.t, 0 <= j1, j1 < p.t))
        c0 = calls[0]
        e.prove(name + ":post:copy0-is-gamete-of-%s" % ("the-parent" if dh else "female"),
                res.at(0, r1, j1) == fgeno.at(c0["ph"](r1, j1), fsel.at(r1), j1))
        e.prove(name + ":call0-args", c0["geno"] is fgeno and c0["sel"] is fsel and c0["rng"] is rng)
        if dh:
            e.prove(name + ":post:homozygous", res.at(0, r1, j1) == res.at(1, r1, j1))
            e.prove(name + ":canary:copy1-from-other-phase", res.at(1, r1, j1) == fgeno.at(1 - c0["ph"](r1, j1), fsel.at(r1), j1),
                    expect="fail", timeout_ms=1500)
        else:
            c1 = calls[1]
            e.prove(name + ":post:copy1-is-gamete-of-male",
                    res.at(1, r1, j1) == mgeno.at(c1["ph"](r1, j1), msel.at(r1), j1))
            e.prove(name + ":call1-args", c1["geno"] is mgeno and c1["sel"] is msel and c1["rng"] is rng)
            e.prove(name + ":canary:copies-swapped", res.at(0, r1, j1) == mgeno.at(c1["ph"](r1, j1), msel.at(r1), j1),
                    expect="fail", timeout_ms=1500)
        for ci, c_ in enumerate(calls):
            xq = c_["xoprob"]
            ok_x = isinstance(xq, EArr) and xq.ndim == 1
            e.prove(name + ":call%d-crossover-probabilities-are-the-caller's" % ci,
                    z3.And(_t(xq.shape[0]) == p.t, xq.at(j1) == xoprob.at(j1)) if ok_x else False)
        e.prove(name + ":entropy:draws-only-through-meiosis-on-rng", len(rng.log) == len(calls))
        return res
    with npmodel.patched_numpy():
        outs = ex.explore(thunk)
    ctx.absorb(ex)
    raised = [o for o in outs if isinstance(o, sym.Raised)]
    ctx.record(name + ":noraise", not raised, kind="noraise",
               detail="; ".join("%r" % r for r in raised) + ("\n" + raised[0].tb[-800:] if raised else ""))
    ctx.record(name + ":returns-on-some-path (cover)", any(isinstance(o, EArr) for o in outs), kind="cover")


@unit(P, "stack[mate/util.mat_mate]", "A2", targets=[UTIL + ":mat_mate"])
def u_mat_mate(ctx):
    _prove_stack(ctx, UTIL + ":mat_mate", "mat_meiosis", dh=False)


@unit(P, "stack[mate/util.mat_dh]", "A2", targets=[UTIL + ":mat_dh"])
def u_mat_dh(ctx):
    _prove_stack(ctx, UTIL + ":mat_dh", "mat_meiosis", dh=True)


@unit(P, "stack[core/util/mate.dense_cross]", "A2", targets=[CORE + ":dense_cross"])
def u_dense_cross(ctx):
    _prove_stack(ctx, CORE + ":dense_cross", "dense_meiosis", dh=False)


@unit(P, "stack[core/util/mate.dense_dh]", "A2", targets=[CORE + ":dense_dh"])
def u_dense_dh(ctx):
    _prove_stack(ctx, CORE + ":dense_dh", "dense_meiosis", dh=True)


# ---------------------------------------------------------------------------
# bounded ring: all seven real mate() methods on founders whose chromosome
# copies carry pairwise distinct codes, so provenance is read off the progeny
PROTOCOLS = {
    "SelfCross": ("pybrops.breed.prot.mate.SelfCross", 1, "sx", False),
    "TwoWayCross": ("pybrops.breed.prot.mate.TwoWayCross", 2, "2w", False),
    "TwoWayDHCross": ("pybrops.breed.prot.mate.TwoWayDHCross", 2, "dh", True),
    "ThreeWayCross": ("pybrops.breed.prot.mate.ThreeWayCross", 3, "3w", False),
    "ThreeWayDHCross": ("pybrops.breed.prot.mate.ThreeWayDHCross", 3, "dh", True),
    "FourWayCross": ("pybrops.breed.prot.mate.FourWayCross", 4, "4w", False),
    "FourWayDHCross": ("pybrops.breed.prot.mate.FourWayDHCross", 4, "dh", True),
}
META = ["vrnt_chrgrp", "vrnt_phypos", "vrnt_name", "vrnt_genpos", "vrnt_xoprob", "vrnt_hapgrp", "vrnt_mask",
        "vrnt_chrgrp_name", "vrnt_chrgrp_stix", "vrnt_chrgrp_spix", "vrnt_chrgrp_len"]


def allowed_sides(proto, row, nself):
    """founders whose copies may appear on (side 0, side 1) of a progeny"""
    r = list(row)
    if proto == "SelfCross":
        s = ({r[0]}, {r[0]})
    elif proto == "TwoWayCross":
        s = ({r[0]}, {r[1]})
    elif proto == "ThreeWayCross":
        s = ({r[0]}, {r[1], r[2]})
    elif proto == "FourWayCross":
        s = ({r[2], r[3]}, {r[0], r[1]})
    else:
        s = (set(r), set(r))
    if nself > 0:
        u = s[0] | s[1]
        s = (u, u)
    return s


def run_case(case):
    """execute one ring case on the real code; returns (violated, message)"""
    import importlib
    from pyvc import ring
    proto = case["proto"]
    modname, nparent, prefix, is_dh = PROTOCOLS[proto]
    cls = getattr(importlib.import_module(modname), proto)
    xoprob = numpy.array(case["xoprob"], dtype=float)
    # "unsorted": the parental markers are stored in an order that is not (chromosome, position) ascending and the matrix is not
    # grouped -- the progeny must carry exactly that layout over
    pg = ring.coded_founders(case["n"], len(xoprob), xoprob, case.get("chrgrp"), group=not case.get("unsorted"),
                             phypos=case.get("phypos"))
    if case.get("pattern") is not None:
        rng = ring.ScriptedRandomState(case["pattern"])
    else:
        rng = numpy.random.default_rng(case["seed"])
    pc0, fc0 = case.get("pc0", 0), case.get("fc0", 0)
    obj = cls(progeny_counter=pc0, family_counter=fc0, rng=rng)
    xconfig = numpy.array(case["xconfig"], dtype=int).reshape(-1, nparent)
    nm, npg = case["nmating"], case["nprogeny"]
    nm_a = numpy.repeat(nm, len(xconfig)) if isinstance(nm, int) else numpy.array(nm, dtype=int)
    np_a = numpy.repeat(npg, len(xconfig)) if isinstance(npg, int) else numpy.array(npg, dtype=int)
    before = ring.snapshot(pg, META + ["mat", "taxa", "taxa_grp"])
    xc_before = xconfig.copy()
    nm_arg = nm if isinstance(nm, int) else nm_a.copy()
    np_arg = npg if isinstance(npg, int) else np_a.copy()
    out = cls.mate(obj, pg, xconfig, nm_arg, np_arg, nself=case["nself"])
    # the per-cross count arrays are the caller's: a breeding loop passes the same arrays to the next call
    if not isinstance(nm, int) and not numpy.array_equal(nm_arg, nm_a):
        return True, "mate() modified the caller's nmating array: %r -> %r" % (nm_a.tolist(), nm_arg.tolist())
    if not isinstance(npg, int) and not numpy.array_equal(np_arg, np_a):
        return True, "mate() modified the caller's nprogeny array: %r -> %r" % (np_a.tolist(), np_arg.tolist())
    per_cross = nm_a * np_a
    total = int(per_cross.sum())
    mat = out.mat
    if mat.shape != (2, total, len(xoprob)):
        return True, "progeny matrix shape %s, expected (2,%d,%d)" % (mat.shape, total, len(xoprob))
    if mat.dtype != numpy.int8:
        return True, "progeny dtype %s" % mat.dtype
    cross_of = numpy.repeat(numpy.arange(len(xconfig)), per_cross)
    # names, families, counters
    exp_taxa = [prefix + str(pc0 + k).zfill(7) for k in range(total)]
    if list(out.taxa) != exp_taxa:
        return True, "taxa names %s != %s" % (list(out.taxa)[:6], exp_taxa[:6])
    if not numpy.array_equal(out.taxa_grp, fc0 + cross_of):
        return True, "family labels %s != %s" % (out.taxa_grp.tolist(), (fc0 + cross_of).tolist())
    if obj.progeny_counter != pc0 + total or obj.family_counter != fc0 + len(xconfig):
        return True, "counters (%s,%s) != (%s,%s)" % (obj.progeny_counter, obj.family_counter, pc0 + total, fc0 + len(xconfig))
    # provenance
    for k in range(total):
        sides = allowed_sides(proto, xconfig[cross_of[k]], case["nself"])
        for side in (0, 1):
            codes = mat[side, k, :]
            founders = set((codes // 2).tolist())
            if not founders <= sides[side]:
                return True, "progeny %d (cross %s) copy %d carries founders %s, allowed %s" % (
                    k, xconfig[cross_of[k]].tolist(), side, sorted(founders), sorted(sides[side]))
            sw = numpy.flatnonzero(codes[1:] != codes[:-1]) + 1
            bad = [int(j) for j in sw if not xoprob[j] > 0]
            if bad:
                return True, "progeny %d copy %d switches source at marker(s) %s where xoprob is 0" % (k, side, bad)
        if is_dh and not numpy.array_equal(mat[0, k], mat[1, k]):
            return True, "doubled haploid progeny %d is heterozygous" % k
    # frames
    after = ring.snapshot(pg, META + ["mat", "taxa", "taxa_grp"])
    for key in before:
        if not ring.same(before[key], after[key]):
            return True, "parental %s was modified" % key
    if not numpy.array_equal(xc_before, xconfig):
        return True, "xconfig was modified"
    for key in META:
        if not ring.same(getattr(out, key), before[key]):
            return True, "progeny %s differs from the parents' marker metadata" % key
    return False, "ok"


def gen_cases(rnd, tier):
    protos = list(PROTOCOLS)
    patterns = [None, None, [0.0, 0.25, 0.75], [0.75, 0.0, 0.25, 0.5], [0.0], [0.4999, 0.5, 0.0, 0.9]]
    n_cases = 70 if tier == "quick" else 1500
    for proto in protos:
        nparent = PROTOCOLS[proto][1]
        for c in range(n_cases):
            p = rnd.choice([1, 2, 3, 4, 5, 7])
            n = rnd.choice([1, 2, 3, 4, 5, 6])
            xo = [rnd.choice([0.0, 0.0, 0.5, 0.5, 1.0, 0.1, 0.3]) for _ in range(p)]
            if rnd.random() < 0.5 and p:
                xo[0] = 0.5
            ncross = rnd.choice([1, 1, 2, 3, 4])
            xconfig = [[rnd.randrange(n) for _ in range(nparent)] for _ in range(ncross)]
            # per-cross arrays include exact zeros (a cross that yields nothing must still own its family label)
            if rnd.random() < 0.35:
                nm = [rnd.choice([0, 1, 1, 2, 3]) for _ in range(ncross)]
            else:
                nm = rnd.choice([1, 2])
            if rnd.random() < 0.35:
                npg = [rnd.choice([0, 1, 1, 2, 3]) for _ in range(ncross)]
            else:
                npg = rnd.choice([1, 2, 3])
            pat = rnd.choice(patterns)
            # several chromosomes (sorted group labels), any crossover probability at a chromosome start, exact 0 included
            chrgrp = sorted(rnd.randrange(1, 4) for _ in range(p)) if rnd.random() < 0.5 else None
            unsorted, phypos = False, None
            if p >= 2 and rnd.random() < 0.25:
                unsorted = True
                chrgrp = [rnd.randrange(1, 4) for _ in range(p)]
                phypos = [10 * rnd.randrange(1, 50) for _ in range(p)]
                if chrgrp == sorted(chrgrp):
                    chrgrp = chrgrp[::-1] if chrgrp[0] != chrgrp[-1] else chrgrp
                    phypos = sorted(phypos, reverse=True)
            yield dict(proto=proto, n=n, xoprob=xo, xconfig=xconfig, nmating=nm, nprogeny=npg, chrgrp=chrgrp, unsorted=unsorted, phypos=phypos,
                       nself=rnd.choice([0, 0, 1, 2]), pattern=pat, seed=rnd.randrange(10 ** 6),
                       pc0=rnd.choice([0, 0, 5, 123456]), fc0=rnd.choice([0, 3]))


@unit(P, "ring[seven mate() protocols, coded founders]", "R", bounded=True,
      note="bounded: <=6 founders, <=7 markers, <=4 crosses, nself<=2, counts<=3, scripted and seeded generators")
def u_ring(ctx):
    ctx.rule = ("random small cross programmes per protocol (seeded by VERIF_SEED) on founders with pairwise distinct "
                "per-copy allele codes; a case is non-trivial if it produces >= 1 progeny; distinct by its full input")
    for case in gen_cases(ctx.rng, ctx.tier):
        try:
            bad, msg = run_case(case)
        except Exception as e:   # a crash of the real code on a valid input is a violation of 'follows the configuration'
            bad, msg = True, "exception %s: %s" % (type(e).__name__, e)
        ctx.case(repr(sorted(case.items())), nontrivial=True,
                 sample=dict(proto=case["proto"], xconfig=case["xconfig"], nmating=case["nmating"],
                             nprogeny=case["nprogeny"], nself=case["nself"], xoprob=case["xoprob"]))
        if bad:
            ctx.fail_input("ring:mate:%s" % case["proto"], case, cls="mate:%s" % case["proto"], message=msg)
            if len(ctx.failures) >= 3:
                break


def _replay_ring(case):
    try:
        return run_case(case)
    except Exception as e:
        return True, "exception %s: %s" % (type(e).__name__, e)


REPLAYERS = {"ring[seven mate() protocols, coded founders]": _replay_ring}


@unit(P, "ring[kernel mat_meiosis vs contract]", "R", bounded=True, targets=[UTIL + ":mat_meiosis"],
      note="bounded: n<=5, p<=6 scripted; thorough up to 60x300 and one 4100x4096 case")
def u_ring_k1(ctx):
    meiosis.ring_kernel(ctx, UTIL + ":mat_meiosis")


@unit(P, "ring[kernel dense_meiosis vs contract]", "R", bounded=True, targets=[CORE + ":dense_meiosis"],
      note="bounded: n<=5, p<=6 scripted; thorough up to 60x300 and one 4100x4096 case")
def u_ring_k2(ctx):
    meiosis.ring_kernel(ctx, CORE + ":dense_meiosis")


REPLAYERS["ring[kernel mat_meiosis vs contract]"] = meiosis.replay_kernel
REPLAYERS["ring[kernel dense_meiosis vs contract]"] = meiosis.replay_kernel


# ---------------------------------------------------------------------------
# the mate() protocols against the stack contracts (modular, all sizes)
from contracts import mateproto


def _reg_proto(name, scalar):
    rel, cls, npar, prefix = mateproto.PROTO[name]

    @unit(P, "proto[%s.mate, %s counts]" % (name, "scalar" if scalar else "per-cross array"), "A2", targets=[rel + ":" + cls + ".mate"])
    def u(ctx):
        (mateproto.prove_multi if name in mateproto.MULTI else mateproto.prove_simple)(ctx, name, scalar)
    return u


for _n in ("SelfCross", "TwoWayCross", "TwoWayDHCross", "ThreeWayCross", "ThreeWayDHCross", "FourWayCross", "FourWayDHCross"):
    for _s in (False, True):
        _reg_proto(_n, _s)
