"""C10 -- see DESIGN.md §8 C10."""
from pyvc.unit import unit
P = "C10"
REPLAYERS = {}
try:
    from contracts.rings import C10 as _ring
    REPLAYERS.update(getattr(_ring, "REPLAYERS", {}))
except ImportError:
    _ring = None

import numpy, z3
from pyvc import sym, barr, modeb, lemma
from pyvc.sym import cur, _t, ite
from pyvc.lemma import real

GMOD = "pybrops/model/gmod/DenseAdditiveLinearGenomicModel.py"


def _model(p, t, q=1):
    from pybrops.model.gmod.DenseAdditiveLinearGenomicModel import DenseAdditiveLinearGenomicModel
    beta = barr.fresh("beta", (q, t), "float64")
    u_a = barr.fresh("u", (p, t), "float64")
    trait = numpy.array(["t%d" % i for i in range(t)], dtype=object)
    return DenseAdditiveLinearGenomicModel(beta=beta, u_misc=None, u_a=u_a, trait=trait), beta, u_a


R = lambda x: (z3.ToReal(_t(x)) if _t(x).sort() == z3.IntSort() else _t(x))


@unit(P, "B[usl/lsl == definition; limits bracket every individual; equal when fixed]", "B", bounded=True,
      targets=[GMOD + ":DenseAdditiveLinearGenomicModel.usl_numpy", GMOD + ":DenseAdditiveLinearGenomicModel.lsl_numpy"],
      note="bounded(shape): ntaxa<=3, nvrnt<=2, ntrait<=2; genotypes 0..2, effects and intercepts symbolic reals")
def u_b_limits(ctx):
    def body(e, shape, tag):
        from pybrops.popgen.gmat.DenseGenotypeMatrix import DenseGenotypeMatrix
        n, p, t = shape
        ploidy = 2
        mat = barr.fresh("g", (n, p), "int8", 0, 2)
        gm = DenseGenotypeMatrix(mat=mat, ploidy=ploidy)
        model, beta, u = _model(p, t)
        usl, lsl = model.usl(gm), model.lsl(gm)
        cnt = [sum((mat[i, j] for i in range(n)), 0) for j in range(p)]
        tot = ploidy * n
        for k in range(t):
            up = z3.RealVal(0)
            lo = z3.RealVal(0)
            for j in range(p):
                uj = R(u[j, k])
                present, fixed = _t(cnt[j]) > 0, _t(cnt[j]) == tot       # allele 1 available / allele 0 lost
                up = up + ploidy * uj * z3.If(z3.If(uj > 0, present, fixed), 1, 0)
                lo = lo + ploidy * uj * z3.If(z3.If(uj > 0, fixed, present), 1, 0)
            e.prove(tag + ":usl==ploidy*sum(u*indicator)[trait %d]" % k, R(usl[k]) == up)
            e.prove(tag + ":lsl==ploidy*sum(u*indicator)[trait %d]" % k, R(lsl[k]) == lo)
        gebv = model.gebv_numpy(mat)
        for i in range(n):
            for k in range(t):
                e.prove(tag + ":lsl<=gebv[%d,%d]<=usl" % (i, k), z3.And(R(lsl[k]) <= R(gebv[i, k]), R(gebv[i, k]) <= R(usl[k])))
        allfixed = z3.And(*[z3.Or(_t(cnt[j]) == 0, _t(cnt[j]) == tot) for j in range(p)])
        saved = list(e.assumptions)
        e.assume(allfixed)
        for k in range(t):
            e.prove(tag + ":fixed-population:usl==lsl==common-value[trait %d]" % k,
                    z3.And(R(usl[k]) == R(lsl[k]), *[R(gebv[i, k]) == R(usl[k]) for i in range(n)]))
        e.assumptions[:] = saved
        # raw array input gives the same limits; unscale adds the intercept contrast to both
        e.prove(tag + ":raw-array-input-agrees", z3.And(modeb.eq(model.usl(mat, ploidy), usl), modeb.eq(model.lsl(mat, ploidy), lsl)))
        uu, ll = model.usl(gm, unscale=True), model.lsl(gm, unscale=True)
        e.prove(tag + ":unscale-adds-intercept", z3.And(*[z3.And(R(uu[k]) == R(usl[k]) + R(beta[0, k]), R(ll[k]) == R(lsl[k]) + R(beta[0, k]))
                                                      for k in range(t)]))
        e.prove(tag + ":canary:usl==lsl+1", R(usl[0]) == R(lsl[0]) + 1, expect="fail", timeout_ms=2000)
        return "ok"
    shapes = [(1, 1, 1), (2, 1, 2), (2, 2, 1), (3, 2, 1)] + ([(3, 2, 2), (2, 3, 1)] if ctx.tier == "thorough" else [])
    modeb.run_shapes(ctx, "limits", shapes, body)


@unit(P, "L[per-locus bracket and tightening lemmas; meiosis/selection cannot regenerate a lost allele]", "L", targets=[])
def u_l_lemmas(ctx):
    ctx.trust("sum of per-locus inequalities (monotonicity of finite sums)")
    u, p, p2 = z3.Real("u"), z3.Real("p"), z3.Real("p2")
    d, pl = z3.Int("d"), z3.Int("ploidy")
    up = lambda pp: pl * u * z3.If(z3.If(u > 0, pp > 0, pp >= 1), 1, 0)
    lo = lambda pp: pl * u * z3.If(z3.If(u > 0, pp >= 1, pp > 0), 1, 0)
    pre = [pl >= 1, 0 <= d, d <= pl, 0 <= p, p <= 1, z3.Implies(d > 0, p > 0), z3.Implies(d < pl, p < 1)]
    ctx.prove("bracket:per-locus ploidy*u*I_low <= u*d <= ploidy*u*I_up", pre, z3.And(lo(p) <= u * d, u * d <= up(p)))
    # closed history: availability only shrinks:  p == 0 stays 0, p == 1 stays 1
    hist = [pl >= 1, 0 <= p, p <= 1, 0 <= p2, p2 <= 1, z3.Implies(p == 0, p2 == 0), z3.Implies(p == 1, p2 == 1)]
    ctx.prove("tighten:upper-term-never-increases", hist, up(p2) <= up(p))
    ctx.prove("tighten:lower-term-never-decreases", hist, lo(p2) >= lo(p))
    ctx.prove("canary:upper-term-never-decreases", hist, up(p2) >= up(p), expect="fail", timeout_ms=3000)
    # closure under mating: from the meiosis contract gamete[r,j] == geno[ph(r,j), sel[r], j] with ph in {0,1}:
    # if every parental copy carries allele a at locus j, so does every gamete (hence every progeny copy)
    G = z3.Function("geno", z3.IntSort(), z3.IntSort(), z3.IntSort(), z3.IntSort())
    ph = z3.Function("ph", z3.IntSort(), z3.IntSort(), z3.IntSort())
    sel = z3.Function("sel", z3.IntSort(), z3.IntSort())
    r, j, a, m, tt, T = z3.Ints("r j a m tt T")
    gam = G(ph(r, j), sel(r), j)
    fixed_j = z3.ForAll([m, tt], z3.Implies(z3.And(0 <= m, m <= 1, 0 <= tt, tt < T), G(m, tt, j) == a))
    ctx.prove("closure:meiosis-contract-preserves-fixation-at-a-locus",
              [z3.Or(ph(r, j) == 0, ph(r, j) == 1), 0 <= sel(r), sel(r) < T, fixed_j], gam == a)
    # closure under selection: select_taxa is TAKE along the taxa axis (C03): row k of the result is row idx[k] of the input
    idx = z3.Function("idx", z3.IntSort(), z3.IntSort())
    k = z3.Int("k")
    ctx.prove("closure:selection-(take)-preserves-fixation-at-a-locus",
              [0 <= idx(k), idx(k) < T, 0 <= m, m <= 1, fixed_j], G(m, idx(k), j) == a)
    ctx.assume_note("closure lemmas use the meiosis contract proved under C01 and the TAKE position map of C03")


@unit(P, "B[usl_numpy/lsl_numpy on an arbitrary frequency vector == ploidy*sum(u*indicator)]", "B", bounded=True,
      targets=[GMOD + ":DenseAdditiveLinearGenomicModel.usl_numpy", GMOD + ":DenseAdditiveLinearGenomicModel.lsl_numpy"],
      note="bounded(shape): nvrnt<=2, ntrait<=2; the frequencies are arbitrary reals in [0,1] (any population size), effects arbitrary reals")
def u_b_limits_freq(ctx):
    def body(e, shape, tag):
        p, t = shape
        ploidy = 2
        model, beta, u = _model(p, t)
        freq = barr.fresh("p", (p,), "float64", 0, 1)
        usl, lsl = model.usl_numpy(freq, ploidy), model.lsl_numpy(freq, ploidy)
        for k in range(t):
            up = z3.RealVal(0)
            lo = z3.RealVal(0)
            for j in range(p):
                uj, pj = R(u[j, k]), R(freq[j])
                up = up + ploidy * uj * z3.If(z3.If(uj > 0, pj > 0, pj >= 1), 1, 0)
                lo = lo + ploidy * uj * z3.If(z3.If(uj > 0, pj >= 1, pj > 0), 1, 0)
            e.prove(tag + ":usl_numpy==definition[trait %d]" % k, R(usl[k]) == up)
            e.prove(tag + ":lsl_numpy==definition[trait %d]" % k, R(lsl[k]) == lo)
        return "ok"
    modeb.run_shapes(ctx, "limits_freq", [(1, 1), (2, 1), (1, 2), (2, 2)], body)
