"""C10 -- see DESIGN.md §8 C10."""
from pyvc.unit import unit
P = "C10"
REPLAYERS = {}
try:
    from contracts.rings import C10 as _ring
    REPLAYERS.update(getattr(_ring, "REPLAYERS", {}))
except ImportError:
    _ring = None
