"""C08 -- see DESIGN.md §8 C08."""
from pyvc.unit import unit
P = "C08"
REPLAYERS = {}
try:
    from contracts.rings import C08 as _ring
    REPLAYERS.update(getattr(_ring, "REPLAYERS", {}))
except ImportError:
    _ring = None
