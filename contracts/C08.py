"""C08 -- see DESIGN.md §8 C08."""
from pyvc.unit import unit
P = "C08"
REPLAYERS = {}
try:
    from contracts.rings import C08 as _ring
    REPLAYERS.update(getattr(_ring, "REPLAYERS", {}))
except ImportError:
    _ring = None

import ast
import numpy, z3
from pyvc import sym, loopcut, frames
from pyvc.sym import cur

PRNG = "pybrops/core/random/prng.py"
SAMP = "pybrops/core/random/sampling.py"
ADDON = "pybrops/opt/algo/pymoo_addon.py"
MATE = "pybrops/breed/prot/mate/"
CFG = "pybrops/breed/prot/sel/cfg/"

# functions whose contract includes DrawsOnlyFrom(<designated generator>)
FRAMED = [
    (SAMP, "stochastic_universal_sampling"), (SAMP, "tiled_choice"), (SAMP, "axis_shuffle"), (SAMP, "outcross_shuffle"),
    (MATE + "util.py", "mat_meiosis"), (MATE + "util.py", "mat_dh"), (MATE + "util.py", "mat_mate"),
    ("pybrops/core/util/mate.py", "dense_meiosis"), ("pybrops/core/util/mate.py", "dense_dh"), ("pybrops/core/util/mate.py", "dense_cross"),
    (MATE + "SelfCross.py", "SelfCross.mate"), (MATE + "TwoWayCross.py", "TwoWayCross.mate"), (MATE + "TwoWayDHCross.py", "TwoWayDHCross.mate"),
    (MATE + "ThreeWayCross.py", "ThreeWayCross.mate"), (MATE + "ThreeWayDHCross.py", "ThreeWayDHCross.mate"),
    (MATE + "FourWayCross.py", "FourWayCross.mate"), (MATE + "FourWayDHCross.py", "FourWayDHCross.mate"),
    ("pybrops/breed/prot/pt/G_E_Phenotyping.py", "G_E_Phenotyping.phenotype"),
    (CFG + "SubsetSelectionConfiguration.py", "SubsetSelectionConfiguration.sample_xconfig"),
    (CFG + "RealSelectionConfiguration.py", "RealSelectionConfiguration.sample_xconfig"),
    (CFG + "IntegerSelectionConfiguration.py", "IntegerSelectionConfiguration.sample_xconfig"),
    (CFG + "BinarySelectionConfiguration.py", "BinarySelectionConfiguration.sample_xconfig"),
    (CFG + "SubsetMateSelectionConfiguration.py", "SubsetMateSelectionConfiguration.sample_xconfig"),
    ("pybrops/opt/algo/SteepestDescentSubsetHillClimber.py", "SteepestDescentSubsetHillClimber.minimize"),
    ("pybrops/opt/algo/SortingSteepestDescentSubsetHillClimber.py", "SortingSteepestDescentSubsetHillClimber.minimize"),
    # operators that are handed pymoo's random_state: known finding C08-F7b (they use numpy.random)
    (ADDON, "tiled_choice"), (ADDON, "SubsetRandomSampling._do"), (ADDON, "ReducedExchangeCrossover._do"),
    (ADDON, "ReducedExchangeMutation._do"),
]


@unit(P, "frame[entropy sources: stochastic functions draw only from their designated generator]", "A1",
      targets=["%s:%s" % t for t in FRAMED])
def u_frames(ctx):
    ctx.trust("entropy frame analysis is syntactic per function (pyvc/frames.py): every reference to a module-level stream, "
              "global_prng (outside `if x is None: x = global_prng`), a generator constructor, time/os.urandom/uuid is a frame violation")
    for rel, q in FRAMED:
        node = frames.function_node(rel, q)
        refs = frames.entropy_refs(node)
        base = "frame:%s:%s:draws-only-from-designated-generator" % (rel.split("/")[-1], q)
        if not refs:
            ctx.record(base, True, kind="frame")
        # one obligation per distinct source referenced: a recorded finding names the sources it is about, so a NEW source in a
        # function that already has a recorded one is a new failed obligation, not part of the old finding
        for d in sorted({d for _, d in refs}):
            ctx.record("%s:no-reference-to:%s" % (base, d), False, kind="frame",
                       detail="entropy references outside the frame: %s" % [r for r in refs if r[1] == d])
    # no helper with a generator of its own (third-party helpers seeded from the operating system): neither prng.seed nor an explicit
    # generator would reach it.  Every function and method of the operator module and every framed function.
    tree = ast.parse(loopcut.read_source(ADDON))
    nodes = []
    for c in tree.body:
        if isinstance(c, ast.FunctionDef):
            nodes.append((ADDON, c.name, c))
        elif isinstance(c, ast.ClassDef):
            nodes += [(ADDON, "%s.%s" % (c.name, f.name), f) for f in c.body if isinstance(f, ast.FunctionDef)]
    nodes += [(rel, q, frames.function_node(rel, q)) for rel, q in FRAMED if rel != ADDON]
    trees = {}
    for rel, q, node in nodes:
        if rel not in trees:
            trees[rel] = ast.parse(loopcut.read_source(rel))
        refs = frames.hidden_rng_calls(node, trees[rel])
        ctx.record("frame:%s:%s:no-helper-with-its-own-unseeded-generator" % (rel.split("/")[-1], q), not refs, kind="frame",
                   detail="calls that draw from a generator nobody can seed: %s" % refs)
    # setters: rng=None resolves to global_prng and nothing else
    for rel, q in [(MATE + "TwoWayCross.py", "TwoWayCross.rng"),
                   (CFG + "SampledSelectionConfigurationMixin.py", "SampledSelectionConfigurationMixin.rng")]:
        try:
            cls, attr = q.split(".")
            tree = ast.parse(loopcut.read_source(rel))
            setter = [f for c in tree.body if isinstance(c, ast.ClassDef) and c.name == cls for f in c.body
                      if isinstance(f, ast.FunctionDef) and f.name == attr and any(
                          isinstance(d, ast.Attribute) and d.attr == "setter" for d in f.decorator_list)]
            refs = frames.entropy_refs(setter[0]) if setter else [("?", "setter not found")]
        except Exception as e:
            refs = [("?", repr(e))]
        ctx.record("frame:%s:%s.setter:None-resolves-to-global_prng-only" % (rel.split("/")[-1], q), not refs, kind="frame", detail=str(refs))


class _Rec:
    """records attribute reads/writes and calls made on a module proxy; every result is again a recording proxy,
    so any chain of calls the function under contract makes is logged instead of crashing the harness"""

    def __init__(self, name, log, rets=None):
        object.__setattr__(self, "_n", name)
        object.__setattr__(self, "_log", log)
        object.__setattr__(self, "_rets", rets or {})

    def __getattr__(self, a):
        if a.startswith("__") and a.endswith("__"):
            raise AttributeError(a)
        return _Rec(self._n + "." + a, self._log, self._rets)

    def __setattr__(self, a, v):
        self._log.append((self._n + "." + a + "=", (v,), ()))

    def __call__(self, *args, **kw):
        self._log.append((self._n, args, tuple(sorted(kw.items()))))
        r = self._rets.get(self._n.split(".")[-1])
        if callable(r):
            return r(*args, **kw)
        if r is not None:
            return r
        return _Rec(self._n + "()", self._log, self._rets)

    def __repr__(self):
        return "<%s>" % self._n


@unit(P, "trace[prng.seed / prng.spawn touch exactly the python stream and numpy's legacy seed]", "A1",
      targets=[PRNG + ":seed", PRNG + ":spawn"])
def u_seed(ctx):
    """proxy execution of the real seed()/spawn() with recording stand-ins for the `random` and `numpy` modules"""
    log = []
    tok = object()
    draws = []

    def _draw(kind):
        def f_(*a):
            v = (kind,) + a + (len(draws),)
            draws.append(v)
            return v
        return f_
    pyr = _Rec("py_random", log, {k_: _draw(k_) for k_ in ("randint", "getrandbits", "randrange", "random")})
    npx = _Rec("numpy", log)
    gpx = _Rec("global_prng", log)
    import pybrops.core.random.prng as _prng_mod
    f = loopcut.Extracted(PRNG + ":seed", overrides={"py_random": pyr, "numpy": npx, "global_prng": gpx})
    try:
        with loopcut.patched_globals(_prng_mod, py_random=pyr, numpy=npx, global_prng=gpx):     # helpers of the module see the stand-ins too
            f(tok)
    except Exception as ex_:       # the function left the recorded protocol in a way the proxies cannot follow
        log.append(("raised %r" % (ex_,), (), ()))
    names = [c[0] for c in log]
    DRAW = {"py_random.randint", "py_random.getrandbits", "py_random.randrange", "py_random.random"}
    NPSEED = {"numpy.random.seed", "global_prng.seed"}
    ctx.record("seed: the python stream is seeded with s before anything is drawn from it",
               names[:1] == ["py_random.seed"] and log[0][1] == (tok,) and names.count("py_random.seed") == 1, detail=str(log))
    nps = [c for c in log if c[0] in NPSEED]
    ctx.record("seed: numpy's global stream is re-seeded through its seed() entry point (which resets the whole state, cached "
               "deviates included) with a value that is s or was drawn from the freshly seeded python stream",
               len(nps) >= 1 and all(len(c[1]) == 1 and (c[1][0] is tok or c[1][0] in draws) for c in nps), detail=str(log))
    other = [n for n in names if n not in DRAW | NPSEED | {"py_random.seed"}]
    ctx.record("seed: no other entropy API touched (no generator constructed, no state assigned, no clock / OS entropy)",
               not other, detail=str(other))
    # spawn: generators seeded only from the python stream
    log2 = []
    pyr2 = _Rec("py_random", log2, {"getrandbits": lambda b: ("bits", b), "randint": lambda lo, hi: ("randint", lo, hi)})
    made = []

    def Gen(bitgen):
        made.append(bitgen)
        return ("Generator", bitgen)

    def BG(seed):
        return ("BitGenerator", seed)
    g = loopcut.Extracted(PRNG + ":spawn", overrides={"py_random": pyr2, "Generator": Gen, "PCG64": BG})
    try:
        with loopcut.patched_globals(_prng_mod, py_random=pyr2, Generator=Gen, PCG64=BG):
            one = g(None, BG, 64)
            many = g(3, BG, 64)
    except Exception as ex_:
        one, many = None, None
        log2.append(("raised %r" % (ex_,), (), ()))
    src = [c[0] for c in log2]
    ctx.record("spawn: every new stream is seeded from the python stream only", set(src) <= {"py_random.getrandbits", "py_random.randint"}
               and len(src) == 4 and len(made) == 4, detail=str(log2))
    ctx.record("spawn: n=None gives one generator, n=3 a list of three", isinstance(one, tuple) and isinstance(many, list) and len(many) == 3,
               detail=str((one, many)))


@unit(P, "alias[copies of a stochastic component that draws from the global stream keep drawing from the global stream]", "A1", targets=[])
def u_copy_alias(ctx):
    """A component built with rng=None draws from global_prng, which prng.seed() re-seeds.  A copy that holds a CLONE of that
    stream no longer follows re-seeding.  Obligation per copy method (found by an AST scan of the package: __copy__ /
    __deepcopy__ of classes that mention rng): executed on a source whose rng IS global_prng, with copy.copy / copy.deepcopy
    replaced by cloning stand-ins, the copy's rng is global_prng itself."""
    import os
    from pyvc import REPO
    from pybrops.core.random.prng import global_prng
    found = 0
    for root, dirs, files in os.walk(os.path.join(REPO, "pybrops")):
        dirs[:] = sorted(d for d in dirs if d != "__pycache__")
        for fn in sorted(files):
            if not fn.endswith(".py"):
                continue
            rel = os.path.relpath(os.path.join(root, fn), REPO)
            try:
                tree = ast.parse(loopcut.read_source(rel))
            except SyntaxError:
                continue
            for c in tree.body:
                if not isinstance(c, ast.ClassDef):
                    continue
                for m in c.body:
                    if isinstance(m, ast.FunctionDef) and m.name in ("__copy__", "__deepcopy__") and any(
                            (isinstance(n, ast.Attribute) and n.attr in ("rng", "_rng")) or (isinstance(n, ast.keyword) and n.arg == "rng")
                            for n in ast.walk(m)):
                        found += 1
                        ctx.extra_files = getattr(ctx, "extra_files", set()) | {rel}
                        made = []

                        class Src:
                            def __init__(self, **kw):
                                if kw:
                                    self.kw = kw
                                    made.append(self)

                            def __getattr__(self, a):
                                if a in ("rng", "_rng"):
                                    return global_prng
                                if a.startswith("__"):
                                    raise AttributeError(a)
                                return loopcut.Token("self." + a)

                        class Copy:
                            @staticmethod
                            def copy(x):
                                return ("clone", x)

                            @staticmethod
                            def deepcopy(x, memo=None):
                                return ("clone", x)
                        name = "alias:%s:%s.%s" % (rel.split("/")[-1], c.name, m.name)
                        try:
                            f = loopcut.Extracted(rel + ":" + c.name + "." + m.name, overrides={"copy": Copy})
                            out = f(Src(), {}) if m.name == "__deepcopy__" else f(Src())
                            rng = None
                            if made:
                                rng = made[-1].kw.get("rng", getattr(made[-1], "_set_rng", None))
                            ok = len(made) == 1 and out is made[0] and rng is global_prng
                            ctx.record(name + ":copy-of-a-global-stream-component-draws-from-global_prng", ok, kind="frame",
                                       detail="constructed %d object(s); rng handed to the copy: %r" % (len(made), rng))
                        except Exception as ex_:
                            ctx.record(name + ":harness-followed-the-method", False, kind="unsupported",
                                       detail="UNSUPPORTED %r" % (ex_,))
    ctx.record("alias:copy-methods-of-stochastic-components-found", found >= 2, kind="cover", detail="%d methods" % found)


# ---------------------------------------------------------------------------
# native: the operator module's own tiling helper (the hill-climbing mutators order their moves with it) is a function of the
# global numpy stream that prng.seed seeds -- same seed, same result, whatever ran before
def _addon_tiling_case(case):
    import numpy as np
    from pybrops.opt.algo import pymoo_addon
    from pybrops.core.random import prng
    st = np.random.get_state()
    try:
        outs = []
        for noise in (0, case["noise"]):
            prng.seed(case["seed"])
            outs.append(np.asarray(pymoo_addon.tiled_choice(case["a"], case["size"])).tolist())
            np.random.random(noise)                     # different history before the next re-seeding
        ok_vals = all(0 <= v < case["a"] for v in outs[0]) and len(outs[0]) == case["size"]
    finally:
        np.random.set_state(st)
    if not ok_vals:
        return True, "tiled_choice(%d, %d) = %r: not %d values in [0, %d)" % (case["a"], case["size"], outs[0], case["size"], case["a"])
    if outs[0] != outs[1]:
        return True, "after prng.seed(%d) pymoo_addon.tiled_choice(%d, %d) gave %r, after re-seeding with the same seed %r" % (
            case["seed"], case["a"], case["size"], outs[0], outs[1])
    return False, "ok"


@unit(P, "ring[operator module's tiling helper is reproducible after prng.seed]", "R", bounded=True, targets=[ADDON + ":tiled_choice"],
      note="bounded: 300 (thorough 6000) seeded (a, size) pairs with a <= 9 and size <= 30: no complete tile, exactly one, several with and without remainder")
def u_ring_addon_tiling(ctx):
    ctx.rule = "seeded cases; every case non-trivial; distinct by its input"
    for c in range(300 if ctx.tier == "quick" else 6000):
        a = ctx.rng.randrange(1, 10)
        case = dict(a=a, size=ctx.rng.choice([ctx.rng.randrange(0, 31), a, 2 * a, 2 * a + 1]), seed=ctx.rng.randrange(2 ** 31), noise=ctx.rng.randrange(0, 50))
        try:
            bad, msg = _addon_tiling_case(case)
        except Exception as x:
            bad, msg = True, "exception %s: %s" % (type(x).__name__, x)
        ctx.case(repr(sorted(case.items())), nontrivial=True, sample=case if c < 2 else None)
        if bad:
            ctx.fail_input("ring:addon-tiling:reproducible", case, cls="addon-tiling", message=msg)
            if len(ctx.failures) >= 3:
                return


REPLAYERS["ring[operator module's tiling helper is reproducible after prng.seed]"] = _addon_tiling_case


# ---------------------------------------------------------------------------
# native: a seeded simulation is a function of the seed -- not of what the process' memory held before.  Expected maximum breeding
# values with per-taxon replicate counts, computed twice from the same seed, once with numpy.empty handing out zeros and once with
# numpy.empty handing out a large sentinel (whatever an uninitialised buffer may contain must not reach the result)
def _embv_case(case):
    import contextlib
    import warnings
    import numpy as np
    from pybrops.core.random import prng
    from pybrops.popgen.gmat.DensePhasedGenotypeMatrix import DensePhasedGenotypeMatrix
    from pybrops.model.gmod.DenseAdditiveLinearGenomicModel import DenseAdditiveLinearGenomicModel
    from pybrops.model.embvmat.DenseExpectedMaximumBreedingValueMatrix import DenseExpectedMaximumBreedingValueMatrix as E_
    rs = np.random.RandomState(case["seed"])
    n, p, t = case["n"], case["p"], case["t"]
    pg = DensePhasedGenotypeMatrix(mat=rs.randint(0, 2, size=(2, n, p)).astype("int8"), vrnt_chrgrp=np.ones(p, dtype="int64"),
                                   vrnt_phypos=np.arange(1, p + 1, dtype="int64"), vrnt_xoprob=np.array([0.5] + [0.3] * (p - 1)),
                                   taxa=np.array(["t%d" % i for i in range(n)], dtype=object), taxa_grp=np.arange(n, dtype="int64"))
    pg.group_vrnt()
    gm = DenseAdditiveLinearGenomicModel(beta=rs.normal(size=(1, t)), u_misc=None, u_a=rs.normal(size=(p, t)),
                                         trait=np.array(["y%d" % k for k in range(t)], dtype=object))

    @contextlib.contextmanager
    def filled(value):
        real = np.empty

        def empty(*a, **k):
            out = real(*a, **k)
            if out.dtype.kind == "f":
                out.fill(value)
            return out
        np.empty = empty
        try:
            yield
        finally:
            np.empty = real
    st = np.random.get_state()
    outs = []
    try:
        for fillv in (0.0, 1.0e6):
            prng.seed(case["seed"] % (2 ** 31))
            with filled(fillv), warnings.catch_warnings():
                warnings.simplefilter("ignore")
                em = E_.from_gmod(gm, pg, case["nprogeny"], np.array(case["nrep"], dtype="int64") if isinstance(case["nrep"], list) else case["nrep"])
            outs.append(np.array(em.unscale(), copy=True))
    finally:
        np.random.set_state(st)
    if outs[0].shape != (n, t) or not np.all(np.isfinite(outs[0])) or not np.all(np.isfinite(outs[1])):
        return True, "expected maximum breeding values of shape %r with non-finite entries" % (outs[0].shape,)
    if not np.array_equal(outs[0], outs[1]):
        return True, ("same seed %d, same calls, nrep %r: expected maximum breeding values differ with the content of freshly allocated "
                      "(uninitialised) buffers: %r vs %r" % (case["seed"], case["nrep"], outs[0].tolist(), outs[1].tolist()))
    return False, "ok"


@unit(P, "ring[seeded expected-maximum-breeding-value simulation does not depend on uninitialised memory]", "R", bounded=True,
      targets=["pybrops/model/embvmat/DenseExpectedMaximumBreedingValueMatrix.py:DenseExpectedMaximumBreedingValueMatrix.from_gmod"],
      note="bounded: 40 (thorough 600) seeded cases, <=4 taxa, <=5 markers, <=2 traits, scalar and per-taxon replicate counts 1-3")
def u_ring_embv(ctx):
    ctx.rule = "seeded cases; numpy's global generator saved and restored; every case counted; distinct by the case"
    for c in range(40 if ctx.tier == "quick" else 600):
        n = ctx.rng.choice([2, 3, 4])
        nrep = ctx.rng.choice([2, [ctx.rng.choice([1, 2, 3]) for _ in range(n)], [ctx.rng.choice([1, 2, 3]) for _ in range(n)]])
        case = dict(seed=ctx.rng.randrange(10 ** 9), n=n, p=ctx.rng.choice([2, 3, 5]), t=ctx.rng.choice([1, 2]), nprogeny=ctx.rng.choice([1, 2, 3]), nrep=nrep)
        try:
            bad, msg = _embv_case(case)
        except Exception as x:
            bad, msg = True, "exception %s: %s" % (type(x).__name__, x)
        ctx.case(repr(sorted(case.items(), key=str)), nontrivial=True, sample=case if c < 2 else None)
        if bad:
            ctx.fail_input("ring:embv:independent-of-uninitialised-memory", case, cls="embv-memory", message=msg)
            if len(ctx.failures) >= 3:
                return


REPLAYERS["ring[seeded expected-maximum-breeding-value simulation does not depend on uninitialised memory]"] = _embv_case
