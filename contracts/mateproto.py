"""Contracts of the seven mate() protocols (C01/C02), verified modularly in mode A2.

The real `mate()` is extracted from the repository (loops cut by the invariants below) and executed on
  * a parental matrix stub whose `mat` / `vrnt_xoprob` are element-level symbolic arrays of symbolic shape,
  * a symbolic cross configuration (entries in [0, ntaxa)), per-cross count arrays (or scalars), symbolic `nself`,
  * contract stubs of `mat_mate` / `mat_dh` (their postconditions are the proved stack units of C01),
  * a recording stand-in for the DensePhasedGenotypeMatrix constructor (its own contract is C03's WF obligation).

Ghost functions: every `numpy.repeat(., counts)` has a position map fam_counts : progeny -> run index (pyvc.npmodel.repeat_map);
each stub call has phase functions PH0/PH1 with values in {0,1}.

What is proved, for all shapes, counts, configurations, selfing depths and generator outcomes:
  count     progeny number == sum of the per-cross counts (the length of the repeat map)
  lineage   every allele of progeny t at marker j is an allele of a configured parent of family(t) at marker j,
            phase 0 through the female-side lineage and phase 1 through the male-side lineage when nself == 0
  step      the last meiosis is a stub call whose parent matrix/selection are the previous stage (mosaic: callee contract)
  labels    taxa[t] == prefix + str(counter0 + t).zfill(7), taxa_grp[t] == family_counter0 + family(t), counters advanced exactly
  frame     parental matrix and metadata objects passed through by identity, never written; generator only handed to the stubs
"""
import numpy, z3
from pyvc import sym, loopcut, npmodel
from pyvc.arr import EArr
from pyvc.sym import cur, _t, fresh_int, SymInt, wrap
from pyvc.loopcut import STRPAD, CAT, str_lit, str_axioms, STR_TRUST

MATE = "pybrops/breed/prot/mate/"
META = ("vrnt_chrgrp", "vrnt_phypos", "vrnt_name", "vrnt_genpos", "vrnt_xoprob", "vrnt_hapgrp", "vrnt_mask")
META_ATTR = ("vrnt_chrgrp_name", "vrnt_chrgrp_stix", "vrnt_chrgrp_spix", "vrnt_chrgrp_len")

# protocol -> (file, class, number of parents, name prefix)
PROTO = {
    "SelfCross": (MATE + "SelfCross.py", "SelfCross", 1, "sx"),
    "TwoWayCross": (MATE + "TwoWayCross.py", "TwoWayCross", 2, "2w"),
    "TwoWayDHCross": (MATE + "TwoWayDHCross.py", "TwoWayDHCross", 2, "dh"),
    "ThreeWayCross": (MATE + "ThreeWayCross.py", "ThreeWayCross", 3, "3w"),
    "ThreeWayDHCross": (MATE + "ThreeWayDHCross.py", "ThreeWayDHCross", 3, "dh"),
    "FourWayCross": (MATE + "FourWayCross.py", "FourWayCross", 4, "4w"),
    "FourWayDHCross": (MATE + "FourWayDHCross.py", "FourWayDHCross", 4, "dh"),
}


class Stage:
    """one stub call: res[c,t,j] = parent_c[PHc(t,j), sel_c[t], j]"""

    def __init__(self, kind, res, par, sel, ph, rng):
        self.kind, self.res, self.par, self.sel, self.ph, self.rng = kind, res, par, sel, ph, rng


def _check_call(e, tag, geno, sel, xoprob):
    ok = geno.ndim == 3 and sel.ndim == 1 and xoprob.ndim == 1
    e.prove("callsite:%s:pre:ranks" % tag, ok, kind="call-pre")
    e.prove("callsite:%s:pre:marker-count" % tag, _t(geno.shape[2]) == _t(xoprob.shape[0]), kind="call-pre")
    e.prove("callsite:%s:pre:two-copies" % tag, _t(geno.shape[0]) >= 2, kind="call-pre")
    q = z3.Int(e.fresh_name("q"))
    saved = list(e.assumptions)
    e.assume(z3.And(0 <= q, q < _t(sel.shape[0])))
    e.prove("callsite:%s:pre:sel-in-range" % tag, z3.And(0 <= sel.at(q), sel.at(q) < _t(geno.shape[1])), kind="call-pre")
    e.assumptions[:] = saved


def _same_xoprob(e, tag, xoprob, ref):
    """the crossover probabilities handed to the kernel are the parental matrix's (the same array or an equal one)"""
    if xoprob is ref:
        e.prove("callsite:%s:xoprob-is-the-parental-matrix's" % tag, True, kind="call-pre")
        return
    j = z3.Int(e.fresh_name("j"))
    ok = isinstance(xoprob, EArr) and xoprob.ndim == 1
    e.prove("callsite:%s:xoprob-is-the-parental-matrix's" % tag,
            z3.And(_t(xoprob.shape[0]) == _t(ref.shape[0]), z3.Implies(z3.And(0 <= j, j < _t(ref.shape[0])), xoprob.at(j) == ref.at(j))) if ok else False,
            kind="call-pre")


def make_stubs(box):
    """contract stubs for mat_mate / mat_dh; box['stages'] (python list, concrete part) and box['ncalls'] (ghost counter)"""
    def phase_fn(e, nm):
        f = z3.Function(e.fresh_name(nm), z3.IntSort(), z3.IntSort(), z3.IntSort())
        r, j = z3.Ints("q_r q_j")
        e.assume(z3.ForAll([r, j], z3.Or(f(r, j) == 0, f(r, j) == 1), patterns=[f(r, j)]))
        return f

    def mat_mate(fgeno, mgeno, fsel, msel, xoprob, rng):
        e = cur()
        tag = "mat_mate#%d" % len(box["stages"])
        _check_call(e, tag + ":female", fgeno, fsel, xoprob)
        _check_call(e, tag + ":male", mgeno, msel, xoprob)
        e.prove("callsite:%s:pre:same-number-of-gametes" % tag, _t(fsel.shape[0]) == _t(msel.shape[0]), kind="call-pre")
        e.prove("callsite:%s:generator-is-the-protocol's" % tag, rng is box["rng"], kind="call-pre")
        _same_xoprob(e, tag, xoprob, box["xoprob"])
        n, p = fsel.shape[0], xoprob.shape[0]
        ph0, ph1 = phase_fn(e, "phF"), phase_fn(e, "phM")
        res = EArr.fresh("prog", (2, n, p), fgeno.dtype)
        r, j = z3.Ints("q_r q_j")
        fa, ma, fs, ms = fgeno._at, mgeno._at, fsel._at, msel._at
        rng_ = z3.And(0 <= r, r < _t(n), 0 <= j, j < _t(p))
        e.assume(z3.ForAll([r, j], z3.Implies(rng_, res._fn(0, r, j) == fa(ph0(r, j), fs(r), j)), patterns=[res._fn(0, r, j)]))
        e.assume(z3.ForAll([r, j], z3.Implies(rng_, res._fn(1, r, j) == ma(ph1(r, j), ms(r), j)), patterns=[res._fn(1, r, j)]))
        box["stages"].append(Stage("mate", res, (fgeno, mgeno), (fsel, msel), (ph0, ph1), rng))
        box["ncalls"] = wrap(_t(box["ncalls"]) + 1)
        return res

    def mat_dh(geno, sel, xoprob, rng):
        e = cur()
        tag = "mat_dh#%d" % len(box["stages"])
        _check_call(e, tag, geno, sel, xoprob)
        e.prove("callsite:%s:generator-is-the-protocol's" % tag, rng is box["rng"], kind="call-pre")
        _same_xoprob(e, tag, xoprob, box["xoprob"])
        n, p = sel.shape[0], xoprob.shape[0]
        ph0 = phase_fn(e, "phD")
        res = EArr.fresh("dh", (2, n, p), geno.dtype)
        r, j = z3.Ints("q_r q_j")
        ga, sa = geno._at, sel._at
        rng_ = z3.And(0 <= r, r < _t(n), 0 <= j, j < _t(p))
        e.assume(z3.ForAll([r, j], z3.Implies(rng_, res._fn(0, r, j) == ga(ph0(r, j), sa(r), j)), patterns=[res._fn(0, r, j)]))
        e.assume(z3.ForAll([r, j], z3.Implies(rng_, res._fn(1, r, j) == ga(ph0(r, j), sa(r), j)), patterns=[res._fn(1, r, j)]))
        box["stages"].append(Stage("dh", res, (geno, geno), (sel, sel), (ph0, ph0), rng))
        box["ncalls"] = wrap(_t(box["ncalls"]) + 1)
        return res
    return mat_mate, mat_dh


class Built:
    """recording stand-in for the progeny matrix constructor"""

    def __init__(self, log):
        self._log = log

    def __call__(self, **kw):
        obj = _Obj(self._log, kw)
        self._log.append(("construct", obj))
        return obj


class _Obj:
    def __init__(self, log, kw):
        object.__setattr__(self, "kw", kw)
        object.__setattr__(self, "sets", {})
        object.__setattr__(self, "_log", log)
        object.__setattr__(self, "vrnt_havoc", [])

    def __setattr__(self, k, v):
        self.sets[k] = v

    def group_taxa(self):
        self._log.append(("group_taxa", self))

    def __getattr__(self, name):
        # an in-place operation on the marker axis of the progeny (group_vrnt, sort_vrnt, reorder_vrnt, remove_vrnt, ...): it may permute
        # or drop markers, so afterwards neither the marker metadata nor the marker order of the genotypes is the parents' (havoc)
        import re
        if re.fullmatch(r"(group|sort|reorder|remove|incorp|append|ungroup)(_vrnt)?", name):
            def op(*a, **k):
                self._log.append((name, self))
                self.vrnt_havoc.append(name)
            return op
        raise AttributeError(name)


class Pgmat:
    """parental matrix stub: symbolic mat / xoprob, opaque metadata tokens"""

    def __init__(self, m, ntaxa, p):
        self.mat = EArr.fresh("geno", (m, ntaxa, p), numpy.int8)
        self.vrnt_xoprob = EArr.fresh("xoprob", (p,), numpy.float64)
        for k in META:
            if k != "vrnt_xoprob":
                setattr(self, k, loopcut.Token("pgmat." + k))
        for k in META_ATTR:
            setattr(self, k, loopcut.Token("pgmat." + k))
        # group index vectors are element-level arrays (a symbolic number of groups, every index inside the marker axis), so code
        # that indexes with them stays inside the verified subset
        ng = fresh_int("ngroups", 0)
        g = z3.Int("q_g")
        for k, hi in (("vrnt_chrgrp_stix", _t(p) - 1), ("vrnt_chrgrp_spix", _t(p)), ("vrnt_chrgrp_len", _t(p))):
            a = EArr.fresh("pgmat." + k, (ng,), numpy.int64)
            cur().assume(z3.ForAll([g], z3.Implies(z3.And(0 <= g, g < ng.t), z3.And(0 <= a._fn(g), a._fn(g) <= hi)), patterns=[a._fn(g)]))
            setattr(self, k, a)


class Me:
    pass


def setup(e, name, scalar_counts):
    """symbolic inputs of one mate() call; returns dict"""
    rel, cls, npar, prefix = PROTO[name]
    nfam, ntaxa, p = fresh_int("nfam", 0), fresh_int("ntaxa", 1), fresh_int("p", 0)
    m = 2
    pg = Pgmat(m, ntaxa, p)
    xc = EArr.fresh("xconfig", (nfam, npar), numpy.int64)
    f, c = z3.Ints("q_f q_c")
    e.assume(z3.ForAll([f, c], z3.Implies(z3.And(0 <= f, f < nfam.t, 0 <= c, c < npar),
                                          z3.And(0 <= xc._fn(f, c), xc._fn(f, c) < ntaxa.t)), patterns=[xc._fn(f, c)]))
    if scalar_counts:
        nmating, nprogeny = fresh_int("nmating", 0), fresh_int("nprogeny", 0)
    else:
        nmating = EArr.fresh("nmating", (nfam,), numpy.int64)
        nprogeny = EArr.fresh("nprogeny", (nfam,), numpy.int64)
        for a in (nmating, nprogeny):
            e.assume(z3.ForAll([f], z3.Implies(z3.And(0 <= f, f < nfam.t), a._fn(f) >= 0), patterns=[a._fn(f)]))
    nself = fresh_int("nself", 0)
    import importlib
    me = loopcut.stub_of(getattr(importlib.import_module(rel[:-3].replace("/", ".")), cls))
    me.nparent = npar
    me.rng = loopcut.Token("self.rng")
    me.progeny_counter = fresh_int("progeny_counter", 0)
    me.family_counter = fresh_int("family_counter", 0)
    return dict(pg=pg, xc=xc, nmating=nmating, nprogeny=nprogeny, nself=nself, me=me, nfam=nfam, ntaxa=ntaxa, p=p,
                pc0=me.progeny_counter, fc0=me.family_counter, prefix=prefix, npar=npar)


def extract(name, box, loop_specs):
    rel, cls, npar, prefix = PROTO[name]
    mm, md = make_stubs(box)
    node = loopcut.find_def(__import__("ast").parse(loopcut.read_source(rel)), cls + ".mate")
    import ast
    ov = {"mat_mate": mm, "mat_dh": md, "DensePhasedGenotypeMatrix": Built(box["log"])}
    # argument type checks on the parental matrix (its class is the precondition, not modelled here)
    for n in ast.walk(node):
        if isinstance(n, ast.Name) and n.id.startswith("check_") and "DensePhasedGenotypeMatrix" in n.id:
            ov[n.id] = lambda *a, **k: None
    return loopcut.Extracted(rel + ":" + cls + ".mate", loop_specs=loop_specs, overrides=ov)


# ---------------------------------------------------------------------------------------------------
# single-stage protocols: SelfCross, TwoWayCross  (base cross, then nself selfing generations)

def _same(e, a, b):
    """a == b follows from the path's assumptions (quick query, not an obligation; used to classify a stage's level)"""
    if a.eq(b):
        return True
    st = sym.solve(e.assumptions, a == b, 1500, use_cvc5=False)
    return st[0] == "proved"


def _family_parents(xc, fam_of, npar):
    """terms of the configured parents of progeny t"""
    return lambda t: [xc.at(fam_of(t), c) for c in range(npar)]


def _member(val, geno, parents, j):
    return z3.Or(*[val == geno.at(ph, par, j) for par in parents for ph in (0, 1)])


def prove_simple(ctx, name, scalar_counts):
    rel, cls, npar, prefix = PROTO[name]
    box = dict(stages=[], ncalls=0, log=[])
    env = {}

    def inv(st):
        e = cur()
        d = env["d"]
        s0 = box["stages"][0]
        var = env["var"]
        H = st[var]
        T, p = _t(s0.res.shape[1]), d["p"].t
        geno, xc = d["pg"].mat, d["xc"]
        c, t, j = z3.Ints("q_c q_t q_j")
        inr = z3.And(0 <= c, c < 2, 0 <= t, t < T, 0 <= j, j < p)
        out = {}
        out["shape"] = z3.And(H.ndim == 3, _t(H.shape[0]) == 2, _t(H.shape[1]) == T, _t(H.shape[2]) == p) if isinstance(H, EArr) else False
        if out["shape"] is False:
            return out
        sels = [s0.sel[0], s0.sel[1]]
        parents = lambda tt: [sels[0].at(tt)] + ([sels[1].at(tt)] if npar > 1 else [])
        out["lineage"] = z3.ForAll([c, t, j], z3.Implies(inr, _member(H.at(c, t, j), geno, parents(t), j)), patterns=[H.at(c, t, j)])
        out["ncalls"] = _t(box["ncalls"]) == 1 + _t(st["_k"])
        out["k=0:unchanged"] = z3.Implies(_t(st["_k"]) == 0,
                                          z3.ForAll([c, t, j], z3.Implies(inr, H.at(c, t, j) == s0.res.at(c, t, j)), patterns=[H.at(c, t, j)]))
        return out

    def on_havoc(loc, rt):
        box["ncalls"] = fresh_int("hv_ncalls", 0)
        del box["stages"][1:]
    inv.on_havoc = on_havoc
    f = extract(name, box, {"0": inv})
    env["var"] = [m for m in f.loops["0"]["modified"] if m != "i"][0]
    ex = ctx.explorer()
    ctx.trust(STR_TRUST)
    N = name + (":scalar-counts" if scalar_counts else ":array-counts")

    def thunk():
        e = cur()
        box["stages"][:] = []
        box["log"][:] = []
        box["ncalls"] = 0
        d = setup(e, name, scalar_counts)
        env["d"] = d
        pg, xc, me = d["pg"], d["xc"], d["me"]
        box["rng"], box["xoprob"] = me.rng, pg.vrnt_xoprob
        for a in str_axioms():
            pass
        geno_at0, xo_at0 = pg.mat._at, pg.vrnt_xoprob._at
        out = f(me, pg, xc, d["nmating"], d["nprogeny"], None, d["nself"])
        for a in str_axioms():
            e.assume(a)
        log = box["log"]
        e.prove(N + ":post:one-matrix-built-then-grouped", len(log) == 2 and log[0][0] == "construct" and log[1][0] == "group_taxa"
                and log[1][1] is log[0][1] and out is log[0][1])
        kw = out.kw
        H = kw["mat"]
        nm = d["nmating"] if not scalar_counts else npmodel.el_repeat(d["nmating"], d["nfam"])
        npg = d["nprogeny"] if not scalar_counts else npmodel.el_repeat(d["nprogeny"], d["nfam"])
        rec = npmodel.repeat_map(nm * npg)
        T, FAM = _t(rec["T"]), rec["FAM"]
        e.prove(N + ":post:progeny-count==sum-of-nmating*nprogeny", z3.And(H.ndim == 3, _t(H.shape[0]) == 2, _t(H.shape[1]) == T,
                                                                        _t(H.shape[2]) == d["p"].t))
        if scalar_counts:
            e.prove(N + ":post:progeny-count==nfam*nmating*nprogeny", T == d["nfam"].t * (_t(d["nmating"]) * _t(d["nprogeny"])))
        c1, t1, j1, t2 = (z3.Int(e.fresh_name(x)) for x in ("c", "t", "j", "u"))
        e.assume(z3.And(0 <= c1, c1 < 2, 0 <= t1, t1 < T, 0 <= j1, j1 < d["p"].t, 0 <= t2, t2 < T))
        par = [xc.at(FAM(t1), c) for c in range(npar)]
        e.prove(N + ":post:family-of-progeny-in-range", z3.And(0 <= FAM(t1), FAM(t1) < d["nfam"].t))
        e.prove(N + ":post:lineage:every-allele-from-a-configured-parent-of-its-family", _member(H.at(c1, t1, j1), pg.mat, par, j1))
        s0 = box["stages"][0]
        e.prove(N + ":post:nself=0:phase0-mosaic-of-female-phase1-mosaic-of-male",
                z3.Implies(d["nself"].t == 0, z3.And(H.at(0, t1, j1) == pg.mat.at(s0.ph[0](t1, j1), par[0], j1),
                                                     H.at(1, t1, j1) == pg.mat.at(s0.ph[1](t1, j1), par[-1], j1))))
        e.prove(N + ":post:meiosis-calls==1+nself", _t(box["ncalls"]) == 1 + d["nself"].t)
        taxa, grp = kw["taxa"], kw["taxa_grp"]
        e.prove(N + ":post:taxa-names==prefix+zero-padded-progeny-number",
                z3.And(taxa.ndim == 1, _t(taxa.shape[0]) == T, taxa.at(t1) == CAT(str_lit(prefix), STRPAD(d["pc0"].t + t1, z3.IntVal(7)))))
        e.prove(N + ":post:taxa-names-pairwise-distinct", z3.Implies(t1 != t2, taxa.at(t1) != taxa.at(t2)))
        e.prove(N + ":post:family-labels==family_counter+family-of-progeny",
                z3.And(grp.ndim == 1, _t(grp.shape[0]) == T, grp.at(t1) == d["fc0"].t + FAM(t1)))
        e.prove(N + ":post:counters-advanced-exactly", z3.And(_t(me.progeny_counter) == d["pc0"].t + T, _t(me.family_counter) == d["fc0"].t + d["nfam"].t))
        e.prove(N + ":post:marker-metadata-carried-by-identity", all(kw.get(k) is getattr(pg, k) for k in META)
                and all(out.sets.get(k) is getattr(pg, k) for k in META_ATTR) and not out.vrnt_havoc)
        e.prove(N + ":frame:parental-genotypes-and-xoprob-not-written", pg.mat._at is geno_at0 and pg.vrnt_xoprob._at is xo_at0)
        e.prove(N + ":canary:all-alleles-from-the-first-parent", _member(H.at(c1, t1, j1), pg.mat, par[:1], j1) if npar > 1 else
                H.at(c1, t1, j1) == pg.mat.at(0, par[0], j1), expect="fail", timeout_ms=2000)
        return "ok"
    with npmodel.patched_numpy():
        outs = ex.explore(thunk)
    ctx.absorb(ex)
    raised = [o for o in outs if isinstance(o, sym.Raised)]
    ctx.record(N + ":noraise", not raised, kind="noraise", detail="; ".join(repr(r) + r.tb[-1200:] for r in raised[:1]))
    ctx.record(N + ":selfing-loop-cut", f.loops_cut == set(f.loops), kind="cover", detail=str(f.loops))
    ctx.record(N + ":returns-on-some-path (cover)", any(o == "ok" for o in outs), kind="cover")


# ---------------------------------------------------------------------------------------------------
# multi-stage protocols: matings (level 1: one row per cross and mating) and progeny (level 2: one row per progeny)
#   family(u) = fam1(u) for a mating row, family(t) = fam1(fam2(t)) for a progeny row, where fam1 is the position map of
#   numpy.repeat(., nmating) and fam2 that of numpy.repeat(., numpy.repeat(nprogeny, nmating)).
# name -> (level at which the selfing loop runs, doubled haploid?, parent columns behind phase 0 / phase 1 of the last cross)
MULTI = {
    "TwoWayDHCross": (1, True, (0,), (1,)),
    "ThreeWayCross": (2, False, (0,), (1, 2)),
    "ThreeWayDHCross": (1, True, (0,), (1, 2)),
    "FourWayCross": (2, False, (2, 3), (0, 1)),
    "FourWayDHCross": (1, True, (2, 3), (0, 1)),
}
# cross scheme up to (and excluding) the selfing generations: ("P", k) = parental column k, ("X", a, b) = cross, a on the phase-0 side
SCHEME = {
    "TwoWayDHCross": ("X", ("P", 0), ("P", 1)),
    "ThreeWayCross": ("X", ("P", 0), ("X", ("P", 1), ("P", 2))),
    "ThreeWayDHCross": ("X", ("P", 0), ("X", ("P", 1), ("P", 2))),
    "FourWayCross": ("X", ("X", ("P", 2), ("P", 3)), ("X", ("P", 0), ("P", 1))),
    "FourWayDHCross": ("X", ("X", ("P", 2), ("P", 3)), ("X", ("P", 0), ("P", 1))),
}
COMPOSE_TRUST = ("numpy.repeat composition law: repeat(x, m*g) == repeat(repeat(x, m), repeat(g, m)) for non-negative integer "
                 "count arrays (prefix-sum arithmetic; checked natively on random arrays in every run)")


def _compose_law_native():
    rs = numpy.random.RandomState(12345)
    for _ in range(300):
        n = rs.randint(0, 6)
        x, m, g = rs.randint(0, 50, n), rs.randint(0, 4, n), rs.randint(0, 4, n)
        if not numpy.array_equal(numpy.repeat(x, m * g), numpy.repeat(numpy.repeat(x, m), numpy.repeat(g, m))):
            return False
    return True


def prove_multi(ctx, name, scalar_counts):
    rel, cls, npar, prefix = PROTO[name]
    level, dh, side0, side1 = MULTI[name]
    box = dict(stages=[], ncalls=0, log=[])
    env = {}

    def family(row, lvl):
        m = env["maps"]
        return m["fam1"](row) if lvl == 1 else m["fam1"](m["fam2"](row))

    def inv(st):
        d = env["d"]
        H = st[env["var"]]
        m = env["maps"]
        rows = _t(m["M"]) if level == 1 else _t(m["T"])
        p = d["p"].t
        geno, xc = d["pg"].mat, d["xc"]
        c, t, j = z3.Ints("q_c q_t q_j")
        out = {}
        if not isinstance(H, EArr) or H.ndim != 3:
            return {"shape": False}
        inr = z3.And(0 <= c, c < 2, 0 <= t, t < rows, 0 <= j, j < p)
        out["shape"] = z3.And(_t(H.shape[0]) == 2, _t(H.shape[1]) == rows, _t(H.shape[2]) == p)
        par = [xc.at(family(t, level), k) for k in range(npar)]
        out["lineage"] = z3.ForAll([c, t, j], z3.Implies(inr, _member(H.at(c, t, j), geno, par, j)), patterns=[H.at(c, t, j)])
        out["ncalls"] = _t(box["ncalls"]) == env["calls_before_loop"] + _t(st["_k"])
        pre = env.get("pre_loop")
        if pre is not None:
            out["k=0:unchanged"] = z3.Implies(_t(st["_k"]) == 0, z3.ForAll([c, t, j], z3.Implies(inr, H.at(c, t, j) == pre.at(c, t, j)),
                                                                             patterns=[H.at(c, t, j)]))
        return out

    def on_havoc(loc, rt):
        box["ncalls"] = fresh_int("hv_ncalls", 0)
        del box["stages"][env["nstages_before_loop"]:]
        env["loop_rt"] = rt
    inv.on_havoc = on_havoc
    f = extract(name, box, {"0": inv})
    env["var"] = [m for m in f.loops["0"]["modified"] if m != "i"][0]

    def match(e, tag, mat, sel, spec, lvl, rows):
        """the matrix/selection pair handed to a cross realises `spec` for the rows of a level-`lvl` stage"""
        d, m = env["d"], env["maps"]
        q = z3.Int(e.fresh_name("row"))
        saved = list(e.assumptions)
        e.assume(z3.And(0 <= q, q < rows))
        if spec[0] == "P":
            e.prove("%s:is-the-parental-matrix" % tag, mat is d["pg"].mat)
            e.prove("%s:selects-configured-parent-column-%d-of-the-row's-family" % (tag, spec[1]),
                    sel.at(q) == d["xc"].at(family(q, lvl), spec[1]))
            e.assumptions[:] = saved
            return
        src = [s_ for s_ in box["stages"] if s_.res is mat]
        e.prove("%s:is-an-intermediate-hybrid-matrix" % tag, len(src) == 1)
        if len(src) != 1:
            e.assumptions[:] = saved
            return
        S = src[0]
        srows = _t(S.res.shape[1])
        slvl = 1 if _same(e, srows, _t(m["M"])) else (2 if _same(e, srows, _t(m["T"])) else None)
        e.prove("%s:hybrid-stage-has-one-row-per-mating-or-per-progeny" % tag, slvl is not None and S.kind == "mate")
        if slvl is None:
            e.assumptions[:] = saved
            return
        if slvl == lvl:
            e.prove("%s:row-u-uses-hybrid-u" % tag, sel.at(q) == q)
        else:
            e.prove("%s:progeny-row-t-uses-the-hybrid-of-its-mating" % tag, slvl == 1 and lvl == 2 and sel.at(q) == m["fam2"](q))
        e.assumptions[:] = saved
        match(e, tag + "/0", S.par[0], S.sel[0], spec[1], slvl, srows)
        match(e, tag + "/1", S.par[1], S.sel[1], spec[2], slvl, srows)
    # the extracted function announces the loop through LoopRT.init; remember the stage count at that moment
    orig_init = loopcut.LoopRT.init

    ex = ctx.explorer()
    ctx.trust(STR_TRUST, COMPOSE_TRUST)
    ctx.record(name + ":lemma:repeat-composition-law-holds-natively", _compose_law_native(), kind="lemma")
    N = name + (":scalar-counts" if scalar_counts else ":array-counts")

    class Hook:
        pass

    def thunk():
        e = cur()
        box["stages"][:] = []
        box["log"][:] = []
        box["ncalls"] = 0
        d = setup(e, name, scalar_counts)
        env["d"] = d
        pg, xc, me = d["pg"], d["xc"], d["me"]
        box["rng"], box["xoprob"] = me.rng, pg.vrnt_xoprob
        nm = d["nmating"] if not scalar_counts else npmodel.el_repeat(d["nmating"], d["nfam"])
        npg = d["nprogeny"] if not scalar_counts else npmodel.el_repeat(d["nprogeny"], d["nfam"])
        r1 = npmodel.repeat_map(nm)
        G = npmodel.el_repeat(npg, nm)                      # progeny per mating row
        r2 = npmodel.repeat_map(G)
        rD = npmodel.repeat_map(nm * npg)
        t_ = z3.Int("q_t")
        # composition law instance (trusted, see COMPOSE_TRUST)
        e.assume(_t(rD["T"]) == _t(r2["T"]))
        e.assume(z3.ForAll([t_], z3.Implies(z3.And(0 <= t_, t_ < _t(r2["T"])), rD["FAM"](t_) == r1["FAM"](r2["FAM"](t_))),
                           patterns=[rD["FAM"](t_)]))
        env["maps"] = dict(fam1=r1["FAM"], fam2=r2["FAM"], M=r1["T"], T=r2["T"])
        geno_at0, xo_at0 = pg.mat._at, pg.vrnt_xoprob._at

        def init_hook(self_, loc):
            if self_.owner is f and self_.lid == "0":
                env["nstages_before_loop"] = len(box["stages"])
                env["calls_before_loop"] = len(box["stages"])
                env["pre_loop"] = loc.get(env["var"])
            return orig_init(self_, loc)
        loopcut.LoopRT.init = init_hook
        try:
            out = f(me, pg, xc, d["nmating"], d["nprogeny"], None, d["nself"])
        finally:
            loopcut.LoopRT.init = orig_init
        for a in str_axioms():
            e.assume(a)
        log = box["log"]
        e.prove(N + ":post:one-matrix-built-then-grouped", len(log) == 2 and log[0][0] == "construct" and log[1][0] == "group_taxa"
                and log[1][1] is log[0][1] and out is log[0][1])
        kw = out.kw
        H = kw["mat"]
        T = _t(r2["T"])
        e.prove(N + ":post:progeny-count==sum-over-matings-of-nprogeny==sum-of-nmating*nprogeny",
                z3.And(H.ndim == 3, _t(H.shape[0]) == 2, _t(H.shape[1]) == T, _t(H.shape[2]) == d["p"].t, T == _t(rD["T"])))
        if scalar_counts:
            e.prove(N + ":post:progeny-count==nfam*nmating*nprogeny", T == d["nfam"].t * (_t(d["nmating"]) * _t(d["nprogeny"])))
        c1, t1, j1, t2 = (z3.Int(e.fresh_name(x)) for x in ("c", "t", "j", "u"))
        e.assume(z3.And(0 <= c1, c1 < 2, 0 <= t1, t1 < T, 0 <= j1, j1 < d["p"].t, 0 <= t2, t2 < T))
        fam_t = family(t1, 2)
        par = [xc.at(fam_t, k) for k in range(npar)]
        e.prove(N + ":post:family-of-progeny-in-range", z3.And(0 <= fam_t, fam_t < d["nfam"].t))
        e.prove(N + ":post:lineage:every-allele-from-a-configured-parent-of-its-family", _member(H.at(c1, t1, j1), pg.mat, par, j1))
        # cross scheme: the stage tree behind the loop's entry value is exactly the configured scheme
        pre = box["stages"][:env["nstages_before_loop"]]
        e.prove(N + ":scheme:loop-starts-from-the-last-cross", len(pre) >= 1 and env["pre_loop"] is pre[-1].res)
        if pre:
            top = pre[-1]
            rows = _t(top.res.shape[1])
            lv = 1 if _same(e, rows, _t(r1["T"])) else (2 if _same(e, rows, T) else None)
            e.prove(N + ":scheme:last-cross-level", lv == level and top.kind == "mate")
            if lv is not None:
                match(e, N + ":scheme:side0", top.par[0], top.sel[0], SCHEME[name][1], lv, rows)
                match(e, N + ":scheme:side1", top.par[1], top.sel[1], SCHEME[name][2], lv, rows)
        Hx = env["loop_rt"]._hv_state[env["var"]]
        if dh:
            post = box["stages"][env["nstages_before_loop"]:]
            e.prove(N + ":scheme:one-doubled-haploid-stage-after-selfing", len(post) == 1 and post[0].kind == "dh" and post[0].res is H
                    and post[0].par[0] is Hx)
            if len(post) == 1:
                e.prove(N + ":scheme:progeny-t-is-a-doubled-haploid-of-the-hybrid-of-its-mating", post[0].sel[0].at(t1) == r2["FAM"](t1))
            e.prove(N + ":post:doubled-haploids-homozygous", H.at(0, t1, j1) == H.at(1, t1, j1))
        else:
            e.prove(N + ":scheme:result-is-the-last-selfing-generation", H is Hx and len(box["stages"]) == env["nstages_before_loop"])
            e.prove(N + ":post:nself=0:phase0-from-the-first-side-phase1-from-the-second-side",
                    z3.Implies(d["nself"].t == 0, z3.And(_member(H.at(0, t1, j1), pg.mat, [par[k] for k in side0], j1),
                                                         _member(H.at(1, t1, j1), pg.mat, [par[k] for k in side1], j1))))
        e.prove(N + ":post:meiosis-calls==fixed-stages+nself", _t(box["ncalls"]) == env["calls_before_loop"] + d["nself"].t + (1 if dh else 0))
        taxa, grp = kw["taxa"], kw["taxa_grp"]
        e.prove(N + ":post:taxa-names==prefix+zero-padded-progeny-number",
                z3.And(taxa.ndim == 1, _t(taxa.shape[0]) == T, taxa.at(t1) == CAT(str_lit(prefix), STRPAD(d["pc0"].t + t1, z3.IntVal(7)))))
        e.prove(N + ":post:taxa-names-pairwise-distinct", z3.Implies(t1 != t2, taxa.at(t1) != taxa.at(t2)))
        e.prove(N + ":post:family-labels==family_counter+family-of-progeny",
                z3.And(grp.ndim == 1, _t(grp.shape[0]) == T, grp.at(t1) == d["fc0"].t + fam_t))
        e.prove(N + ":post:counters-advanced-exactly", z3.And(_t(me.progeny_counter) == d["pc0"].t + T, _t(me.family_counter) == d["fc0"].t + d["nfam"].t))
        e.prove(N + ":post:marker-metadata-carried-by-identity", all(kw.get(k) is getattr(pg, k) for k in META)
                and all(out.sets.get(k) is getattr(pg, k) for k in META_ATTR) and not out.vrnt_havoc)
        e.prove(N + ":frame:parental-genotypes-and-xoprob-not-written", pg.mat._at is geno_at0 and pg.vrnt_xoprob._at is xo_at0)
        e.prove(N + ":canary:all-alleles-from-the-first-parent", _member(H.at(c1, t1, j1), pg.mat, par[:1], j1), expect="fail", timeout_ms=2000)
        return "ok"
    with npmodel.patched_numpy():
        outs = ex.explore(thunk)
    ctx.absorb(ex)
    raised = [o for o in outs if isinstance(o, sym.Raised)]
    ctx.record(N + ":noraise", not raised, kind="noraise", detail="; ".join(repr(r) + r.tb[-1200:] for r in raised[:1]))
    ctx.record(N + ":selfing-loop-cut", f.loops_cut == set(f.loops), kind="cover", detail=str(f.loops))
    ctx.record(N + ":returns-on-some-path (cover)", any(o == "ok" for o in outs), kind="cover")
