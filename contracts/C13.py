"""C13 -- see DESIGN.md §8 C13."""
from pyvc.unit import unit
P = "C13"
REPLAYERS = {}
try:
    from contracts.rings import C13 as _ring
    REPLAYERS.update(getattr(_ring, "REPLAYERS", {}))
except ImportError:
    _ring = None
