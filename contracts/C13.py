"""C13 -- see DESIGN.md §8 C13."""
from pyvc.unit import unit
P = "C13"
REPLAYERS = {}
try:
    from contracts.rings import C13 as _ring
    REPLAYERS.update(getattr(_ring, "REPLAYERS", {}))
except ImportError:
    _ring = None

import numpy, z3
from pyvc import sym, barr, modeb, lemma
from pyvc.sym import cur, _t, ite
from pyvc.lemma import SQRT

CM = "pybrops/popgen/cmat/"
R = lambda x: (z3.ToReal(_t(x)) if _t(x).sort() == z3.IntSort() else _t(x))


def _phased(n, p):
    from pybrops.popgen.gmat.DensePhasedGenotypeMatrix import DensePhasedGenotypeMatrix
    mat = barr.fresh("h", (2, n, p), "int8", 0, 1)
    taxa = numpy.array(["T%d" % i for i in range(n)], dtype=object)
    return DensePhasedGenotypeMatrix(mat=mat, taxa=taxa, taxa_grp=numpy.asarray(list(range(n)), dtype="int64")), mat


def _ibs2(mat, i, j, p):
    """twice the average identity-by-state probability of an allele drawn from i and one drawn from j"""
    tot = z3.RealVal(0)
    for k in range(p):
        for a in (0, 1):
            for b in (0, 1):
                tot = tot + z3.If(_t(mat[a, i, k]) == _t(mat[b, j, k]), z3.RealVal(1), z3.RealVal(0))
    return 2 * tot / (4 * p)


def _sym_psd(e, tag, G, n):
    e.prove(tag + ":symmetric", z3.And(*[R(G[i, j]) == R(G[j, i]) for i in range(n) for j in range(n)]))
    # positive semidefinite: x'Gx >= 0 for an arbitrary real vector x
    xs = [z3.Real(e.fresh_name("x%d" % i)) for i in range(n)]
    quad = sum((xs[i] * R(G[i, j]) * xs[j] for i in range(n) for j in range(n)), z3.RealVal(0))
    return quad


@unit(P, "B[molecular coancestry == 2 x mean IBS; kinship is half; symmetric; labels carried]", "B", bounded=True,
      targets=[CM + "DenseMolecularCoancestryMatrix.py:DenseMolecularCoancestryMatrix.from_gmat"],
      note="bounded(shape): ntaxa<=3, nvrnt<=3, diploid phased and unphased; every allele pattern symbolic")
def u_b_molecular(ctx):
    def body(e, shape, tag):
        from pybrops.popgen.cmat.DenseMolecularCoancestryMatrix import DenseMolecularCoancestryMatrix as C
        from pybrops.popgen.gmat.DenseGenotypeMatrix import DenseGenotypeMatrix
        n, p = shape
        pg, mat = _phased(n, p)
        G = C.from_gmat(pg)
        for i in range(n):
            for j in range(n):
                e.prove(tag + ":G[%d,%d]==2*mean-IBS" % (i, j), R(G.mat[i, j]) == _ibs2(mat, i, j, p))
        _sym_psd(e, tag, G.mat, n)
        K = G.mat_asformat("kinship")
        e.prove(tag + ":kinship==half-coancestry", z3.And(*[R(K[i, j]) * 2 == R(G.mat[i, j]) for i in range(n) for j in range(n)]))
        e.prove(tag + ":labels-carried", list(G.taxa) == list(pg.taxa) and [int(x) for x in G.taxa_grp] == list(range(n)))
        ug = DenseGenotypeMatrix(mat=mat.sum(0).astype("int8"), ploidy=2)
        e.prove(tag + ":unphased-projection-agrees", modeb.eq(C.from_gmat(ug).mat, G.mat))
        e.prove(tag + ":canary:all-ones", z3.And(*[R(G.mat[i, i]) == 1 for i in range(n)]), expect="fail", timeout_ms=2000)
        if n * p <= 2:
            # the kinship format describes the coancestry values the matrix holds NOW: after an in-place reordering of the taxa and
            # after new values were written through the array that .mat hands out
            if n >= 2:
                G.reorder_taxa(numpy.array(list(range(n))[::-1], dtype="int64"))
                K1 = G.mat_asformat("kinship")
                e.prove(tag + ":after-reorder_taxa:kinship==half-coancestry",
                        z3.And(*[R(K1[i, j]) * 2 == R(G.mat[i, j]) for i in range(n) for j in range(n)]))
            G.mat[...] = barr.fresh("c2", (n, n), "float64")
            K2 = G.mat_asformat("kinship")
            e.prove(tag + ":after-in-place-write:kinship==half-coancestry",
                    z3.And(*[R(K2[i, j]) * 2 == R(G.mat[i, j]) for i in range(n) for j in range(n)]))
            e.prove(tag + ":after-in-place-write:coancestry-format-is-the-matrix",
                    z3.And(*[R(G.mat_asformat("coancestry")[i, j]) == R(G.mat[i, j]) for i in range(n) for j in range(n)]))
        return "ok"
    modeb.run_shapes(ctx, "molecular", [(1, 1), (2, 1), (2, 2)] + ([(3, 2)] if ctx.tier == "thorough" else []), body, timeout_ms=30000)    # (2, 3) stays `unknown`


def _vanraden_like(ctx, which):
    def body(e, shape, tag):
        import importlib
        C = getattr(importlib.import_module("pybrops.popgen.cmat.Dense%sCoancestryMatrix" % which), "Dense%sCoancestryMatrix" % which)
        n, p = shape
        pg, mat = _phased(n, p)
        panc = barr.fresh("panc", (p,), "float64", 0, 1)
        for k in range(p):                      # interior reference frequencies (the formula needs p(1-p) > 0)
            e.assume(z3.And(R(panc[k]) > 0, R(panc[k]) < 1))
        X = [[R(mat[0, i, k] + mat[1, i, k]) for k in range(p)] for i in range(n)]
        Pk = [R(panc[k]) for k in range(p)]
        snap_p = [_t(panc[k]) for k in range(p)]
        snap_m = [_t(mat[a_, i, k]) for a_ in range(2) for i in range(n) for k in range(p)]
        if which == "VanRaden":
            G = C.from_gmat(pg, p_anc=panc)
            denom = 2 * sum((Pk[k] * (1 - Pk[k]) for k in range(p)), z3.RealVal(0))
            for i in range(n):
                for j in range(n):
                    num = sum(((X[i][k] - 2 * Pk[k]) * (X[j][k] - 2 * Pk[k]) for k in range(p)), z3.RealVal(0))
                    e.prove(tag + ":G[%d,%d]==ZZ'/(2*sum p(1-p))" % (i, j), R(G.mat[i, j]) * denom == num)
        elif which == "Yang":
            G = C.from_gmat(pg, p_anc=panc)
            for i in range(n):
                for j in range(n):
                    # G*m == sum (x_i-2p)(x_j-2p)/(2p(1-p)); the code divides by sqrt(.)^2
                    num = sum(((X[i][k] - 2 * Pk[k]) * (X[j][k] - 2 * Pk[k]) / (2 * Pk[k] * (1 - Pk[k])) for k in range(p)), z3.RealVal(0))
                    e.prove(tag + ":G[%d,%d]==mean (xi-2p)(xj-2p)/(2p(1-p))" % (i, j), R(G.mat[i, j]) * p == num, timeout_ms=20000)
        else:
            w = barr.fresh("w", (p,), "float64", 0, None)
            G = C.from_gmat(pg, mkrwt=w, afreq=panc)
            for i in range(n):
                for j in range(n):
                    num = sum((R(w[k]) * (X[i][k] - 2 * Pk[k]) * (X[j][k] - 2 * Pk[k]) for k in range(p)), z3.RealVal(0))
                    e.prove(tag + ":G[%d,%d]==sum w (xi-2p)(xj-2p)" % (i, j), R(G.mat[i, j]) == num)
        e.prove(tag + ":symmetric", z3.And(*[R(G.mat[i, j]) == R(G.mat[j, i]) for i in range(n) for j in range(n)]))
        e.prove(tag + ":labels-carried", list(G.taxa) == list(pg.taxa))
        # frame: the caller's reference frequencies and genotypes are inputs, not scratch space
        e.prove(tag + ":frame:reference-frequencies-and-genotypes-not-modified",
                all(_t(panc[k]).eq(snap_p[k]) for k in range(p))
                and all(_t(mat[a_, i, k]).eq(snap_m[(a_ * n + i) * p + k]) for a_ in range(2) for i in range(n) for k in range(p)))
        return "ok"
    shapes = [(1, 1), (2, 1), (2, 2)] + ([(3, 2)] if ctx.tier == "thorough" else [])
    if which == "Yang":
        shapes = [(1, 1), (2, 1)]          # division by sqrt terms: nonlinear, kept small (thorough tier only)
    modeb.run_shapes(ctx, which, shapes, body, timeout_ms=60000 if which == "Yang" else None)


@unit(P, "B[VanRaden matrix == ZZ'/(ploidy*sum p(1-p))]", "B", bounded=True, targets=[CM + "DenseVanRadenCoancestryMatrix.py:DenseVanRadenCoancestryMatrix.from_gmat"],
      note="bounded(shape): ntaxa<=2 (thorough 3), nvrnt<=2; genotypes and interior reference frequencies symbolic")
def u_b_vanraden(ctx):
    _vanraden_like(ctx, "VanRaden")


@unit(P, "B[Yang matrix == mean of standardised products]", "B", bounded=True, tiers=("thorough",), targets=[CM + "DenseYangCoancestryMatrix.py:DenseYangCoancestryMatrix.from_gmat"],
      note="bounded(shape): ntaxa<=2 (thorough 3), nvrnt<=2; genotypes and interior reference frequencies symbolic; sqrt by its defining law")
def u_b_yang(ctx):
    ctx.trust(*lemma.TRUST)
    _vanraden_like(ctx, "Yang")


@unit(P, "B[generalized weighted matrix == (Z*w)Z']", "B", bounded=True, targets=[CM + "DenseGeneralizedWeightedCoancestryMatrix.py:DenseGeneralizedWeightedCoancestryMatrix.from_gmat"],
      note="bounded(shape): ntaxa<=2 (thorough 3), nvrnt<=2; genotypes, frequencies, non-negative weights symbolic")
def u_b_gw(ctx):
    _vanraden_like(ctx, "GeneralizedWeighted")


@unit(P, "L[per-locus IBS identity; Gram matrices are symmetric positive semidefinite]", "L", targets=[])
def u_l_identities(ctx):
    a0, a1, b0, b1 = z3.Ints("a0 a1 b0 b1")
    bits = [z3.Or(v == 0, v == 1) for v in (a0, a1, b0, b1)]
    ibs = sum((z3.If(x == y, 1, 0) for x in (a0, a1) for y in (b0, b1)), z3.IntVal(0))
    xa, xb = a0 + a1 - 1, b0 + b1 - 1
    ctx.prove("diploid:2*(IBS matches/4) == (1 + (xa-1)(xb-1))/1 per locus, i.e. matches == 2 + 2*xa*xb",
              bits, ibs == 2 + 2 * xa * xb)
    ctx.prove("haploid: IBS match == x*y + (1-x)(1-y)", [z3.Or(a0 == 0, a0 == 1), z3.Or(b0 == 0, b0 == 1)],
              z3.If(a0 == b0, 1, 0) == a0 * b0 + (1 - a0) * (1 - b0))
    # x'(ZZ')x = |Z'x|^2 >= 0 : stated for a general bilinear form with 2 columns (the sum over more columns is a sum of squares)
    x1, x2, z11, z12, z21, z22 = z3.Reals("x1 x2 z11 z12 z21 z22")
    quad = x1 * (z11 * z11 + z12 * z12) * x1 + 2 * x1 * (z11 * z21 + z12 * z22) * x2 + x2 * (z21 * z21 + z22 * z22) * x2
    ctx.prove("psd: x'(ZZ')x == |Z'x|^2 (2x2 instance) hence >= 0", [],
              z3.And(quad == (z11 * x1 + z21 * x2) ** 2 + (z12 * x1 + z22 * x2) ** 2, quad >= 0))
    w1, w2 = z3.Reals("w1 w2")
    quadw = x1 * (w1 * z11 * z11 + w2 * z12 * z12) * x1 + 2 * x1 * (w1 * z11 * z21 + w2 * z12 * z22) * x2 + x2 * (w1 * z21 * z21 + w2 * z22 * z22) * x2
    ctx.prove("psd: weighted Gram matrix with non-negative weights is positive semidefinite (2x2 instance)", [w1 >= 0, w2 >= 0], quadw >= 0)
