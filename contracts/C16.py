"""C16 -- see DESIGN.md §8 C16."""
from pyvc.unit import unit
P = "C16"
REPLAYERS = {}
try:
    from contracts.rings import C16 as _ring
    REPLAYERS.update(getattr(_ring, "REPLAYERS", {}))
except ImportError:
    _ring = None

import itertools
import numpy, z3
from pyvc import sym, oarr, loopcut
from pyvc.sym import cur, _t
from pyvc.oarr import OArr

H5 = "pybrops/core/util/h5py.py"
ABSENT = "<absent>"


class FileProxy:
    """abstract HDF5 file: a finite map path -> stored value.  For every path that the run touches the
    pre-state (present with an arbitrary old value / absent) is a non-deterministic choice (forked)."""

    def __init__(self):
        self.map = {}
        self.pre = {}
        self.log = []

    def _touch(self, path):
        if path not in self.map:
            present = cur().fork("pre:" + path)
            v = ("old", path) if present else ABSENT
            self.map[path] = v
            self.pre[path] = v

    def __contains__(self, path):
        # a group exists if something is stored below it (or it was created empty: its own pre-state choice)
        if any(q.startswith(path + "/") and v is not ABSENT for q, v in self.map.items()):
            self.map.setdefault(path, ("group", path))
            self.pre.setdefault(path, self.map[path])
            if self.map[path] is ABSENT:
                self.map[path] = ("group", path)
            return True
        self._touch(path)
        return self.map[path] is not ABSENT

    def __delitem__(self, path):
        self._touch(path)
        if self.map[path] is ABSENT:
            raise KeyError("Couldn't delete link (name doesn't exist)")
        self.map[path] = ABSENT
        for q in list(self.map):                  # deleting a group deletes everything below it
            if q.startswith(path + "/"):
                self.map[q] = ABSENT
        self.log.append(("del", path))

    def create_dataset(self, path, data=None, **kw):
        self._touch(path)
        if self.map[path] is not ABSENT:
            raise ValueError("Unable to create dataset (name already exists)")
        self.map[path] = data
        self.log.append(("create", path))


def _dict_shapes(tier):
    kinds = ["arr", "none", "nested"]
    out = []
    for nkeys in (1, 2, 3):
        for combo in itertools.product(kinds, repeat=nkeys):
            if nkeys == 3 and tier == "quick" and combo.count("nested") > 1:
                continue
            out.append(combo)
    return out


@unit(P, "A1[h5py_File_write_dict: last write wins, nothing stale, other paths untouched]", "A1", bounded=True,
      targets=[H5 + ":h5py_File_write_dict"],
      note="bounded(keys): dictionaries of <= 3 keys, values in {array, None, one-level nested dict}, every pre-state of the "
           "touched paths (present/absent); array contents, group name and old contents are arbitrary")
def u_write_dict(ctx):
    import importlib
    mod = importlib.import_module("pybrops.core.util.h5py")
    ctx.trust("h5py.File modelled as a finite map path -> value with `in`, `del` (also removes everything below a group) and "
              "create_dataset (raises if the name exists); reading returns the stored value")
    f = loopcut.Extracted(H5 + ":h5py_File_write_dict", overrides={
        "check_is_h5py_File": lambda *a: None, "check_h5py_File_is_writable": lambda *a: None})
    f.globals["h5py_File_write_dict"] = f.fn          # the recursive call runs the same extracted code
    ex = ctx.explorer(max_paths=100000)
    for shape in _dict_shapes(ctx.tier):
        tag = "write_dict{%s}" % ",".join(shape)

        def thunk(shape=shape, tag=tag):
            e = cur()
            fp = FileProxy()
            d = {}
            expect = {}
            g = "grp/"
            for i, kind in enumerate(shape):
                key = "k%d" % i
                if kind == "arr":
                    d[key] = OArr.fresh("v%d" % i, (sym.fresh_int("n%d" % i, 0),), "float64")
                    expect[g + key] = d[key]
                elif kind == "none":
                    d[key] = None
                    expect[g + key] = ABSENT
                else:
                    inner = OArr.fresh("w%d" % i, (sym.fresh_int("m%d" % i, 0),), "int64")
                    d[key] = {"a": inner, "b": None}
                    expect[g + key + "/a"] = inner
                    expect[g + key + "/b"] = ABSENT
                    fp._touch(g + key + "/zz")          # an entry of a dictionary written earlier under this name
                    expect[g + key + "/zz"] = ABSENT
            fp._touch("grp/other")                   # a path outside the dictionary
            f(fp, g, d, True)
            for path, want in expect.items():
                fp._touch(path)
                got = fp.map[path]
                e.prove("%s:view[%s]==last-written" % (tag, path.replace("grp/", "")),
                        (got is want) if not isinstance(want, OArr) else (isinstance(got, OArr) and got._term.eq(want._term)))
            e.prove(tag + ":other-paths-untouched", fp.map["grp/other"] is fp.pre["grp/other"])
            return "ok"
        outs = ex.explore(thunk)
        raised = [o for o in outs if isinstance(o, sym.Raised)]
        ex.obligations.append(dict(name=tag + ":noraise", unit=ex.unit, kind="noraise", path=0,
                                   status="proved" if not raised else "refuted", solver="native", seconds=0.0, expect="proved",
                                   detail="; ".join(repr(r) for r in raised[:2]) + ("\n" + raised[0].tb[-700:] if raised else "")))
    ctx.absorb(ex)


@unit(P, "frame[copy operations keep no state between calls: no mutable parameter default in any copy/deepcopy method]", "A1",
      targets=[])
def u_copy_frame(ctx):
    """a copy's result must be a function of its source (and the memo the caller passes): a mutable default argument is
    state shared by every call.  Obligation per method, read from the current AST of every module of the package."""
    import os
    from pyvc import frames, REPO
    ctx.trust("syntactic frame: a default that is a list/dict/set display or a call is a per-process object shared by all calls")
    k = 0
    for root, dirs, files in os.walk(os.path.join(REPO, "pybrops")):
        dirs[:] = sorted(d for d in dirs if d != "__pycache__")
        for f in sorted(files):
            if not f.endswith(".py"):
                continue
            rel = os.path.relpath(os.path.join(root, f), REPO)
            try:
                ms = frames.methods_named(rel, ("copy", "deepcopy", "__copy__", "__deepcopy__"))
            except SyntaxError:
                continue
            if ms:
                ctx.extra_files = getattr(ctx, "extra_files", set()) | {rel}
            for q, node in ms:
                bad = frames.mutable_defaults(node)
                k += 1
                ctx.record("frame:%s:%s:no-state-between-calls" % (rel, q), not bad, kind="frame",
                           detail="mutable defaults: %s" % bad)
    ctx.record("frame:copy-methods-found", k >= 40, kind="cover", detail="%d copy methods" % k)
