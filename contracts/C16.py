"""C16 -- see DESIGN.md §8 C16."""
from pyvc.unit import unit
P = "C16"
REPLAYERS = {}
try:
    from contracts.rings import C16 as _ring
    REPLAYERS.update(getattr(_ring, "REPLAYERS", {}))
except ImportError:
    _ring = None
