"""C16 -- see DESIGN.md §8 C16."""
from pyvc.unit import unit
P = "C16"
REPLAYERS = {}
try:
    from contracts.rings import C16 as _ring
    REPLAYERS.update(getattr(_ring, "REPLAYERS", {}))
except ImportError:
    _ring = None

import itertools
import numpy, z3
from pyvc import sym, oarr, loopcut
from pyvc.sym import cur, _t
from pyvc.oarr import OArr

H5 = "pybrops/core/util/h5py.py"
ABSENT = "<absent>"


class FileProxy:
    """abstract HDF5 file: a finite map path -> stored value.  For every path that the run touches the
    pre-state (present with an arbitrary old value / absent) is a non-deterministic choice (forked)."""

    def __init__(self):
        self.map = {}
        self.pre = {}
        self.log = []

    def _touch(self, path):
        if path not in self.map:
            present = cur().fork("pre:" + path)
            v = ("old", path) if present else ABSENT
            self.map[path] = v
            self.pre[path] = v

    def __contains__(self, path):
        # a group exists if something is stored below it (or it was created empty: its own pre-state choice)
        if any(q.startswith(path + "/") and v is not ABSENT for q, v in self.map.items()):
            self.map.setdefault(path, ("group", path))
            self.pre.setdefault(path, self.map[path])
            if self.map[path] is ABSENT:
                self.map[path] = ("group", path)
            return True
        self._touch(path)
        return self.map[path] is not ABSENT

    def __delitem__(self, path):
        self._touch(path)
        if self.map[path] is ABSENT:
            raise KeyError("Couldn't delete link (name doesn't exist)")
        self.map[path] = ABSENT
        for q in list(self.map):                  # deleting a group deletes everything below it
            if q.startswith(path + "/"):
                self.map[q] = ABSENT
        self.log.append(("del", path))

    def create_dataset(self, path, data=None, **kw):
        self._touch(path)
        if self.map[path] is not ABSENT:
            raise ValueError("Unable to create dataset (name already exists)")
        self.map[path] = data
        self.log.append(("create", path))


def _dict_shapes(tier):
    kinds = ["arr", "none", "nested"]
    out = []
    for nkeys in (1, 2, 3):
        for combo in itertools.product(kinds, repeat=nkeys):
            if nkeys == 3 and tier == "quick" and combo.count("nested") > 1:
                continue
            out.append(combo)
    return out


@unit(P, "A1[h5py_File_write_dict: last write wins, nothing stale, other paths untouched]", "A1", bounded=True,
      targets=[H5 + ":h5py_File_write_dict"],
      note="bounded(keys): dictionaries of <= 3 keys, values in {array, None, one-level nested dict}, every pre-state of the "
           "touched paths (present/absent); array contents, group name and old contents are arbitrary")
def u_write_dict(ctx):
    import importlib
    mod = importlib.import_module("pybrops.core.util.h5py")
    ctx.trust("h5py.File modelled as a finite map path -> value with `in`, `del` (also removes everything below a group) and "
              "create_dataset (raises if the name exists); reading returns the stored value")
    f = loopcut.Extracted(H5 + ":h5py_File_write_dict", overrides={
        "check_is_h5py_File": lambda *a: None, "check_h5py_File_is_writable": lambda *a: None})
    f.globals["h5py_File_write_dict"] = f.fn          # the recursive call runs the same extracted code
    ex = ctx.explorer(max_paths=100000)
    for shape in _dict_shapes(ctx.tier):
        tag = "write_dict{%s}" % ",".join(shape)

        def thunk(shape=shape, tag=tag):
            e = cur()
            fp = FileProxy()
            d = {}
            expect = {}
            g = "grp/"
            for i, kind in enumerate(shape):
                key = "k%d" % i
                if kind == "arr":
                    d[key] = OArr.fresh("v%d" % i, (sym.fresh_int("n%d" % i, 0),), "float64")
                    expect[g + key] = d[key]
                elif kind == "none":
                    d[key] = None
                    expect[g + key] = ABSENT
                else:
                    inner = OArr.fresh("w%d" % i, (sym.fresh_int("m%d" % i, 0),), "int64")
                    d[key] = {"a": inner, "b": None}
                    expect[g + key + "/a"] = inner
                    expect[g + key + "/b"] = ABSENT
                    fp._touch(g + key + "/zz")          # an entry of a dictionary written earlier under this name
                    expect[g + key + "/zz"] = ABSENT
            fp._touch("grp/other")                   # a path outside the dictionary
            f(fp, g, d, True)
            for path, want in expect.items():
                fp._touch(path)
                got = fp.map[path]
                e.prove("%s:view[%s]==last-written" % (tag, path.replace("grp/", "")),
                        (got is want) if not isinstance(want, OArr) else (isinstance(got, OArr) and got._term.eq(want._term)))
            e.prove(tag + ":other-paths-untouched", fp.map["grp/other"] is fp.pre["grp/other"])
            return "ok"
        outs = ex.explore(thunk)
        raised = [o for o in outs if isinstance(o, sym.Raised)]
        ex.obligations.append(dict(name=tag + ":noraise", unit=ex.unit, kind="noraise", path=0,
                                   status="proved" if not raised else "refuted", solver="native", seconds=0.0, expect="proved",
                                   detail="; ".join(repr(r) for r in raised[:2]) + ("\n" + raised[0].tb[-700:] if raised else "")))
    ctx.absorb(ex)


@unit(P, "frame[copy operations keep no state between calls: no mutable parameter default in any copy/deepcopy method]", "A1",
      targets=[])
def u_copy_frame(ctx):
    """a copy's result must be a function of its source (and the memo the caller passes): a mutable default argument is
    state shared by every call.  Obligation per method, read from the current AST of every module of the package."""
    import os
    from pyvc import frames, REPO
    ctx.trust("syntactic frame: a default that is a list/dict/set display or a call is a per-process object shared by all calls")
    k = 0
    for root, dirs, files in os.walk(os.path.join(REPO, "pybrops")):
        dirs[:] = sorted(d for d in dirs if d != "__pycache__")
        for f in sorted(files):
            if not f.endswith(".py"):
                continue
            rel = os.path.relpath(os.path.join(root, f), REPO)
            try:
                ms = frames.methods_named(rel, ("copy", "deepcopy", "__copy__", "__deepcopy__"))
            except SyntaxError:
                continue
            if ms:
                ctx.extra_files = getattr(ctx, "extra_files", set()) | {rel}
            for q, node in ms:
                bad = frames.mutable_defaults(node)
                k += 1
                ctx.record("frame:%s:%s:no-state-between-calls" % (rel, q), not bad, kind="frame",
                           detail="mutable defaults: %s" % bad)
    ctx.record("frame:copy-methods-found", k >= 40, kind="cover", detail="%d copy methods" % k)


# ---------------------------------------------------------------------------------------------------
# to_hdf5 / from_hdf5 field wiring (A1): from_hdf5(to_hdf5(x)).a is read back from exactly what x.a stored, for every field
import ast
from pyvc import loopcut

HDF5_CLASSES = [
    ("pybrops/core/mat/DenseMatrix.py", "DenseMatrix"),
    ("pybrops/core/mat/DenseTaxaMatrix.py", "DenseTaxaMatrix"),
    ("pybrops/core/mat/DenseTraitMatrix.py", "DenseTraitMatrix"),
    ("pybrops/core/mat/DenseVariantMatrix.py", "DenseVariantMatrix"),
    ("pybrops/core/mat/DenseTaxaTraitMatrix.py", "DenseTaxaTraitMatrix"),
    ("pybrops/core/mat/DenseTaxaVariantMatrix.py", "DenseTaxaVariantMatrix"),
    ("pybrops/core/mat/DenseSquareTaxaSquareTraitMatrix.py", "DenseSquareTaxaSquareTraitMatrix"),
    ("pybrops/popgen/gmat/DenseGenotypeMatrix.py", "DenseGenotypeMatrix"),
    ("pybrops/popgen/bvmat/DenseBreedingValueMatrix.py", "DenseBreedingValueMatrix"),
    ("pybrops/model/gmod/DenseLinearGenomicModel.py", "DenseLinearGenomicModel"),
    ("pybrops/model/gmod/DenseAdditiveLinearGenomicModel.py", "DenseAdditiveLinearGenomicModel"),
    ("pybrops/model/gmod/DenseAdditiveDominanceLinearGenomicModel.py", "DenseAdditiveDominanceLinearGenomicModel"),
]
STRING_FIELDS = {"taxa", "trait", "vrnt_name", "vrnt_hapalt", "vrnt_hapref", "model_name"}       # text: must be read back through a utf-8 decoding reader
DICT_FIELDS = {"hyperparams"}


class _AFile:
    """abstract file for the wiring proof: path -> stored token (write_dict's own contract is the unit above)"""

    def __init__(self):
        self.map, self.closed = {}, False

    def __contains__(self, k):
        return k.rstrip("/") in self.map or any(q.startswith(k.rstrip("/") + "/") for q in self.map)

    def close(self):
        self.closed = True


class _H5:
    File = _AFile


class _Src:
    """source object: every attribute read yields a distinct token (or None for an absent optional field)"""

    def __init__(self, absent=()):
        object.__setattr__(self, "_reads", {})
        object.__setattr__(self, "_absent", set(absent))

    def __getattr__(self, a):
        if a.startswith("__"):
            raise AttributeError(a)
        if a not in self._reads:
            self._reads[a] = None if a in self._absent else loopcut.Token("self." + a)
        return self._reads[a]


def _wiring(ctx, rel, cls):
    tree = ast.parse(loopcut.read_source(rel))
    tnode = loopcut.find_def(tree, cls + ".to_hdf5")
    fnode = loopcut.find_def(tree, cls + ".from_hdf5")

    def names(node, pred):
        return sorted({n.id for n in ast.walk(node) if isinstance(n, ast.Name) and pred(n.id)})
    written = []

    import pybrops.core.util.h5py as _H

    def write_dict(h5file, groupname, in_dict, overwrite=True):
        # contract of h5py_File_write_dict (proved above): after the call path groupname+k holds data[k]; None leaves nothing
        data = in_dict
        written.append((groupname, dict(data), overwrite))
        for k, v in data.items():
            h5file.map.pop(groupname + k, None)
            if v is not None:
                h5file.map[groupname + k] = v
    ov_t = {"h5py": _H5, "h5py_File_write_dict": loopcut.like(_H.h5py_File_write_dict, write_dict)}
    ov_t.update({n: (lambda *a, **k: None) for n in names(tnode, lambda s: s.startswith("check_"))})
    to = loopcut.Extracted(rel + ":" + cls + ".to_hdf5", overrides=ov_t)

    def reader(kind):
        def rd(h5file, fieldname):
            path = fieldname
            if path not in h5file.map:
                raise KeyError("read of a path that was never written: %s" % path)
            return (kind, h5file.map[path])
        return rd
    ov_f = {"h5py": _H5}
    ov_f.update({n: loopcut.like(getattr(_H, n), reader(n[len("h5py_File_read_"):]))
                 for n in names(fnode, lambda s: s.startswith("h5py_File_read_")) if hasattr(_H, n)})

    def has_group(*a, **k):
        h5file, path = (list(a) + list(k.values()))[:2]
        if path not in h5file:
            raise LookupError("group %s missing" % path)
    ov_f.update({n: (has_group if n == "check_h5py_File_has_group" else (lambda *a, **k: None))
                 for n in names(fnode, lambda s: s.startswith("check_"))})
    fr = loopcut.Extracted(rel + ":" + cls + ".from_hdf5", overrides=ov_f)
    built = []

    class Rec:
        def __init__(self, **kw):
            object.__setattr__(self, "fields", dict(kw))
            built.append(self)

        def __setattr__(self, k, v):
            self.fields[k] = v

    # which optional fields exist: those from_hdf5 guards with `<key> in h5file`
    for gname, tag in (("grp", "in-group"), (None, "at-root")):
        # 1: every field present
        src = _Src()
        f1 = _AFile()
        del written[:], built[:]
        to(src, f1, gname)
        reads = dict(src._reads)
        ctx.record("%s:%s:to_hdf5-writes-once-through-write_dict" % (cls, tag), len(written) == 1, detail=str(written)[:300])
        keys = written[0][1] if written else {}
        stored = [v for v in keys.values()]
        ctx.record("%s:%s:to_hdf5-stores-every-field-it-reads-under-a-key-of-its-own" % (cls, tag),
                   bool(keys) and all(any(v is t for v in stored) for t in reads.values())
                   and len({id(v) for v in stored}) == len(stored) and all(any(v is t for t in reads.values()) for v in stored),
                   detail="keys %s reads %s" % (sorted(keys), sorted(reads)))
        ctx.record("%s:%s:caller's-handle-left-open" % (cls, tag), not f1.closed)
        out = fr(Rec, f1, gname)
        ctx.record("%s:%s:from_hdf5-builds-one-object" % (cls, tag), len(built) == 1 and out is built[0])
        got = built[0].fields if built else {}
        for a in sorted(reads):
            v = got.get(a)
            ok = isinstance(v, tuple) and len(v) == 2 and v[1] is reads[a]
            ctx.record("%s:%s:field %s is read back from what field %s stored" % (cls, tag, a, a), ok, detail="got %r" % (v,))
            if ok:
                kind = v[0]
                want = ("utf8" in kind) if a in STRING_FIELDS else (("dict" in kind) if a in DICT_FIELDS else ("utf8" not in kind and "dict" not in kind))
                ctx.record("%s:%s:field %s read with a reader of its kind (%s)" % (cls, tag, a, kind), want)
        ctx.record("%s:%s:no-field-invented" % (cls, tag), set(got) <= set(reads), detail=str(sorted(set(got) - set(reads))))
        # 2: every optional field absent (None): nothing stale is read, the fields come back as None
        req = set()
        for n in ast.walk(fnode):
            if isinstance(n, ast.Assign) and isinstance(n.targets[0], ast.Name) and n.targets[0].id == "required_fields":
                req = {e.value for e in n.value.elts}
        src2 = _Src(absent=set(reads) - req)
        f2 = _AFile()
        f2.map.update({("%s/" % gname if gname else "") + k: loopcut.Token("stale." + k) for k in reads if k not in req})   # stale leftovers
        del written[:], built[:]
        to(src2, f2, gname)
        out2 = fr(Rec, f2, gname)
        got2 = built[0].fields if built else {}
        ctx.record("%s:%s:absent-optional-fields-come-back-as-None-even-over-a-file-that-held-them" % (cls, tag),
                   all(got2.get(a) is None for a in reads if a not in req) and all(isinstance(got2.get(a), tuple) for a in req),
                   detail=str({a: got2.get(a) for a in reads})[:400])


@unit(P, "A1[to_hdf5 / from_hdf5 field wiring: every field is read back from exactly what it stored, absent fields stay absent]", "A1",
      targets=[r + ":" + c + "." + m for r, c in HDF5_CLASSES for m in ("to_hdf5", "from_hdf5")])
def u_h5_wiring(ctx):
    """proxy execution of the real to_hdf5 / from_hdf5 of 12 classes on token-valued fields over an abstract file; the
    write routine is replaced by its contract (the write_dict unit), readers by tagging stubs, the constructor by a recorder"""
    ctx.trust("h5py.File modelled as a finite path -> value map; array contents are opaque tokens (value round trip of h5py itself is the ring's)")
    for rel, cls in HDF5_CLASSES:
        try:
            _wiring(ctx, rel, cls)
        except Exception as ex_:
            import traceback
            ctx.record("%s:wiring-harness-ran" % cls, False, kind="unsupported", detail="UNSUPPORTED " + traceback.format_exc()[-900:])
