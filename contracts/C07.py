"""C07 -- see DESIGN.md §8 C07."""
from pyvc.unit import unit
P = "C07"
REPLAYERS = {}
try:
    from contracts.rings import C07 as _ring
    REPLAYERS.update(getattr(_ring, "REPLAYERS", {}))
except ImportError:
    _ring = None
