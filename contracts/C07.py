"""C07 -- see DESIGN.md §8 C07."""
from pyvc.unit import unit
P = "C07"
REPLAYERS = {}
try:
    from contracts.rings import C07 as _ring
    REPLAYERS.update(getattr(_ring, "REPLAYERS", {}))
except ImportError:
    _ring = None

import ast
import numpy, z3
from pyvc import sym, barr, modeb, loopcut
from pyvc.sym import cur, _t

SEL = "pybrops/breed/prot/sel/"
PROTOCOLS = ["SubsetSelectionProtocol", "RealSelectionProtocol", "IntegerSelectionProtocol", "BinarySelectionProtocol"]
R = lambda x: (z3.ToReal(_t(x)) if _t(x).sort() == z3.IntSort() else _t(x))


def _select_unit(ctx, clsname):
    rel = SEL + clsname + ".py"
    node = loopcut.find_def(ast.parse(loopcut.read_source(rel)), clsname + ".select")
    cfgnames = sorted({n.id for n in ast.walk(node) if isinstance(n, ast.Name) and n.id.endswith("SelectionConfiguration")})
    built = []

    class Cfg:
        def __init__(self, **kw):
            self.kw = kw
            built.append(self)
    ov = {c: Cfg for c in cfgnames}
    ov.update({n.id: (lambda *a: None) for n in ast.walk(node) if isinstance(n, ast.Name) and n.id.startswith("check_")})
    f = loopcut.Extracted(rel + ":" + clsname + ".select", overrides=ov)

    def body(e, shape, tag):
        nobj, nsoln, ndecn = shape
        del built[:]
        tok = {k: object() for k in ("pgmat", "gmat", "ptdf", "bvmat", "gpmod")}
        decn = numpy.arange(nsoln * ndecn).reshape(nsoln, ndecn) + 100
        objs = barr.fresh("F", (nsoln, nobj), "float64")
        score = barr.fresh("s", (nsoln,), "float64")
        calls = []

        class Soln:
            soln_decn = decn
            soln_obj = objs

        import importlib
        me = loopcut.stub_of(getattr(importlib.import_module("pybrops.breed.prot.sel." + clsname), clsname))
        me.nobj = nobj
        me.ncross, me.nparent, me.nmating, me.nprogeny = object(), object(), object(), object()
        w = sym.fresh_real("ndset_wt")
        e.assume(w.t != 0)
        me.ndset_wt = w
        kwargs_tok = {"obj_wt": object(), "vec_wt": object()}
        me.ndset_trans_kwargs = kwargs_tok

        def trans(mat, **kw):
            calls.append(("trans", mat, kw))
            return score
        me.ndset_trans = trans

        def solve(kind):
            def g(**kw):
                calls.append((kind, kw))
                return Soln()
            return g
        me.sosolve, me.mosolve = solve("sosolve"), solve("mosolve")
        misc = {}
        out = f(me, tok["pgmat"], tok["gmat"], tok["ptdf"], tok["bvmat"], tok["gpmod"], 3, 9, misc)
        e.prove(tag + ":returns-the-configuration-it-built", len(built) == 1 and out is built[0])
        kw = out.kw
        e.prove(tag + ":cross-design-parameters-and-population-forwarded",
                kw.get("ncross") is me.ncross and kw.get("nparent") is me.nparent and kw.get("nmating") is me.nmating
                and kw.get("nprogeny") is me.nprogeny and kw.get("pgmat") is tok["pgmat"])
        solver = [c for c in calls if c[0] in ("sosolve", "mosolve")]
        e.prove(tag + ":solves-once-with-the-optimiser-for-its-objective-count",
                len(solver) == 1 and solver[0][0] == ("sosolve" if nobj == 1 else "mosolve")
                and all(solver[0][1].get(k) is v for k, v in tok.items()))
        chosen = [int(v) for v in numpy.asarray(kw["xconfig_decn"]).reshape(-1)]
        if nobj == 1:
            e.prove(tag + ":single-objective:configuration-from-the-first-solution", chosen == [int(v) for v in decn[0]])
        else:
            tr = [c for c in calls if c[0] == "trans"]
            e.prove(tag + ":transformation-applied-to-the-front-objectives-with-the-declared-kwargs",
                    len(tr) == 1 and tr[0][1] is objs and tr[0][2] == kwargs_tok and all(tr[0][2][k] is v for k, v in kwargs_tok.items()))
            row = [i for i in range(nsoln) if chosen == [int(v) for v in decn[i]]]
            e.prove(tag + ":configuration-is-a-row-of-the-front", len(row) == 1)
            if len(row) == 1:
                ix = row[0]
                e.prove(tag + ":chosen-row-maximises-ndset_wt*ndset_trans(front)",
                        z3.And(*[w.t * R(score[ix]) >= w.t * R(score[i]) for i in range(nsoln)]))
        return "ok"
    shapes = [(1, 1, 2), (1, 3, 2), (2, 1, 2), (2, 2, 3), (2, 3, 2), (3, 3, 1)]
    modeb.run_shapes(ctx, clsname + ".select", shapes, body)


def _reg_select(clsname):
    @unit(P, "B[%s.select: configuration from the solution that maximises the declared preference]" % clsname, "B", bounded=True,
          targets=[SEL + clsname + ".py:" + clsname + ".select"],
          note="bounded(shape): fronts of <= 3 solutions, <= 3 objectives; objective values, transformation scores and ndset_wt symbolic")
    def u(ctx):
        _select_unit(ctx, clsname)
    return u


for _c in PROTOCOLS:
    _reg_select(_c)


# ---------------------------------------------------------------------------------------------------
# sample_xconfig of the eight configuration classes: which sampler gets which option set / weights, with replacement off,
# the requested shape and the configuration's own generator; post-processing order; result stored and returned
CFG = SEL + "cfg/"
CONFIGS = {
    # class: (sampler, encoding of the decision, mate?)
    "SubsetSelectionConfiguration": ("tiled_choice", "subset", False),
    "IntegerSelectionConfiguration": ("tiled_choice", "count", False),
    "BinarySelectionConfiguration": ("tiled_choice", "count", False),
    "RealSelectionConfiguration": ("stochastic_universal_sampling", "weight", False),
    "SubsetMateSelectionConfiguration": ("tiled_choice", "subset", True),
    "IntegerMateSelectionConfiguration": ("tiled_choice", "count", True),
    "BinaryMateSelectionConfiguration": ("tiled_choice", "count", True),
    "RealMateSelectionConfiguration": ("stochastic_universal_sampling", "weight", True),
}


@unit(P, "A1[sample_xconfig of the eight configuration classes: sampler, option set / weights, shape, generator, post-processing]", "A1",
      targets=[CFG + c + ".py:" + c + ".sample_xconfig" for c in sorted(CONFIGS)])
def u_sample_xconfig(ctx):
    """proxy execution of the real methods with recording stand-ins for the four sampling subroutines (their own contracts:
    C17) and a recording generator; the decision vector is concrete data of no particular meaning"""
    ctx.trust("the sampling subroutines are used through their contracts (C17): tiled_choice(options, size, replace=False) uses every option "
              "equally often up to one; stochastic_universal_sampling(a, p, size) selects a[i] floor/ceil(size*p_i/sum p) times; "
              "outcross_shuffle / axis_shuffle / Generator.shuffle permute their argument in place")
    for cname, (sampler, enc, mate) in sorted(CONFIGS.items()):
        log = []
        tok_rng = loopcut.Token("self.rng")

        class Rng:
            def shuffle(self_, x, axis=0):
                log.append(("rng.shuffle", x))
        rng = Rng()

        def rec(nm):
            import inspect
            import pybrops.core.random.sampling as S
            sig = inspect.signature(getattr(S, nm))

            def f_(*a, **k):
                b = sig.bind(*a, **k)          # positional or keyword: the arguments are read by parameter name
                b.apply_defaults()
                log.append((nm, b.arguments))
                if nm in ("tiled_choice", "stochastic_universal_sampling"):
                    size = b.arguments["size"]
                    f_.out = numpy.arange(int(numpy.prod(size))).reshape(size) % 3
                    return f_.out
                return None
            return f_
        recs = {n_: rec(n_) for n_ in ("tiled_choice", "stochastic_universal_sampling", "outcross_shuffle", "axis_shuffle")}
        f = loopcut.Extracted(CFG + cname + ".py:" + cname + ".sample_xconfig", overrides=recs)

        import importlib
        me = loopcut.stub_of(getattr(importlib.import_module("pybrops.breed.prot.sel.cfg." + cname), cname))
        me.rng = rng
        me.ncross, me.nparent = 4, 2
        if enc == "subset":
            me.xconfig_decn = numpy.array([7, 2, 5])
        elif enc == "count":
            me.xconfig_decn = numpy.array([2, 0, 1, 3])
        else:
            me.xconfig_decn = numpy.array([0.25, 0.0, 0.5, 0.25])
        me.xconfig_xmap = numpy.array([[0, 1], [0, 2], [1, 2], [2, 2]])
        out = f(me, True)
        names = [c[0] for c in log]
        smp = [c for c in log if c[0] in ("tiled_choice", "stochastic_universal_sampling")]
        ok_one = len(smp) == 1 and smp[0][0] == sampler
        ctx.record("%s:draws-once-with-%s" % (cname, sampler), ok_one, detail=str(names))
        if not ok_one:
            continue
        arg = smp[0][1]
        size = arg["size"]
        want_size = (me.ncross,) if mate else (me.ncross, me.nparent)
        ctx.record("%s:requested-shape-is-%s" % (cname, "(ncross,)" if mate else "(ncross,nparent)"),
                   tuple(size if isinstance(size, (tuple, list)) else (size,)) == want_size, detail=str(size))
        ctx.record("%s:sampler-draws-from-the-configuration's-generator" % cname, arg.get("rng") is rng, detail=str(arg.get("rng")))
        n = len(me.xconfig_decn)
        if sampler == "tiled_choice":
            opts = numpy.asarray(arg["a"])
            want = me.xconfig_decn if enc == "subset" else numpy.repeat(numpy.arange(n), me.xconfig_decn)
            ctx.record("%s:options-are-%s" % (cname, "the chosen subset" if enc == "subset" else "each index repeated by its count"),
                       opts.shape == want.shape and bool((opts == want).all()), detail="%s vs %s" % (opts.tolist(), want.tolist()))
            ctx.record("%s:without-replacement" % cname, arg["replace"] is False, detail=str(arg["replace"]))
        else:
            ctx.record("%s:elements-are-the-indices-and-weights-are-the-contributions" % cname,
                       numpy.array_equal(numpy.asarray(arg["a"]), numpy.arange(n)) and numpy.array_equal(numpy.asarray(arg["p"]), me.xconfig_decn),
                       detail=str((arg["a"], arg["p"])))
        drawn = recs[sampler].out
        if mate:
            ctx.record("%s:then-shuffles-the-draw-with-its-generator-and-looks-the-crosses-up-in-the-cross-map" % cname,
                       names == [sampler, "rng.shuffle"] and log[1][1] is drawn and numpy.array_equal(out, me.xconfig_xmap[drawn, :]),
                       detail=str(names))
        else:
            ctx.record("%s:then-outcross_shuffle-then-axis_shuffle(axis 0)-on-the-draw-with-its-generator" % cname,
                       names == [sampler, "outcross_shuffle", "axis_shuffle"] and log[1][1]["xconfig"] is drawn and log[1][1]["rng"] is rng
                       and log[2][1]["a"] is drawn and log[2][1]["axis"] in (0, (0,)) and log[2][1]["rng"] is rng, detail=str(names))
        ctx.record("%s:result-stored-and-returned" % cname, out is me.xconfig and (mate or out is drawn))
