"""C07 -- see DESIGN.md §8 C07."""
from pyvc.unit import unit
P = "C07"
REPLAYERS = {}
try:
    from contracts.rings import C07 as _ring
    REPLAYERS.update(getattr(_ring, "REPLAYERS", {}))
except ImportError:
    _ring = None

import ast
import numpy, z3
from pyvc import sym, barr, modeb, loopcut
from pyvc.sym import cur, _t

SEL = "pybrops/breed/prot/sel/"
PROTOCOLS = ["SubsetSelectionProtocol", "RealSelectionProtocol", "IntegerSelectionProtocol", "BinarySelectionProtocol"]
R = lambda x: (z3.ToReal(_t(x)) if _t(x).sort() == z3.IntSort() else _t(x))


def _select_unit(ctx, clsname):
    rel = SEL + clsname + ".py"
    node = loopcut.find_def(ast.parse(loopcut.read_source(rel)), clsname + ".select")
    cfgnames = sorted({n.id for n in ast.walk(node) if isinstance(n, ast.Name) and n.id.endswith("SelectionConfiguration")})
    built = []

    class Cfg:
        def __init__(self, **kw):
            self.kw = kw
            built.append(self)
    ov = {c: Cfg for c in cfgnames}
    ov.update({n.id: (lambda *a: None) for n in ast.walk(node) if isinstance(n, ast.Name) and n.id.startswith("check_")})
    f = loopcut.Extracted(rel + ":" + clsname + ".select", overrides=ov)

    def body(e, shape, tag):
        nobj, nsoln, ndecn = shape
        del built[:]
        tok = {k: object() for k in ("pgmat", "gmat", "ptdf", "bvmat", "gpmod")}
        decn = numpy.arange(nsoln * ndecn).reshape(nsoln, ndecn) + 100
        objs = barr.fresh("F", (nsoln, nobj), "float64")
        score = barr.fresh("s", (nsoln,), "float64")
        calls = []

        class Soln:
            soln_decn = decn
            soln_obj = objs

        class Me:
            pass
        me = Me()
        me.nobj = nobj
        me.ncross, me.nparent, me.nmating, me.nprogeny = object(), object(), object(), object()
        w = sym.fresh_real("ndset_wt")
        e.assume(w.t != 0)
        me.ndset_wt = w
        kwargs_tok = {"obj_wt": object(), "vec_wt": object()}
        me.ndset_trans_kwargs = kwargs_tok

        def trans(mat, **kw):
            calls.append(("trans", mat, kw))
            return score
        me.ndset_trans = trans

        def solve(kind):
            def g(**kw):
                calls.append((kind, kw))
                return Soln()
            return g
        me.sosolve, me.mosolve = solve("sosolve"), solve("mosolve")
        misc = {}
        out = f(me, tok["pgmat"], tok["gmat"], tok["ptdf"], tok["bvmat"], tok["gpmod"], 3, 9, misc)
        e.prove(tag + ":returns-the-configuration-it-built", len(built) == 1 and out is built[0])
        kw = out.kw
        e.prove(tag + ":cross-design-parameters-and-population-forwarded",
                kw.get("ncross") is me.ncross and kw.get("nparent") is me.nparent and kw.get("nmating") is me.nmating
                and kw.get("nprogeny") is me.nprogeny and kw.get("pgmat") is tok["pgmat"])
        solver = [c for c in calls if c[0] in ("sosolve", "mosolve")]
        e.prove(tag + ":solves-once-with-the-optimiser-for-its-objective-count",
                len(solver) == 1 and solver[0][0] == ("sosolve" if nobj == 1 else "mosolve")
                and all(solver[0][1].get(k) is v for k, v in tok.items()))
        chosen = [int(v) for v in numpy.asarray(kw["xconfig_decn"]).reshape(-1)]
        if nobj == 1:
            e.prove(tag + ":single-objective:configuration-from-the-first-solution", chosen == [int(v) for v in decn[0]])
        else:
            tr = [c for c in calls if c[0] == "trans"]
            e.prove(tag + ":transformation-applied-to-the-front-objectives-with-the-declared-kwargs",
                    len(tr) == 1 and tr[0][1] is objs and tr[0][2] == kwargs_tok and all(tr[0][2][k] is v for k, v in kwargs_tok.items()))
            row = [i for i in range(nsoln) if chosen == [int(v) for v in decn[i]]]
            e.prove(tag + ":configuration-is-a-row-of-the-front", len(row) == 1)
            if len(row) == 1:
                ix = row[0]
                e.prove(tag + ":chosen-row-maximises-ndset_wt*ndset_trans(front)",
                        z3.And(*[w.t * R(score[ix]) >= w.t * R(score[i]) for i in range(nsoln)]))
        return "ok"
    shapes = [(1, 1, 2), (1, 3, 2), (2, 1, 2), (2, 2, 3), (2, 3, 2), (3, 3, 1)]
    modeb.run_shapes(ctx, clsname + ".select", shapes, body)


def _reg_select(clsname):
    @unit(P, "B[%s.select: configuration from the solution that maximises the declared preference]" % clsname, "B", bounded=True,
          targets=[SEL + clsname + ".py:" + clsname + ".select"],
          note="bounded(shape): fronts of <= 3 solutions, <= 3 objectives; objective values, transformation scores and ndset_wt symbolic")
    def u(ctx):
        _select_unit(ctx, clsname)
    return u


for _c in PROTOCOLS:
    _reg_select(_c)
