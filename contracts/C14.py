"""C14 -- see DESIGN.md §8 C14."""
from pyvc.unit import unit
P = "C14"
REPLAYERS = {}
try:
    from contracts.rings import C14 as _ring
    REPLAYERS.update(getattr(_ring, "REPLAYERS", {}))
except ImportError:
    _ring = None
