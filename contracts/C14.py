"""C14 -- see DESIGN.md §8 C14."""
from pyvc.unit import unit
P = "C14"
REPLAYERS = {}
try:
    from contracts.rings import C14 as _ring
    REPLAYERS.update(getattr(_ring, "REPLAYERS", {}))
except ImportError:
    _ring = None

import numpy, z3
from pyvc import sym, lemma, loopcut
from pyvc.lemma import real
from pyvc.sym import _t, cur

GE = "pybrops/breed/prot/pt/G_E_Phenotyping.py"


@unit(P, "lemma[set_h2 / set_H2 fix var_err so that var/(var+var_err) equals the target]", "L",
      targets=[GE + ":G_E_Phenotyping.set_h2", GE + ":G_E_Phenotyping.set_H2"])
def u_l_h2(ctx):
    """the assignment is executed from the real methods (extracted) on symbolic reals; the genomic model's variance
    routine is a stub returning an arbitrary positive variance"""
    for meth, vname in (("set_h2", "var_A"), ("set_H2", "var_G")):
        f = loopcut.Extracted(GE + ":G_E_Phenotyping.%s" % meth, overrides={"check_is_PhasedGenotypeMatrix": lambda *a: None})
        var = real("var")
        h = real("h")

        class GP:
            def var_A(self, pg): return var if vname == "var_A" else sym.Unsupported
            def var_G(self, pg): return var if vname == "var_G" else sym.Unsupported

        class Self:
            gpmod = GP()
            var_err = None
        me = Self()
        f(me, h, object())
        ve = _t(me.var_err)
        pre = [var.t > 0, h.t > 0, h.t <= 1]
        ctx.prove(meth + ": var/(var+var_err) == target heritability", pre, var.t / (var.t + ve) == h.t)
        ctx.prove(meth + ": var_err >= 0, and == 0 exactly when the target is 1", pre, z3.And(ve >= 0, (ve == 0) == (h.t == 1)))
        ctx.prove(meth + ": canary var_err == var", pre, ve == var.t, expect="fail", timeout_ms=3000)
