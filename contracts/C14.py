"""C14 -- see DESIGN.md §8 C14."""
from pyvc.unit import unit
P = "C14"
REPLAYERS = {}
try:
    from contracts.rings import C14 as _ring
    REPLAYERS.update(getattr(_ring, "REPLAYERS", {}))
except ImportError:
    _ring = None

import numpy, z3
from pyvc import sym, lemma, loopcut
from pyvc.lemma import real
from pyvc.sym import _t, cur

GE = "pybrops/breed/prot/pt/G_E_Phenotyping.py"


@unit(P, "lemma[set_h2 / set_H2 fix var_err so that var/(var+var_err) equals the target]", "L",
      targets=[GE + ":G_E_Phenotyping.set_h2", GE + ":G_E_Phenotyping.set_H2"])
def u_l_h2(ctx):
    """the assignment is executed from the real methods (extracted) on symbolic reals; the genomic model's variance
    routine is a stub returning an arbitrary positive variance"""
    fns = {m: loopcut.Extracted(GE + ":G_E_Phenotyping.%s" % m, overrides={"check_is_PhasedGenotypeMatrix": lambda *a: None})
           for m in ("set_h2", "set_H2")}
    for meth, vname in (("set_h2", "var_A"), ("set_H2", "var_G")):
        f = fns[meth]
        varA, varG = real("var_A"), real("var_G")          # two independent variances: the right one must be used
        var = varA if vname == "var_A" else varG
        h = real("h")

        class GP:
            def var_A(self, pg): return varA
            def var_G(self, pg): return varG

        class Self:
            gpmod = GP()
            var_err = None
            # sibling methods are the repository's own (a method that delegates to its sibling is followed)
            def set_h2(self, *a, **k): return fns["set_h2"](self, *a, **k)
            def set_H2(self, *a, **k): return fns["set_H2"](self, *a, **k)
        me = Self()
        f(me, h, object())
        ve = _t(me.var_err)
        pre = [varA.t > 0, varG.t > 0, h.t > 0, h.t <= 1]
        ctx.prove(meth + ": var/(var+var_err) == target heritability", pre, var.t / (var.t + ve) == h.t)
        ctx.prove(meth + ": var_err >= 0, and == 0 exactly when the target is 1", pre, z3.And(ve >= 0, (ve == 0) == (h.t == 1)))
        ctx.prove(meth + ": canary var_err == var", pre, ve == var.t, expect="fail", timeout_ms=3000)


# ---------------------------------------------------------------------------------------------------
# mode B: the real phenotype() on symbolic genotypic values and scripted (symbolic) normal draws
from pyvc import barr, modeb
R = lambda x: (z3.ToReal(_t(x)) if _t(x).sort() == z3.IntSort() else _t(x))


@unit(P, "B[G_E_Phenotyping.phenotype: one record per taxon x environment x replicate == true value + env + rep + error draw, labels carried]",
      "B", bounded=True, targets=[GE + ":G_E_Phenotyping.phenotype"],
      note="bounded(shape): ntaxa<=3, ntrait<=2, nenv<=2, nrep<=2 per environment (incl. unequal and zero); genotypic values, variances and "
           "every normal draw symbolic; a draw with zero variance equals its mean (assumed contract of multivariate_normal)")
def u_b_phenotype(ctx):
    f = loopcut.Extracted(GE + ":G_E_Phenotyping.phenotype", overrides={"check_is_PhasedGenotypeMatrix": lambda *a: None})
    ctx.trust("numpy.random multivariate_normal(mean, diag(v), [n]) returns a vector / n rows of the mean's length; components with zero variance equal the mean")

    def body(e, shape, tag):
        n, t, nreps, labelled = shape
        nenv = len(nreps)
        G = barr.fresh("g", (n, t), "float64")
        taxa = numpy.array(["L%d" % i for i in range(n)], dtype=object) if labelled else None
        grp = numpy.arange(n, dtype="int64") + 7 if labelled else None
        trait = numpy.array(["y%d" % k for k in range(t)], dtype=object) if labelled else None
        pgtok = object()
        calls = []

        class GV:
            ntaxa, ntrait = n, t
            taxa_grp = grp

            def unscale(self):
                return G
        GV.taxa, GV.trait = taxa, trait

        class GP:
            pass
        _gp = GP()
        from pybrops.model.gmod.DenseAdditiveLinearGenomicModel import DenseAdditiveLinearGenomicModel as _GM
        import functools as _ft
        # accepts exactly the calls the real method accepts (positional or gtobj=...)
        _gp.gegv = loopcut.like(_ft.partial(_GM.gegv, None), lambda gtobj, **kw: (calls.append(("gegv", gtobj)), GV())[1])

        class Rng:
            def __init__(self):
                self.draws = []

            def multivariate_normal(self, mean, cov, size=None, check_valid="warn", tol=1e-8, **kw):
                k = len(mean)
                shp = (k,) if size is None else (size, k)
                out = barr.fresh("z%d" % len(self.draws), shp, "float64")
                for idx in numpy.ndindex(*shp):
                    e.assume(z3.Implies(R(cov[idx[-1], idx[-1]]) == 0, R(out[idx]) == R(mean[idx[-1]])))
                self.draws.append(dict(mean=mean, cov=cov, size=size, out=out))
                return out

        from pybrops.breed.prot.pt.G_E_Phenotyping import G_E_Phenotyping as _Real
        me = loopcut.stub_of(_Real)
        me.gpmod, me.rng = _gp, Rng()
        me.nenv = nenv
        me.nrep = numpy.array(nreps, dtype="int64")
        me.var_env = barr.fresh("venv", (t,), "float64", 0, None)
        me.var_rep = barr.fresh("vrep", (t,), "float64", 0, None)
        me.var_err = barr.fresh("verr", (t,), "float64", 0, None)
        df = f(me, pgtok)
        nrow = n * sum(nreps)
        e.prove(tag + ":genotypic-values-from-the-bound-model-on-the-given-population", calls == [("gegv", pgtok)])
        e.prove(tag + ":one-record-per-taxon-environment-replicate", len(df) == nrow)
        cols = list(df.columns)
        tcols = list(trait) if labelled else ["Trait" + str(k + 1).zfill(int(numpy.ceil(numpy.log10(t))) + 1) for k in range(t)]
        e.prove(tag + ":columns", cols[:4] == ["taxa", "taxa_grp", "env", "rep"] and [str(c) for c in cols[4:]] == [str(c) for c in tcols])
        # expected draw protocol: per environment one env draw; per replicate one rep draw and one (ntaxa x t) error draw
        d = me.rng.draws
        e.prove(tag + ":number-of-draws", len(d) == nenv + 2 * sum(nreps))
        pos, row = 0, 0
        seen = set()
        for env in range(nenv):
            if pos >= len(d):
                break
            ed = d[pos]
            pos += 1
            for rep in range(nreps[env]):
                if pos + 1 >= len(d):
                    break
                rd, xd = d[pos], d[pos + 1]
                pos += 2
                for i in range(n):
                    r = df.iloc[row]
                    lab_ok = (r["taxa"] == (taxa[i] if labelled else "Taxon%s" % str(i + 1).zfill(int(numpy.ceil(numpy.log10(n))) + 1))
                              and int(r["env"]) == env + 1 and int(r["rep"]) == rep + 1
                              and ((int(r["taxa_grp"]) == int(grp[i])) if labelled else r["taxa_grp"] is None))
                    e.prove(tag + ":row%d:labels(taxon,group,env,rep)" % row, bool(lab_ok))
                    seen.add((i, env, rep))
                    for k in range(t):
                        e.prove(tag + ":row%d:trait%d==true-value+env+rep+error" % (row, k),
                                R(r[cols[4 + k]]) == R(G[i, k]) + R(ed["out"][k]) + R(rd["out"][k]) + R(xd["out"][i, k]))
                    row += 1
                for dd, var, sz in ((rd, me.var_rep, None), (xd, me.var_err, n)):
                    e.prove(tag + ":draw-size@%d" % pos, dd["size"] == sz)
                    e.prove(tag + ":draw-cov-is-diag(variance)@%d" % pos,
                            z3.And(*[R(dd["cov"][a, b]) == (R(var[a]) if a == b else z3.RealVal(0)) for a in range(t) for b in range(t)]
                                   + [R(dd["mean"][a]) == 0 for a in range(t)]))
            e.prove(tag + ":env-draw-cov-is-diag(var_env)@%d" % env,
                    z3.And(*[R(ed["cov"][a, b]) == (R(me.var_env[a]) if a == b else z3.RealVal(0)) for a in range(t) for b in range(t)]
                           + [R(ed["mean"][a]) == 0 for a in range(t)]))
        e.prove(tag + ":every-(taxon,env,rep)-exactly-once", len(seen) == nrow and row == nrow)
        # zero noise: every record equals the true genotypic value
        zero = z3.And(*[z3.And(R(me.var_env[k]) == 0, R(me.var_rep[k]) == 0, R(me.var_err[k]) == 0) for k in range(t)])
        if nrow:
            e.prove(tag + ":zero-variances=>records-equal-true-values",
                    z3.Implies(zero, z3.And(*[R(df.iloc[rw][cols[4 + k]]) == R(G[rw % n, k]) for rw in range(nrow) for k in range(t)])))
            e.prove(tag + ":canary:records-equal-true-values-with-noise",
                    z3.And(*[R(df.iloc[rw][cols[4 + k]]) == R(G[rw % n, k]) for rw in range(nrow) for k in range(t)]), expect="fail", timeout_ms=2000)
        return "ok"
    shapes = [(1, 1, (1,), True), (2, 1, (2,), True), (2, 2, (1, 2), True), (3, 1, (2, 0), False), (2, 1, (1, 1), False)]
    if ctx.tier == "thorough":
        shapes += [(3, 2, (2, 2), True), (3, 2, (1, 2), False)]
    modeb.run_shapes(ctx, "phenotype", shapes, body)


TP = "pybrops/breed/prot/pt/TruePhenotyping.py"


@unit(P, "B[TruePhenotyping.phenotype: one record per taxon == the bound model's true genotypic value (gegv), labels carried, no noise]",
      "B", bounded=True, targets=[TP + ":TruePhenotyping.phenotype"],
      note="bounded(shape): ntaxa<=3, ntrait<=2, labelled or not; genotypic values symbolic; the model stub answers gegv and gebv with "
           "different value matrices (a model with non-additive effects)")
def u_b_true(ctx):
    f = loopcut.Extracted(TP + ":TruePhenotyping.phenotype", overrides={"check_is_PhasedGenotypeMatrix": lambda *a: None})

    def body(e, shape, tag):
        n, t, labelled = shape
        G = barr.fresh("g", (n, t), "float64")          # true genotypic values
        B = barr.fresh("b", (n, t), "float64")          # breeding values of the same individuals: a different matrix in general
        taxa = numpy.array(["L%d" % i for i in range(n)], dtype=object) if labelled else None
        grp = numpy.arange(n, dtype="int64") + 7 if labelled else None
        trait = numpy.array(["y%d" % k for k in range(t)], dtype=object) if labelled else None
        pgtok = object()
        calls = []

        def mkgv(M):
            class GV:
                ntaxa, ntrait = n, t
                taxa_grp = grp

                def unscale(self):
                    return M
            GV.taxa, GV.trait, GV.mat = taxa, trait, M
            return GV()

        class GP:
            pass
        _gp = GP()
        from pybrops.model.gmod.DenseAdditiveLinearGenomicModel import DenseAdditiveLinearGenomicModel as _GM
        import functools as _ft
        _gp.gegv = loopcut.like(_ft.partial(_GM.gegv, None), lambda gtobj, **kw: (calls.append(("gegv", gtobj)), mkgv(G))[1])
        _gp.gebv = loopcut.like(_ft.partial(_GM.gebv, None), lambda gtobj, **kw: (calls.append(("gebv", gtobj)), mkgv(B))[1])

        from pybrops.breed.prot.pt.TruePhenotyping import TruePhenotyping as _Real
        me = loopcut.stub_of(_Real)
        me.gpmod = _gp
        fr = modeb.Frame(g=G)
        df = f(me, pgtok)
        e.prove(tag + ":one-record-per-taxon", len(df) == n)
        cols = [str(c) for c in df.columns]
        lab = ["taxa", "taxa_grp"] if labelled else ["taxa"]
        e.prove(tag + ":columns", cols[:len(lab)] == lab and len(cols) == len(lab) + t
                and (not labelled or cols[len(lab):] == [str(c) for c in trait]))
        ok = len(df) == n and len(cols) == len(lab) + t
        for i in range(n if ok else 0):
            if labelled:
                e.prove(tag + ":row%d:labels" % i, df.iloc[i, 0] == taxa[i] and int(df.iloc[i, 1]) == int(grp[i]))
            for k in range(t):
                e.prove(tag + ":row%d:trait%d == true genotypic value of taxon %d (no noise)" % (i, k, i),
                        R(df.iloc[i, len(lab) + k]) == R(G[i, k]))
        e.prove(tag + ":frame:genotypic-values-not-written", fr.unchanged())
        e.prove(tag + ":canary:phenotype-is-the-breeding-value", R(df.iloc[0, len(lab)]) == R(B[0, 0]) if ok else False, expect="fail", timeout_ms=2000)
        return "ok"
    modeb.run_shapes(ctx, "true", [(1, 1, False), (2, 2, True), (3, 1, True), (2, 1, False)], body)


# the "true value" protocols are thin wrappers over the bound model: the breeding-value one is under contract in C04's file
from contracts import C04 as _c04


@unit(P, "A1[TrueBreedingValue.estimate hands out the bound model's gebv of the given genotypes, never its phenotype argument]", "A1",
      targets=[_c04.TBV + ":TrueBreedingValue.estimate"])
def u_true_bv(ctx):
    return _c04.u_true_bv(ctx)
