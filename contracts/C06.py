"""C06 -- see DESIGN.md §8 C06."""
from pyvc.unit import unit
P = "C06"
REPLAYERS = {}
try:
    from contracts.rings import C06 as _ring
    REPLAYERS.update(getattr(_ring, "REPLAYERS", {}))
except ImportError:
    _ring = None

import itertools
import numpy, z3
from pyvc import sym, barr, modeb, loopcut
from pyvc.sym import cur, _t

SORT = "pybrops/opt/algo/SortingSubsetOptimizationAlgorithm.py"
R = lambda x: (z3.ToReal(_t(x)) if _t(x).sort() == z3.IntSort() else _t(x))


@unit(P, "B[sorting optimiser: distinct members, k smallest, truthful values, brute-force optimum of separable objectives]", "B",
      bounded=True, targets=[SORT + ":SortingSubsetOptimizationAlgorithm.minimize"],
      note="bounded(shape): candidate sets of <= 4 (thorough 5) labels, every subset size; single-member objective values symbolic reals (ties included)")
def u_b_sorting(ctx):
    sols = []

    class Soln:
        def __init__(self, **kw):
            self.kw = kw
            sols.append(self)
    f = loopcut.Extracted(SORT + ":SortingSubsetOptimizationAlgorithm.minimize", overrides={
        "check_is_SubsetProblem": lambda *a: None, "check_SubsetProblem_is_single_objective": lambda *a: None,
        "SubsetSolution": Soln})

    def body(e, shape, tag):
        n, k = shape
        labels = numpy.array([10 + 3 * i for i in range(n)])
        w = barr.fresh("w", (n,), "float64")
        wt = {int(l): w[i] for i, l in enumerate(labels)}
        calls = []

        class Prob:
            decn_space = labels.copy()
            ndecn = k
            decn_space_lower = None
            decn_space_upper = None
            nobj, obj_wt, nineqcv, ineqcv_wt, neqcv, eqcv_wt = 1, numpy.array([1.0]), 0, numpy.array([]), 0, numpy.array([])

            def evalfn(self, x, *a, **kw):
                calls.append([int(v) for v in x])
                tot = 0
                for v in x:
                    tot = tot + wt[int(v)]
                return barr.mk(numpy.array([tot], dtype=object), "float64"), numpy.zeros(0), numpy.zeros(0)
        prob = Prob()
        del sols[:]
        from pybrops.opt.algo.SortingSubsetOptimizationAlgorithm import SortingSubsetOptimizationAlgorithm as _Real
        out = f(loopcut.stub_of(_Real), prob, None)
        kw = out.kw
        decn = [int(v) for v in numpy.asarray(kw["soln_decn"]).reshape(-1)]
        e.prove(tag + ":one-solution-of-requested-size", len(decn) == k and kw["nsoln"] == 1)
        e.prove(tag + ":distinct-members-of-the-candidate-set", len(set(decn)) == k and all(v in wt for v in decn))
        rest = [int(l) for l in labels if int(l) not in decn]
        e.prove(tag + ":chosen-are-the-k-smallest-by-single-member-objective",
                z3.And(*[R(wt[i]) <= R(wt[j]) for i in decn for j in rest]) if rest and decn else True)
        obj = numpy.asarray(kw["soln_obj"]).reshape(-1)[0]
        e.prove(tag + ":reported-objective-equals-fresh-evaluation", R(obj) == sum((R(wt[i]) for i in decn), z3.RealVal(0)))
        e.prove(tag + ":re-evaluates-the-returned-decision", calls[-1] == decn)
        best = z3.And(*[sum((R(wt[i]) for i in decn), z3.RealVal(0)) <= sum((R(wt[int(j)]) for j in sub), z3.RealVal(0))
                        for sub in itertools.combinations(labels, k)])
        e.prove(tag + ":attains-the-brute-force-optimum-of-the-separable-objective", best)
        e.prove(tag + ":problem-not-modified", numpy.array_equal(prob.decn_space, labels) and prob.ndecn == k)
        return "ok"
    nmax = 4 if ctx.tier == "quick" else 5
    shapes = [(n, k) for n in range(1, nmax + 1) for k in range(1, n + 1)]
    modeb.run_shapes(ctx, "sorting", shapes, body, max_paths=20000)


@unit(P, "L[integer variation operators: rounding a real in [xl,xu] with integer bounds stays in [xl,xu]]", "L", targets=[])
def u_l_round(ctx):
    xl, xu, r = z3.Ints("xl xu r")
    y = z3.Real("y")
    ctx.prove("round: |r - y| <= 1/2, xl <= y <= xu, integer bounds  =>  xl <= r <= xu",
              [xl <= xu, z3.ToReal(xl) <= y, y <= z3.ToReal(xu), z3.ToReal(r) - y <= z3.RealVal("1/2"), y - z3.ToReal(r) <= z3.RealVal("1/2")],
              z3.And(xl <= r, r <= xu))
    ctx.assume_note("bounds representable exactly in binary64 (|x| < 2^53); beyond that see known finding C06-F49")


HC = "pybrops/opt/algo/SteepestDescentSubsetHillClimber.py"


SHC = "pybrops/opt/algo/SortingSteepestDescentSubsetHillClimber.py"


@unit(P, "B[steepest-descent subset hill-climber: stops only where no single exchange improves (cv, then score); truthful values]", "B",
      bounded=True, targets=[HC + ":SteepestDescentSubsetHillClimber.minimize"],
      note="bounded(shape): candidate sets of <= 4 labels (thorough 5), every subset size, every starting subset; the objective value "
           "and the constraint violation of EVERY subset are independent symbolic reals (arbitrary, non-separable problems, ties included)")
def u_b_hillclimb(ctx):
    _hillclimb(ctx, HC + ":SteepestDescentSubsetHillClimber.minimize", False)


@unit(P, "B[sorting steepest-descent hill-climber (starts from the k best single members): same stopping rule; truthful values]", "B",
      bounded=True, targets=[SHC + ":SortingSteepestDescentSubsetHillClimber.minimize"],
      note="bounded(shape): candidate sets of <= 4 labels, every subset size; the objective value and constraint violation of every "
           "single member and of every subset of the requested size are independent symbolic reals")
def u_b_sorting_hillclimb(ctx):
    _hillclimb(ctx, SHC + ":SortingSteepestDescentSubsetHillClimber.minimize", True)


def _hillclimb(ctx, target, sorting):
    import time
    t_unit = time.process_time()          # CPU seconds: the budget below counts work, not waiting for a core
    sols = []

    class Soln:
        def __init__(self, **kw):
            self.kw = kw
            sols.append(self)
    f = loopcut.Extracted(target, overrides={
        "check_is_SubsetProblem": lambda *a: None, "check_SubsetProblem_is_single_objective": lambda *a: None,
        "SubsetSolution": Soln})

    def body(e, shape, tag):
        n, k, start, constrained = shape
        labels = numpy.array([10 + 3 * i for i in range(n)])
        subsets = list(itertools.combinations([int(l) for l in labels], k))
        keys = list(subsets)
        if sorting and k != 1:
            keys += [(int(l),) for l in labels]          # the sorting variant first evaluates every single member
        val = {s: sym.fresh_real("f_" + "_".join(map(str, s))) for s in keys}
        cv = {s: (sym.fresh_real("cv_" + "_".join(map(str, s))) if constrained else 0.0) for s in keys}
        if constrained:
            for s in keys:
                e.assume(cv[s].t >= 0)
        calls = []

        class Prob:
            decn_space = labels.copy()
            ndecn = k
            decn_space_lower = None
            decn_space_upper = None
            nobj, obj_wt, nineqcv, ineqcv_wt, neqcv, eqcv_wt = 1, numpy.array([1.0]), 1, numpy.array([1.0]), 0, numpy.array([])

            def evalfn(self, x, *a, **kw):
                key = tuple(sorted(int(v) for v in x))
                calls.append(key)
                if time.process_time() - t_unit > (150 if ctx.tier == "quick" else 900):
                    raise sym.Unsupported("hill-climber unit exceeded its time budget (path explosion on this source)")
                if len(calls) > (len(subsets) + 2) * (k * (n - k) + 1) + 2 + (n if sorting else 0):
                    # every accepted exchange strictly improves (cv, score), so a descent visits each subset at most once
                    raise sym.ContractViolation("ContractViolation: hill-climber did not stop within %d evaluations (each subset can be accepted at most once)" % len(calls))
                return (barr.mk(numpy.array([val[key]], dtype=object), "float64"),
                        barr.mk(numpy.array([cv[key]], dtype=object), "float64"), numpy.zeros(0))

        class Rng:
            def choice(self, a, size=None, replace=True, p=None):
                return numpy.array(start)

        import importlib
        _rel, _q = target.split(":")
        _Real = getattr(importlib.import_module(_rel[:-3].replace("/", ".")), _q.split(".")[0])
        prob = Prob()
        del sols[:]
        misc = {}
        out = f(loopcut.stub_of(_Real, rng=Rng()), prob, misc)
        kw = out.kw
        decn = [int(v) for v in numpy.asarray(kw["soln_decn"]).reshape(-1)]
        key = tuple(sorted(decn))
        e.prove(tag + ":one-solution-of-requested-size", len(decn) == k and kw["nsoln"] == 1)
        e.prove(tag + ":distinct-members-of-the-candidate-set", len(set(decn)) == k and all(v in [int(l) for l in labels] for v in decn))
        e.prove(tag + ":reported-objective-and-violation-equal-fresh-evaluation",
                z3.And(R(numpy.asarray(kw["soln_obj"]).reshape(-1)[0]) == R(val[key]),
                       R(numpy.asarray(kw["soln_ineqcv"]).reshape(-1)[0]) == R(cv[key])))
        rest = [int(l) for l in labels if int(l) not in decn]
        better = []
        for a_ in decn:
            for b_ in rest:
                nb = tuple(sorted([v for v in decn if v != a_] + [b_]))
                better.append(z3.Or(R(cv[nb]) < R(cv[key]), z3.And(R(cv[nb]) == R(cv[key]), R(val[nb]) < R(val[key]))))
        e.prove(tag + ":no-single-exchange-improves-the-returned-decision", z3.Not(z3.Or(*better)) if better else True)
        if not sorting:
            e.prove(tag + ":never-worse-than-the-start", z3.Or(R(cv[key]) < R(cv[tuple(sorted(start))]),
                                                                z3.And(R(cv[key]) == R(cv[tuple(sorted(start))]), R(val[key]) <= R(val[tuple(sorted(start))]))))
        e.prove(tag + ":problem-not-modified", numpy.array_equal(prob.decn_space, labels) and prob.ndecn == k)
        e.prove(tag + ":miscout-scores", R(misc["gbest_score"]) == R(val[key]) and True)
        return "ok"
    shapes = []
    nmax = 4 if ctx.tier == "quick" else 5
    for n in range(1, nmax + 1):
        for k in range(1, n + 1):
            labs = [10 + 3 * i for i in range(n)]
            starts = list(itertools.combinations(labs, k))
            if ctx.tier == "quick" or n >= 5 or sorting:
                starts = starts[:1] + starts[-1:] if len(starts) > 1 else starts
            if sorting:
                starts = starts[:1]                 # the start is computed by the algorithm itself (no generator involved)
            if sorting and n >= (4 if ctx.tier == "quick" else 5):
                continue                            # the initial argsort alone forks n! ways
            for st in starts:
                shapes.append((n, k, tuple(reversed(st)), False))
            if n <= 3 or (ctx.tier == "thorough" and n <= 4):
                shapes.append((n, k, tuple(starts[0]), True))
    modeb.run_shapes(ctx, "sorting-hillclimb" if sorting else "hillclimb", shapes, body, max_paths=20000)
