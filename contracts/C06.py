"""C06 -- see DESIGN.md §8 C06."""
from pyvc.unit import unit
P = "C06"
REPLAYERS = {}
try:
    from contracts.rings import C06 as _ring
    REPLAYERS.update(getattr(_ring, "REPLAYERS", {}))
except ImportError:
    _ring = None

import itertools
import numpy, z3
from pyvc import sym, barr, modeb, loopcut
from pyvc.sym import cur, _t

SORT = "pybrops/opt/algo/SortingSubsetOptimizationAlgorithm.py"
R = lambda x: (z3.ToReal(_t(x)) if _t(x).sort() == z3.IntSort() else _t(x))


@unit(P, "B[sorting optimiser: distinct members, k smallest, truthful values, brute-force optimum of separable objectives]", "B",
      bounded=True, targets=[SORT + ":SortingSubsetOptimizationAlgorithm.minimize"],
      note="bounded(shape): candidate sets of <= 4 (thorough 5) labels, every subset size; single-member objective values symbolic reals (ties included)")
def u_b_sorting(ctx):
    sols = []

    class Soln:
        def __init__(self, **kw):
            self.kw = kw
            sols.append(self)
    f = loopcut.Extracted(SORT + ":SortingSubsetOptimizationAlgorithm.minimize", overrides={
        "check_is_SubsetProblem": lambda *a: None, "check_SubsetProblem_is_single_objective": lambda *a: None,
        "SubsetSolution": Soln})

    def body(e, shape, tag):
        n, k = shape
        labels = numpy.array([10 + 3 * i for i in range(n)])
        w = barr.fresh("w", (n,), "float64")
        wt = {int(l): w[i] for i, l in enumerate(labels)}
        calls = []

        class Prob:
            decn_space = labels.copy()
            ndecn = k
            decn_space_lower = None
            decn_space_upper = None
            nobj, obj_wt, nineqcv, ineqcv_wt, neqcv, eqcv_wt = 1, numpy.array([1.0]), 0, numpy.array([]), 0, numpy.array([])

            def evalfn(self, x, *a, **kw):
                calls.append([int(v) for v in x])
                tot = 0
                for v in x:
                    tot = tot + wt[int(v)]
                return barr.mk(numpy.array([tot], dtype=object), "float64"), numpy.zeros(0), numpy.zeros(0)
        prob = Prob()
        del sols[:]
        out = f(object(), prob, None)
        kw = out.kw
        decn = [int(v) for v in numpy.asarray(kw["soln_decn"]).reshape(-1)]
        e.prove(tag + ":one-solution-of-requested-size", len(decn) == k and kw["nsoln"] == 1)
        e.prove(tag + ":distinct-members-of-the-candidate-set", len(set(decn)) == k and all(v in wt for v in decn))
        rest = [int(l) for l in labels if int(l) not in decn]
        e.prove(tag + ":chosen-are-the-k-smallest-by-single-member-objective",
                z3.And(*[R(wt[i]) <= R(wt[j]) for i in decn for j in rest]) if rest and decn else True)
        obj = numpy.asarray(kw["soln_obj"]).reshape(-1)[0]
        e.prove(tag + ":reported-objective-equals-fresh-evaluation", R(obj) == sum((R(wt[i]) for i in decn), z3.RealVal(0)))
        e.prove(tag + ":re-evaluates-the-returned-decision", calls[-1] == decn)
        best = z3.And(*[sum((R(wt[i]) for i in decn), z3.RealVal(0)) <= sum((R(wt[int(j)]) for j in sub), z3.RealVal(0))
                        for sub in itertools.combinations(labels, k)])
        e.prove(tag + ":attains-the-brute-force-optimum-of-the-separable-objective", best)
        e.prove(tag + ":problem-not-modified", numpy.array_equal(prob.decn_space, labels) and prob.ndecn == k)
        return "ok"
    nmax = 4 if ctx.tier == "quick" else 5
    shapes = [(n, k) for n in range(1, nmax + 1) for k in range(1, n + 1)]
    modeb.run_shapes(ctx, "sorting", shapes, body, max_paths=20000)


@unit(P, "L[integer variation operators: rounding a real in [xl,xu] with integer bounds stays in [xl,xu]]", "L", targets=[])
def u_l_round(ctx):
    xl, xu, r = z3.Ints("xl xu r")
    y = z3.Real("y")
    ctx.prove("round: |r - y| <= 1/2, xl <= y <= xu, integer bounds  =>  xl <= r <= xu",
              [xl <= xu, z3.ToReal(xl) <= y, y <= z3.ToReal(xu), z3.ToReal(r) - y <= z3.RealVal("1/2"), y - z3.ToReal(r) <= z3.RealVal("1/2")],
              z3.And(xl <= r, r <= xu))
    ctx.assume_note("bounds representable exactly in binary64 (|x| < 2^53); beyond that see known finding C06-F49")
