"""C06 -- see DESIGN.md §8 C06."""
from pyvc.unit import unit
P = "C06"
REPLAYERS = {}
try:
    from contracts.rings import C06 as _ring
    REPLAYERS.update(getattr(_ring, "REPLAYERS", {}))
except ImportError:
    _ring = None
