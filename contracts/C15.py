"""C15 -- see DESIGN.md §8 C15."""
from pyvc.unit import unit
P = "C15"
REPLAYERS = {}
try:
    from contracts.rings import C15 as _ring
    REPLAYERS.update(getattr(_ring, "REPLAYERS", {}))
except ImportError:
    _ring = None
