"""C15 -- see DESIGN.md §8 C15."""
from pyvc.unit import unit
P = "C15"
REPLAYERS = {}
try:
    from contracts.rings import C15 as _ring
    REPLAYERS.update(getattr(_ring, "REPLAYERS", {}))
except ImportError:
    _ring = None

import numpy, z3
from pyvc import sym, barr, modeb, lemma
from pyvc.sym import cur, _t, ite
from pyvc.lemma import sqrt_def, SQRT

BV = "pybrops/popgen/bvmat/DenseBreedingValueMatrix.py"
R = lambda x: (z3.ToReal(_t(x)) if _t(x).sort() == z3.IntSort() else _t(x))
CLASSES = {
    "bv": ("pybrops.popgen.bvmat.DenseBreedingValueMatrix", "DenseBreedingValueMatrix"),
    "ebv": ("pybrops.popgen.bvmat.DenseEstimatedBreedingValueMatrix", "DenseEstimatedBreedingValueMatrix"),
    "gebv": ("pybrops.popgen.bvmat.DenseGenomicEstimatedBreedingValueMatrix", "DenseGenomicEstimatedBreedingValueMatrix"),
}


def _cls(k):
    import importlib
    m, c = CLASSES[k]
    return getattr(importlib.import_module(m), c)


def _col_stats(e, raw, n, t):
    """independent per-trait mean / population variance of the raw values; ties the SQRT instance of the variance"""
    mean = [sum((R(raw[i, k]) for i in range(n)), z3.RealVal(0)) / n for k in range(t)]
    var = [sum(((R(raw[i, k]) - mean[k]) * (R(raw[i, k]) - mean[k]) for i in range(n)), z3.RealVal(0)) / n for k in range(t)]
    for k in range(t):
        e.assume(sqrt_def(var[k]))
    return mean, var


def _roundtrip_obligations(e, tag, bv, raw, n, t):
    mean, var = _col_stats(e, raw, n, t)
    un = bv.unscale()
    e.prove(tag + ":unscale-reproduces-raw", modeb.eq(un, raw))
    loc, sc = bv.location, bv.scale
    e.prove(tag + ":location==trait-mean", z3.And(*[R(loc[k]) == mean[k] for k in range(t)]))
    e.prove(tag + ":scale==trait-std-or-1-if-constant",
            z3.And(*[R(sc[k]) == z3.If(var[k] == 0, z3.RealVal(1), SQRT(var[k])) for k in range(t)]))
    e.prove(tag + ":scale-positive", z3.And(*[R(sc[k]) > 0 for k in range(t)]))
    # original-scale summaries
    mx = bv.tmax(True)
    mn = bv.tmin(True)
    rg = bv.trange(True)
    mu = bv.tmean(True)
    for k in range(t):
        col = [R(raw[i, k]) for i in range(n)]
        e.prove(tag + ":tmax[%d]" % k, z3.And(z3.Or(*[R(mx[k]) == c for c in col]), *[R(mx[k]) >= c for c in col]))
        e.prove(tag + ":tmin[%d]" % k, z3.And(z3.Or(*[R(mn[k]) == c for c in col]), *[R(mn[k]) <= c for c in col]))
        e.prove(tag + ":trange[%d]" % k, R(rg[k]) == R(mx[k]) - R(mn[k]))
        e.prove(tag + ":tmean[%d]" % k, R(mu[k]) == mean[k])
    am, an = bv.targmax(), bv.targmin()
    for k in range(t):
        col = [R(raw[i, k]) for i in range(n)]
        e.prove(tag + ":targmax[%d]" % k, z3.And(*[col[int(am[k])] >= c for c in col]))
        e.prove(tag + ":targmin[%d]" % k, z3.And(*[col[int(an[k])] <= c for c in col]))


@unit(P, "B[from_numpy/unscale round trip and original-scale summaries]", "B", bounded=True, targets=[BV + ":DenseBreedingValueMatrix.from_numpy"],
      note="bounded(shape): ntaxa<=3, ntrait<=2; raw values symbolic reals (constant columns included via the scale==0 branch)")
def u_b_roundtrip(ctx):
    ctx.trust(*lemma.TRUST)

    def body(e, shape, tag):
        key, n, t = shape
        C = _cls(key)
        raw = barr.fresh("raw", (n, t), "float64")
        bv = C.from_numpy(raw)
        _roundtrip_obligations(e, tag, bv, raw, n, t)
        # tstd/tvar on the original scale for non-constant traits (constant traits: known finding C15-F8a)
        mean, var = _col_stats(e, raw, n, t)
        sd, vr = bv.tstd(True), bv.tvar(True)
        for k in range(t):
            saved = list(e.assumptions)
            e.assume(var[k] != 0)
            e.prove(tag + ":tstd[%d]-nonconstant-trait" % k, R(sd[k]) == SQRT(var[k]))
            e.prove(tag + ":tvar[%d]-nonconstant-trait" % k, R(vr[k]) == var[k])
            e.assumptions[:] = saved
        return "ok"
    shapes = [("bv", 1, 1), ("bv", 2, 1), ("bv", 3, 1), ("bv", 2, 2), ("ebv", 2, 1), ("gebv", 2, 1)]
    if ctx.tier == "thorough":
        shapes += [("ebv", 3, 1), ("gebv", 3, 1)]     # ("bv", 3, 2): the unscaled max of 3 x 2 symbolic values with sqrt-scaled columns stays `unknown`
    modeb.run_shapes(ctx, "bvmat", shapes, body)


SM = "pybrops/core/mat/DenseScaledMatrix.py"


@unit(P, "B[DenseScaledMatrix: unscale == mat*scale+location, transform/untransform inverse, non-in-place forms leave the stored state alone]",
      "B", bounded=True, targets=[SM + ":DenseScaledMatrix.unscale", SM + ":DenseScaledMatrix.untransform", SM + ":DenseScaledMatrix.transform"],
      note="bounded(shape): <=3 rows x <=2 columns; stored values, location and (positive) scale symbolic reals")
def u_b_scaled(ctx):
    def body(e, shape, tag):
        from pybrops.core.mat.DenseScaledMatrix import DenseScaledMatrix as C
        n, t = shape
        M = barr.fresh("m", (n, t), "float64")
        loc = barr.fresh("loc", (t,), "float64")
        sc = barr.fresh("sc", (t,), "float64")
        for k in range(t):
            e.assume(R(sc[k]) > 0)
        obj = C(mat=M, location=loc, scale=sc)
        fr = modeb.Frame(m=obj.mat, loc=obj.location, sc=obj.scale)
        want = [[R(M[i, k]) * R(sc[k]) + R(loc[k]) for k in range(t)] for i in range(n)]

        def is_raw(a):
            return z3.And(*[R(a[i, k]) == want[i][k] for i in range(n) for k in range(t)])
        u1 = obj.unscale(inplace=False)
        e.prove(tag + ":unscale(inplace=False)==mat*scale+location", is_raw(u1))
        e.prove(tag + ":unscale(inplace=False):frame:stored-matrix-location-scale-untouched", fr.unchanged() and u1 is not obj.mat)
        u2 = obj.unscale(inplace=False)
        e.prove(tag + ":unscale(inplace=False) twice gives the same values", is_raw(u2))
        X = barr.fresh("x", (n, t), "float64")
        fx = modeb.Frame(x=X)
        tr = obj.transform(X, copy=True)
        e.prove(tag + ":transform(copy=True)==(x-location)/scale",
                z3.And(*[R(tr[i, k]) * R(sc[k]) == R(X[i, k]) - R(loc[k]) for i in range(n) for k in range(t)]))
        back = obj.untransform(tr, copy=True)
        e.prove(tag + ":untransform(transform(x))==x", modeb.eq(back, X))
        e.prove(tag + ":transform/untransform(copy=True):frame:argument-and-stored-state-untouched", fx.unchanged() and fr.unchanged())
        e.prove(tag + ":canary:unscale-is-identity", z3.And(*[R(u1[i, k]) == R(M[i, k]) for i in range(n) for k in range(t)]), expect="fail", timeout_ms=2000)
        # in-place form: afterwards the object describes the raw values with location 0 and scale 1
        u3 = obj.unscale(inplace=True)
        e.prove(tag + ":unscale(inplace=True)==raw, location 0, scale 1",
                z3.And(is_raw(obj.mat), *[z3.And(R(obj.location[k]) == 0, R(obj.scale[k]) == 1) for k in range(t)]) if u3 is obj.mat else False)
        return "ok"
    modeb.run_shapes(ctx, "scaled", [(1, 1), (2, 1), (2, 2), (3, 1)], body)


from pyvc import oarr, loopcut
from pyvc.oarr import OArr, same
from pyvc.sym import fresh_int


@unit(P, "A1[select/delete/insert/adjoin_taxa == from_numpy(OP(unscale()), OP(labels))]", "A1", targets=[
    BV + ":DenseBreedingValueMatrix.select_taxa", BV + ":DenseBreedingValueMatrix.delete_taxa",
    BV + ":DenseBreedingValueMatrix.insert_taxa", BV + ":DenseBreedingValueMatrix.adjoin_taxa"])
def u_a1_taxaops(ctx):
    """modular: unscale()/from_numpy are used through their round-trip contract (proved in the B unit for bounded
    shapes): the structural operation must hand from_numpy exactly OP(unscaled values) with the labels moved by the
    same OP, so every retained taxon keeps its raw values and labels"""
    ctx.trust("numpy structural operators as opaque functions (pyvc/oarr.py)",
              "from_numpy(mat).unscale() == mat and unscale() == raw values: round-trip contract of the B unit")
    ex = ctx.explorer(timeout_ms=5000)
    for key in CLASSES:
        C = _cls(key)
        for op in ("select", "delete", "insert", "adjoin", "insert_matrix", "adjoin_matrix",
                   # a matrix operand plus ONE explicit label array: the explicit array wins, the other label is the operand's own
                   "insert_matrix+taxa", "adjoin_matrix+taxa", "insert_matrix+taxa_grp", "adjoin_matrix+taxa_grp"):
            for present in (("taxa", "taxa_grp", "trait"), ("taxa",), ()):
                tag = "%s:%s|%s" % (C.__name__, op, ",".join(present) or "-")

                def thunk(C=C, op=op, present=present, tag=tag):
                    e = cur()
                    n, t = fresh_int("n", 0), fresh_int("t", 0)

                    def mkobj(pfx, nn):
                        o = object.__new__(C)
                        f = dict(_mat=OArr.fresh(pfx + "mat", (nn, t), "float64"), _location=OArr.fresh(pfx + "loc", (t,), "float64"),
                                 _scale=OArr.fresh(pfx + "scale", (t,), "float64"),
                                 _taxa=OArr.fresh(pfx + "taxa", (nn,), object) if "taxa" in present else None,
                                 _taxa_grp=OArr.fresh(pfx + "taxa_grp", (nn,), "int64") if "taxa_grp" in present else None,
                                 _trait=OArr.fresh("trait", (t,), object) if "trait" in present else None)
                        for k, v in f.items():
                            object.__setattr__(o, k, v)
                        for m in ("_taxa_grp_name", "_taxa_grp_stix", "_taxa_grp_spix", "_taxa_grp_len"):
                            object.__setattr__(o, m, None)
                        return o, f
                    obj, f = mkobj("", n)
                    U = obj.unscale()
                    calls = []

                    def from_numpy(mat=None, taxa=None, taxa_grp=None, trait=None, **kw):
                        calls.append(dict(mat=mat, taxa=taxa, taxa_grp=taxa_grp, trait=trait))
                        return ("from_numpy-result", len(calls))
                    saved = C.__dict__.get("from_numpy")
                    C.from_numpy = staticmethod(from_numpy)
                    try:
                        if op == "select":
                            idx = OArr.fresh("idx", (fresh_int("k", 0),), "int64")
                            out = obj.select_taxa(idx)
                            F = lambda a, ax: oarr.a_take(a, idx, ax)
                        elif op == "delete":
                            idx = OArr.fresh("idx", (fresh_int("k", 0),), "int64")
                            e.assume(_t(idx.shape[0]) <= n.t)
                            out = obj.delete_taxa(idx)
                            F = lambda a, ax: oarr.a_delete(a, idx, ax)
                        else:
                            k = fresh_int("k", 0)
                            if "_matrix" in op:
                                other, g = mkobj("o_", k)
                                V = other.unscale()
                                vals, kw = other, {}
                                labs = dict(taxa=g["_taxa"], taxa_grp=g["_taxa_grp"])
                                if "+" in op:
                                    which = op.split("+")[1]
                                    if which not in present:
                                        return "ok"
                                    labs[which] = OArr.fresh("explicit_" + which, (k,), object if which == "taxa" else "int64")
                                    kw = {which: labs[which]}
                            else:
                                V = OArr.fresh("values", (k, t), "float64")
                                vals = V
                                labs = dict(taxa=OArr.fresh("ntaxa", (k,), object) if "taxa" in present else None,
                                            taxa_grp=OArr.fresh("ngrp", (k,), "int64") if "taxa_grp" in present else None)
                                kw = {a: b for a, b in labs.items() if b is not None}
                            if op.startswith("adjoin"):
                                out = obj.adjoin_taxa(vals, **kw)
                                F = lambda a, ax, b=None: oarr.a_concatenate([a, b], ax)
                            else:
                                pos = OArr.fresh("obj", (k,), "int64")
                                out = obj.insert_taxa(pos, vals, **kw)
                                F = lambda a, ax, b=None: oarr.a_insert(a, pos, b, ax)
                    finally:
                        if saved is not None:
                            C.from_numpy = saved
                        else:
                            del C.from_numpy
                    e.prove(tag + ":result-is-from_numpy-of-one-call", len(calls) == 1 and out == ("from_numpy-result", 1))
                    c = calls[0]
                    if op in ("select", "delete"):
                        exp = dict(mat=F(U, 0), taxa=F(f["_taxa"], 0) if f["_taxa"] is not None else None,
                                   taxa_grp=F(f["_taxa_grp"], 0) if f["_taxa_grp"] is not None else None)
                    else:
                        exp = dict(mat=F(U, 0, V), taxa=F(f["_taxa"], 0, labs["taxa"]) if f["_taxa"] is not None else None,
                                   taxa_grp=F(f["_taxa_grp"], 0, labs["taxa_grp"]) if f["_taxa_grp"] is not None else None)
                    e.prove(tag + ":raw-values-moved-by-the-operator", same(c["mat"], exp["mat"]))
                    e.prove(tag + ":taxa-moved-by-the-same-operator", same(c["taxa"], exp["taxa"]))
                    e.prove(tag + ":taxa_grp-moved-by-the-same-operator", same(c["taxa_grp"], exp["taxa_grp"]))
                    e.prove(tag + ":trait-labels-passed-through", (c["trait"] is f["_trait"]) or
                            (c["trait"] is not None and f["_trait"] is not None and c["trait"]._term.eq(f["_trait"]._term)))
                    e.prove(tag + ":operand-not-assigned", all(getattr(obj, k) is v for k, v in f.items()))
                    return "ok"
                try:
                    outs = ex.explore(thunk)
                except sym.Unsupported as u:
                    ex.obligations.append(dict(name=tag + ":supported-subset", unit=ex.unit, kind="unsupported", path=0, status="unknown",
                                               solver="front-end", seconds=0.0, expect="proved", detail="UNSUPPORTED %s" % u))
                    continue
                raised = [o for o in outs if isinstance(o, sym.Raised)]
                ex.obligations.append(dict(name=tag + ":noraise", unit=ex.unit, kind="noraise", path=0,
                                           status="proved" if not raised else "refuted", solver="native", seconds=0.0, expect="proved",
                                           detail="; ".join(repr(r) for r in raised[:2]) + ("\n" + raised[0].tb[-800:] if raised else "")))
    ctx.absorb(ex)


def _wrap_unit(fn):
    def g(ctx):
        for m, c in CLASSES.values():
            _cls_import = __import__(m)
        with oarr.patched_numpy(), loopcut.patched_modules(["pybrops.*"]):
            fn(ctx)
    return g


# run the A1 unit with the symbolic-aware builtins installed in the repository modules
from pyvc import unit as _U
for _s in _U.UNITS[P]:
    if _s.name.startswith("A1[select/delete"):
        _s.fn = _wrap_unit(_s.fn)
