"""C09 -- see DESIGN.md §8 C09."""
from pyvc.unit import unit
P = "C09"
REPLAYERS = {}
try:
    from contracts.rings import C09 as _ring
    REPLAYERS.update(getattr(_ring, "REPLAYERS", {}))
except ImportError:
    _ring = None

import itertools
import numpy, z3
from pyvc import sym, barr, modeb
from pyvc.sym import cur, _t, ite

GM = "pybrops/popgen/gmat/"
SHAPES_U = [(1, 1), (2, 1), (1, 2), (3, 2), (2, 3)]          # (ntaxa, nvrnt), unphased diploid
SHAPES_P = [(1, 1), (2, 1), (2, 2), (3, 1), (2, 1, 1), (1, 2, 3)]      # phased: (ntaxa, nvrnt[, copies]) -- two copies unless given (haploid, triploid)


def _mk_unphased(n, p):
    from pybrops.popgen.gmat.DenseGenotypeMatrix import DenseGenotypeMatrix
    mat = barr.fresh("g", (n, p), "int8", 0, 2)
    return DenseGenotypeMatrix(mat=mat, ploidy=2), mat, [[mat[i, j] for j in range(p)] for i in range(n)]


def _mk_phased(n, p, m=2):
    from pybrops.popgen.gmat.DensePhasedGenotypeMatrix import DensePhasedGenotypeMatrix
    mat = barr.fresh("h", (m, n, p), "int8", 0, 1)
    return DensePhasedGenotypeMatrix(mat=mat), mat, [[sum((mat[c, i, j] for c in range(m)), 0) for j in range(p)] for i in range(n)]


def _stat_obligations(e, tag, gm, dos, n, p, ploidy=2):
    """every statistic against its textbook definition on the raw allele calls (dos[i][j] = dosage)"""
    R = lambda x: z3.ToReal(_t(x)) if _t(x).sort() == z3.IntSort() else _t(x)
    cnt = [sum((dos[i][j] for i in range(n)), 0) for j in range(p)]
    tot = ploidy * n
    freq = [R(cnt[j]) / tot for j in range(p)]
    allfix = [z3.Or(_t(cnt[j]) == 0, _t(cnt[j]) == tot) for j in range(p)]
    e.prove(tag + ":tacount", modeb.eq(gm.tacount(), [[dos[i][j] for j in range(p)] for i in range(n)]))
    e.prove(tag + ":tafreq", z3.And(*[R(gm.tafreq()[i, j]) == R(dos[i][j]) / ploidy for i in range(n) for j in range(p)]))
    e.prove(tag + ":acount", modeb.eq(gm.acount(), cnt))
    af = gm.afreq()
    e.prove(tag + ":afreq", z3.And(*[R(af[j]) == freq[j] for j in range(p)]))
    e.prove(tag + ":afreq-in-[0,1]", z3.And(*[z3.And(R(af[j]) >= 0, R(af[j]) <= 1) for j in range(p)]))
    e.prove(tag + ":afreq-0-or-1-iff-all-copies-equal",
            z3.And(*[z3.Or(R(af[j]) == 0, R(af[j]) == 1) == allfix[j] for j in range(p)]))
    fx, pl = gm.afixed(), gm.apoly()
    e.prove(tag + ":afixed", z3.And(*[_t(fx[j]) == allfix[j] for j in range(p)]))
    e.prove(tag + ":apoly-is-complement-of-afixed", z3.And(*[_t(pl[j]) == z3.Not(_t(fx[j])) for j in range(p)]))
    mf = gm.maf()
    e.prove(tag + ":maf", z3.And(*[R(mf[j]) == z3.If(freq[j] <= 1 - freq[j], freq[j], 1 - freq[j]) for j in range(p)]))
    e.prove(tag + ":meh", R(gm.meh()) == sum((ploidy * freq[j] * (1 - freq[j]) for j in range(p)), z3.RealVal(0)) / p)
    gc = gm.gtcount()
    e.prove(tag + ":gtcount-has-ploidy+1-classes", gc.shape == (ploidy + 1, p))
    if gc.shape == (ploidy + 1, p):
        exp = [[sum((ite(dos[i][j] == c, 1, 0) for i in range(n)), 0) for j in range(p)] for c in range(ploidy + 1)]
        e.prove(tag + ":gtcount", modeb.eq(gc, exp))
        e.prove(tag + ":gtcount-sums-to-ntaxa", z3.And(*[_t(sum((gc[c, j] for c in range(ploidy + 1)), 0)) == n for j in range(p)]))
        gf = gm.gtfreq()
        e.prove(tag + ":gtfreq", z3.And(*[R(gf[c, j]) == R(exp[c][j]) / n for c in range(ploidy + 1) for j in range(p)]))
    e.prove(tag + ":mat_asformat{0,1,2}", modeb.eq(gm.mat_asformat("{0,1,2}"), [[dos[i][j] for j in range(p)] for i in range(n)]))
    e.prove(tag + ":mat_asformat{-1,0,1}", modeb.eq(gm.mat_asformat("{-1,0,1}"), [[dos[i][j] - 1 for j in range(p)] for i in range(n)]))
    e.prove(tag + ":canary:afreq-off", z3.And(*[R(af[j]) == freq[j] + 1 for j in range(p)]), expect="fail", timeout_ms=2000)


@unit(P, "B[DenseGenotypeMatrix statistics == definitions]", "B", bounded=True, targets=[],
      note="bounded(shape): ntaxa<=3, nvrnt<=3, diploid; all allele patterns symbolic")
def u_b_unphased(ctx):
    def body(e, shape, tag):
        n, p = shape
        gm, mat, dos = _mk_unphased(n, p)
        fr = modeb.Frame(mat=mat)
        _stat_obligations(e, tag, gm, dos, n, p)
        e.prove(tag + ":frame:genotypes-not-modified-by-the-statistics", fr.unchanged() and gm.mat is mat)
        if n * p <= 2:
            # the statistics describe the CURRENT allele calls: new calls written in place through the array that `.mat` hands out
            mat[...] = barr.fresh("g2", (n, p), "int8", 0, 2)
            _stat_obligations(e, tag + ":after-in-place-write", gm, [[mat[i, j] for j in range(p)] for i in range(n)], n, p)
        return "ok"
    modeb.run_shapes(ctx, "unphased", SHAPES_U if ctx.tier == "quick" else SHAPES_U + [(4, 2), (3, 3)], body)


@unit(P, "B[DensePhasedGenotypeMatrix statistics == definitions == unphased projection]", "B", bounded=True, targets=[],
      note="bounded(shape): ntaxa<=3, nvrnt<=2, two phases; all allele patterns symbolic")
def u_b_phased(ctx):
    def body(e, shape, tag):
        from pybrops.popgen.gmat.DenseGenotypeMatrix import DenseGenotypeMatrix
        n, p = shape[:2]
        m = shape[2] if len(shape) > 2 else 2            # number of chromosome copies (ploidy): 2 unless the shape says otherwise
        gm, mat, dos = _mk_phased(n, p, m)
        fr = modeb.Frame(mat=mat)
        _stat_obligations(e, tag, gm, dos, n, p, ploidy=m)
        e.prove(tag + ":frame:genotypes-not-modified-by-the-statistics", fr.unchanged() and gm.mat is mat)
        proj = DenseGenotypeMatrix(mat=mat.sum(0).astype("int8"), ploidy=m)
        for meth in ("tacount", "tafreq", "acount", "afreq", "afixed", "apoly", "maf", "gtcount", "gtfreq"):
            e.prove(tag + ":phased==unphased-projection:" + meth, modeb.eq(getattr(gm, meth)(), getattr(proj, meth)()))
        e.prove(tag + ":phased==unphased-projection:meh", modeb.close_scalar(gm.meh(), proj.meh()))
        if n * p <= 2:
            mat[...] = barr.fresh("h2", (m, n, p), "int8", 0, 1)
            _stat_obligations(e, tag + ":after-in-place-write", gm, [[sum((mat[c, i, j] for c in range(m)), 0) for j in range(p)] for i in range(n)], n, p, ploidy=m)
        return "ok"
    modeb.run_shapes(ctx, "phased", SHAPES_P if ctx.tier == "quick" else SHAPES_P + [(3, 2)], body)


# ---------------------------------------------------------------------------
# mode F: float exactness of the frequency routines on the REAL methods, exhaustive over the copy number
def _f_case(cls_name, n, phased):
    """columns: 0 copies, 1 copy, all-but-one, all copies of allele 1; returns None or a message"""
    import importlib
    if phased:
        from pybrops.popgen.gmat.DensePhasedGenotypeMatrix import DensePhasedGenotypeMatrix as C
        mat = numpy.zeros((2, n, 4), dtype="int8")
        mat[0, 0, 1] = 1
        mat[:, :, 2] = 1
        mat[1, n - 1, 2] = 0
        mat[:, :, 3] = 1
        gm = C(mat=mat)
    else:
        from pybrops.popgen.gmat.DenseGenotypeMatrix import DenseGenotypeMatrix as C
        mat = numpy.zeros((n, 4), dtype="int8")
        mat[0, 1] = 1
        mat[:, 2] = 2
        mat[n - 1, 2] = 1
        mat[:, 3] = 2
        gm = C(mat=mat, ploidy=2)
    af = gm.afreq()
    if not (af[0] == 0.0 and af[3] == 1.0):
        return "afreq of loci fixed for allele 0 / 1 is %r / %r (ntaxa=%d)" % (af[0], af[3], n)
    if not (0.0 < af[1] < 1.0 and 0.0 < af[2] < 1.0) and n > 0:
        if not (n == 1 and not phased and False):
            return "afreq of polymorphic loci is %r / %r (ntaxa=%d)" % (af[1], af[2], n)
    fx, pl = gm.afixed(), gm.apoly()
    if list(fx) != [True, False, False, True] or list(pl) != [False, True, True, False]:
        return "afixed=%s apoly=%s for columns [fixed0, one copy, all-but-one, fixed1] (ntaxa=%d)" % (list(fx), list(pl), n)
    tf = gm.tafreq()
    if not (tf.max() == 1.0 and tf.min() == 0.0):
        return "tafreq extremes %r %r" % (tf.min(), tf.max())
    return None


def _f_run(ctx, phased):
    nmax = 3000 if ctx.tier == "quick" else 60000
    ctx.rule = ("exhaustive over ntaxa = 1..%d (copy number 2*ntaxa): loci with 0, 1, all-but-one and all copies of the allele; "
                "afreq exactly 0/1 iff fixed, strictly inside otherwise, afixed/apoly flags, tafreq extremes; plus sparse large populations "
                "up to 2e6 taxa (thorough 6e7)" % nmax)
    name = "DensePhasedGenotypeMatrix" if phased else "DenseGenotypeMatrix"
    for n in range(1, nmax + 1):
        msg = _f_case(name, n, phased)
        ctx.case(n, nontrivial=True, sample=dict(ntaxa=n) if n in (1, 49, 103) else None)
        if msg:
            ctx.fail_input("F:%s:frequency-exactness" % name, dict(ntaxa=n, phased=phased), cls="afreq-float-exactness", message=msg)
            if len(ctx.failures) >= 3:
                break
    # beyond the exhaustive range: sparse very large populations, where a frequency one copy away from 0 or 1 is within
    # 1e-5 (and, in the thorough tier, within 1e-8) of it -- tolerance-based comparisons only differ there
    big = [10 ** 4, 49951, 65537, 10 ** 5, 2 ** 20 - 1, 2 * 10 ** 6] + ([6 * 10 ** 7] if ctx.tier == "thorough" else [])
    for n in big:
        if len(ctx.failures) >= 3:
            break
        msg = _f_case(name, n, phased)
        ctx.case(n, nontrivial=True, sample=dict(ntaxa=n) if n == 49951 else None)
        if msg:
            ctx.fail_input("F:%s:frequency-exactness" % name, dict(ntaxa=n, phased=phased), cls="afreq-float-exactness", message=msg)
    ctx.exhaustive = True


@unit(P, "F[DenseGenotypeMatrix frequency exactness, all copy numbers]", "F", bounded=True,
      note="bounded: exhaustive native enumeration of ntaxa <= 3000 (quick) / 60000 (thorough), diploid, plus sparse populations up to 2e6 (6e7) taxa")
def u_f_unphased(ctx):
    _f_run(ctx, False)


@unit(P, "F[DensePhasedGenotypeMatrix frequency exactness, all copy numbers]", "F", bounded=True,
      note="bounded: exhaustive native enumeration of ntaxa <= 3000 (quick) / 60000 (thorough), diploid, plus sparse populations up to 2e6 (6e7) taxa")
def u_f_phased(ctx):
    _f_run(ctx, True)


def _f_replay(case):
    msg = _f_case("", case["ntaxa"], case["phased"])
    return (msg is not None), (msg or "ok")


REPLAYERS["F[DenseGenotypeMatrix frequency exactness, all copy numbers]"] = _f_replay
REPLAYERS["F[DensePhasedGenotypeMatrix frequency exactness, all copy numbers]"] = _f_replay
