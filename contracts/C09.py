"""C09 -- see DESIGN.md §8 C09."""
from pyvc.unit import unit
P = "C09"
REPLAYERS = {}
try:
    from contracts.rings import C09 as _ring
    REPLAYERS.update(getattr(_ring, "REPLAYERS", {}))
except ImportError:
    _ring = None
