"""C03 -- native bounded ring: labels stay attached to their data under every
matrix operation history.

Every row/column/phase of a matrix is an *entity* with an integer id.  Labels
are functions of the id (with deliberately colliding values: duplicated names,
groups, chromosomes, positions) and every data cell encodes the ids of the
entities it belongs to.  The ring keeps, next to every real pybrops object, a
*model* that is nothing but one list of entity ids per axis; the expected
content of the whole object (cells, all label arrays, absent arrays) is derived
from the lists alone.  Seeded random operation histories (<= 6 steps) are run
on a pool of live objects (operands, results, twins), and after EVERY step every
object of the pool is compared with its model:

* cells and labels of every remaining entity (statement, first sentence);
* operands of copying operations unchanged (pool check, aliasing included);
* mutating operation == copying counterpart, generic (axis=) == specific form
  (full attribute state, group metadata included);
* whenever is_grouped_*() is True: names/stix/spix/len are a true contiguous
  partition of the group labels on that axis; group_*() must report grouped,
  ungroup_*() must not.

The list manipulations of the model are written from the operation's meaning
(select = pick, delete = drop, insert = put before index, ...), with plain
Python loops; numpy.take/delete/insert/append/lexsort are never used on the
model side.  A sort is accepted in ANY order that is sorted by the keys and
shows, position by position, the complete record of one old entity (ties are
not required to be stable).

Breeding-value matrices store standardised values: their cells are read through
unscale() and compared to 1e-9 relative; everything else is compared exactly
(values, dtypes, None-ness).

Situations in which the unchanged library is known/suspected to violate the
property are *gated*: ordinary histories avoid them, the unit "suspected-defect
triggers" forces each of them in scripted 1-3 step histories and reports every
one under its own failure class (the T_* names below).  Before generating
ordinary histories a unit probes the triggers; a situation that no longer fails
on the tree under test is mixed into the ordinary histories automatically.
"""
import copy as _copy
import importlib
import random

import numpy

from pyvc.unit import unit

P = "C03"

# ---------------------------------------------------------------------------
# labels
TAXA_LABELS = ("taxa", "taxa_grp")
VRNT_LABELS = ("vrnt_chrgrp", "vrnt_phypos", "vrnt_name", "vrnt_genpos", "vrnt_xoprob",
               "vrnt_hapgrp", "vrnt_hapalt", "vrnt_hapref", "vrnt_mask")
TRAIT_LABELS = ("trait",)
LABELS = {"taxa": TAXA_LABELS, "vrnt": VRNT_LABELS, "trait": TRAIT_LABELS}
LABEL_DTYPE = {"taxa": "O", "taxa_grp": "i", "vrnt_chrgrp": "i", "vrnt_phypos": "i", "vrnt_name": "O",
               "vrnt_genpos": "f", "vrnt_xoprob": "f", "vrnt_hapgrp": "i", "vrnt_hapalt": "O",
               "vrnt_hapref": "O", "vrnt_mask": "b", "trait": "O"}
NP_DTYPE = {"O": object, "i": "int64", "f": "float64", "b": bool}
GROUP = {"taxa": ("taxa_grp", ("taxa_grp_name", "taxa_grp_stix", "taxa_grp_spix", "taxa_grp_len")),
         "vrnt": ("vrnt_chrgrp", ("vrnt_chrgrp_name", "vrnt_chrgrp_stix", "vrnt_chrgrp_spix", "vrnt_chrgrp_len"))}
NAME_LABEL = {"taxa": "taxa", "vrnt": "vrnt_name"}      # filled with None by the library when omitted
DEFAULT_KEYS = {"taxa": ("taxa", "taxa_grp"), "vrnt": ("vrnt_phypos", "vrnt_chrgrp"), "trait": ("trait",)}   # last = primary
PRIME = {"phase": 7, "taxa": 13, "vrnt": 29, "trait": 31, "x0": 37, "x1": 41, "a0": 43, "a1": 47}
SALT = {"phase": 2, "taxa": 3, "vrnt": 5, "trait": 4, "x0": 6, "x1": 7, "a0": 8, "a1": 9}

# ---------------------------------------------------------------------------
# classes under test
M = "pybrops.core.mat."
CLASSES = {
    "DenseMatrix": dict(mod=M + "DenseMatrix", roles=("a0", "a1"), anon="copy"),
    "DenseMutableMatrix": dict(mod=M + "DenseMutableMatrix", roles=("a0", "a1"), anon="all"),
    "DenseTaxaMatrix": dict(mod=M + "DenseTaxaMatrix", roles=("taxa",), base=True),
    "DenseVariantMatrix": dict(mod=M + "DenseVariantMatrix", roles=("vrnt",), base=True),
    "DenseTraitMatrix": dict(mod=M + "DenseTraitMatrix", roles=("trait",), base=True),
    "DensePhasedMatrix": dict(mod=M + "DensePhasedMatrix", roles=("phase",), base=True),
    "DenseTaxaVariantMatrix": dict(mod=M + "DenseTaxaVariantMatrix", roles=("taxa", "vrnt")),
    "DensePhasedTaxaVariantMatrix": dict(mod=M + "DensePhasedTaxaVariantMatrix", roles=("phase", "taxa", "vrnt")),
    "DenseTaxaTraitMatrix": dict(mod=M + "DenseTaxaTraitMatrix", roles=("taxa", "trait")),
    "DenseSquareTaxaMatrix": dict(mod=M + "DenseSquareTaxaMatrix", roles=("taxa", "taxa"), square=True),
    "DenseSquareTaxaTraitMatrix": dict(mod=M + "DenseSquareTaxaTraitMatrix", roles=("taxa", "taxa", "trait"), square=True),
    # variance matrices with three / four square taxa axes: every structural operation is inherited
    "DenseThreeWayDHAdditiveGenicVarianceMatrix": dict(mod="pybrops.model.vmat.DenseThreeWayDHAdditiveGenicVarianceMatrix",
                                                       roles=("taxa", "taxa", "taxa", "trait"), square=True),
    "DenseFourWayDHAdditiveGeneticVarianceMatrix": dict(mod="pybrops.model.vmat.DenseFourWayDHAdditiveGeneticVarianceMatrix",
                                                        roles=("taxa", "taxa", "taxa", "taxa", "trait"), square=True),
    "DenseGenotypeMatrix": dict(mod="pybrops.popgen.gmat.DenseGenotypeMatrix", roles=("taxa", "vrnt"), dtype="int8"),
    "DensePhasedGenotypeMatrix": dict(mod="pybrops.popgen.gmat.DensePhasedGenotypeMatrix",
                                      roles=("phase", "taxa", "vrnt"), dtype="int8"),
    "DenseBreedingValueMatrix": dict(mod="pybrops.popgen.bvmat.DenseBreedingValueMatrix", roles=("taxa", "trait"), bv=True),
    "DenseCoancestryMatrix": dict(mod="pybrops.popgen.cmat.DenseCoancestryMatrix", roles=("taxa", "taxa"), square=True,
                                  abstract=True),
}
BASE_SELF_CALL = {"DenseTaxaMatrix": ("incorp", "reorder"), "DenseVariantMatrix": ("incorp", "reorder"),
                  "DenseTraitMatrix": ("incorp", "reorder"), "DensePhasedMatrix": ("incorp",)}
COUNTERPART = {"append": "adjoin", "remove": "delete", "incorp": "insert"}

# triggers of suspected defects of the unchanged library (each one is its own failure class)
T_GEN_INCORP = "generic-incorp-calls-itself"
T_GEN_REORDER = "generic-reorder-calls-itself"
T_REORDER_GROUPED = "reorder-leaves-stale-group-metadata"
T_SCALAR_INSERT = "scalar-obj-insert-on-nonzero-axis"
T_SQ_INSERT = "square-taxa-insert-touches-one-axis"
T_SQ_CONCAT = "square-taxa-concat-touches-one-axis"
T_SQTT = "square-taxa-trait-copy-op-drops-other-axis-labels"
T_BV_TRAIT = "bv-trait-axis-op-detaches-location-scale"
T_BV_SPLICE = "bv-inherited-taxa-op-splices-scaled-values"
T_GT_EMPTY = "masked-genotyping-keeps-empty-group"
T_GT_NOMASK = "masked-genotyping-without-mask-empties-all-groups"
ALL_TRIGGERS = (T_GEN_INCORP, T_GEN_REORDER, T_REORDER_GROUPED, T_SCALAR_INSERT, T_SQ_INSERT, T_SQ_CONCAT, T_SQTT,
                T_BV_TRAIT, T_BV_SPLICE, T_GT_EMPTY, T_GT_NOMASK)

_CLS_CACHE = {}
STATS = {}      # feature counters of the current process (reported in the unit notes)


def stat(key):
    STATS[key] = STATS.get(key, 0) + 1


def load_class(kname):
    if kname in _CLS_CACHE:
        return _CLS_CACHE[kname]
    sp = CLASSES[kname]
    cls = getattr(importlib.import_module(sp["mod"]), kname)
    if sp.get("abstract"):
        # the anchored class is abstract only in `from_gmat`; a subclass adding nothing else makes it constructible
        def from_gmat(klass, gmat, **kwargs):
            raise NotImplementedError
        cls = type(kname, (cls,), {"from_gmat": classmethod(from_gmat)})
    _CLS_CACHE[kname] = cls
    return cls


class Fail(Exception):
    def __init__(self, kind, msg):
        Exception.__init__(self, msg)
        self.kind, self.msg = kind, msg


class Entry(object):
    """one live object of the pool and its model"""
    __slots__ = ("obj", "ents", "kname", "roles", "phsum", "tag", "absent")

    def __init__(self, obj, ents, kname, roles, phsum=None, tag="", absent=()):
        self.obj, self.ents, self.kname, self.roles, self.phsum, self.tag = obj, ents, kname, roles, phsum, tag
        self.absent = frozenset(absent)     # name arrays this object does not carry although others in the history do

    def like(self, obj, ents=None, tag=None, absent=None):
        return Entry(obj, self.ents if ents is None else ents, self.kname, self.roles, self.phsum,
                     self.tag if tag is None else tag, self.absent if absent is None else absent)


# ---------------------------------------------------------------------------
# model-side list operations (the meaning of the operations, plain loops)
def norm_index(i, n):
    return i if i >= 0 else n + i


def m_select(lst, indices):
    n = len(lst)
    return [lst[norm_index(int(i), n)] for i in indices]


def m_killset(n, obj):
    if isinstance(obj, slice):
        return set(range(*obj.indices(n)))
    if isinstance(obj, (int, numpy.integer)):
        return {norm_index(int(obj), n)}
    seq = list(obj)
    if seq and isinstance(seq[0], (bool, numpy.bool_)):
        return {i for i, b in enumerate(seq) if b}
    return {norm_index(int(i), n) for i in seq}


def m_delete(lst, obj):
    kill = m_killset(len(lst), obj)
    return [e for i, e in enumerate(lst) if i not in kill]


def m_insert(lst, obj, new):
    """put new[k] before the element that had index obj (one place) or obj[k] (one place per new element)"""
    n = len(lst)
    if isinstance(obj, slice):
        r = list(range(*obj.indices(n)))
        obj = r
    if isinstance(obj, (int, numpy.integer)):
        pos = [norm_index(int(obj), n)] * len(new)
    else:
        seq = [norm_index(int(i), n) for i in obj]
        pos = seq * len(new) if len(seq) == 1 else seq
    assert len(pos) == len(new)
    out = []
    for p in range(n + 1):
        for k in range(len(new)):
            if pos[k] == p:
                out.append(new[k])
        if p < n:
            out.append(lst[p])
    return out


def is_sorted_by(keyrows):
    """keyrows: one tuple per position, most significant key first"""
    for a, b in zip(keyrows, keyrows[1:]):
        if a > b:
            return False
    return True


def same_arr(a, b):
    if a is None or b is None:
        return a is None and b is None
    a, b = numpy.asarray(a), numpy.asarray(b)
    if a.shape != b.shape or a.dtype != b.dtype:
        return False
    if a.dtype.kind == "f":
        return bool(numpy.array_equal(a, b, equal_nan=True))
    if a.dtype.kind == "O":
        return a.tolist() == b.tolist()
    return bool(numpy.array_equal(a, b))


def arg_repr(v):
    if isinstance(v, numpy.ndarray):
        if v.ndim == 1 and v.size <= 12:
            return "array(%s,%s)" % (v.tolist(), v.dtype)
        return "array(shape=%s,%s)" % (v.shape, v.dtype)
    if isinstance(v, (list, tuple)) and len(v) > 12:
        return "%s(len=%d)" % (type(v).__name__, len(v))
    if isinstance(v, (list, tuple)):
        return "%s%s" % ("" if isinstance(v, list) else "tuple", [arg_repr(x) for x in v])
    if isinstance(v, (int, float, str, bool, slice)) or v is None:
        return repr(v)
    return "<%s>" % type(v).__name__


# ---------------------------------------------------------------------------
class Run(object):
    """one history on the real code"""

    def __init__(self, case):
        self.case = case
        self.rnd = random.Random(case["seed"])
        self.present = set(case.get("present", ()))
        self.dup = int(case.get("dup", 1000))
        self.grpmod = int(case.get("grpmod", 3))
        self.chrmod = int(case.get("chrmod", 2))
        self.posmod = int(case.get("posmod", 5))
        self.allow = set(case.get("allow", ()))
        self.focus = case.get("focus")      # scripted trigger cases: force the suspected situation
        self.counter = {}
        self.blk = {}
        self.nblk = 0
        self.nameless = {"taxa": set(), "vrnt": set()}
        self.pool = []
        self.cur = {}
        self.used = set()        # triggers actually exercised by the current step
        self.maxlen = int(case.get("maxlen", 9))
        self.cap = dict(case.get("cap", {}))

    # ----- entities and labels
    def fresh(self, role, k, block=None):
        c = self.counter.get(role, 0)
        ids = list(range(c, c + k))
        self.counter[role] = c + k
        if role == "taxa":
            if block is None:
                block = self.nblk
                self.nblk += 1
            for e in ids:
                self.blk[e] = block
        return ids

    def lab(self, name, e):
        if name == "taxa":
            return None if e in self.nameless["taxa"] else "T%03d" % (e % self.dup)
        if name == "taxa_grp":
            return (e * 3 + 1) % self.grpmod
        if name == "vrnt_chrgrp":
            return 1 + (e * 2 + 1) % self.chrmod
        if name == "vrnt_phypos":
            return (e * 37 + 2) % self.posmod
        if name == "vrnt_name":
            return None if e in self.nameless["vrnt"] else "snp%03d" % (e % self.dup)
        if name == "vrnt_genpos":
            return ((e * 17) % 23) / 10.0
        if name == "vrnt_xoprob":
            return ((e * 29) % 51) / 100.0
        if name == "vrnt_hapgrp":
            return e % 4
        if name == "vrnt_hapalt":
            return "ACGT"[(e * 3) % 4]
        if name == "vrnt_hapref":
            return "ACGT"[(e * 5 + 1) % 4]
        if name == "vrnt_mask":
            return ((e * 7) % 5) < 3
        if name == "trait":
            return "trait%02d" % (e % self.dup)
        raise KeyError(name)

    def label_array(self, name, eids):
        return numpy.array([self.lab(name, e) for e in eids], dtype=NP_DTYPE[LABEL_DTYPE[name]])

    def label_kwargs(self, role, eids, omit=()):
        out = {}
        for name in LABELS.get(role, ()):
            if name in self.present and name not in omit:
                out[name] = self.label_array(name, eids)
        return out

    # ----- expected cells
    def exp_mat(self, ent_or_roles, ents, kname, phsum=None):
        roles = ent_or_roles
        sp = CLASSES[kname]
        lists = [ents[r] for r in roles]
        nd = len(lists)
        shape = tuple(len(l) for l in lists)
        ids = []
        for a, l in enumerate(lists):
            sh = [1] * nd
            sh[a] = len(l)
            ids.append(numpy.array(l, dtype=numpy.int64).reshape(sh))
        defined = numpy.ones(shape, dtype=bool)
        if sp.get("dtype") == "int8":
            def code(extra):
                acc = numpy.zeros(shape, dtype=numpy.int64) + 5
                prod = numpy.ones(shape, dtype=numpy.int64)
                for a in range(nd):
                    acc = acc + (ids[a] + 1) * PRIME[roles[a]]
                    prod = prod * (ids[a] + SALT[roles[a]])
                if extra is not None:
                    acc = acc + (extra + 1) * PRIME["phase"]
                    prod = prod * (extra + SALT["phase"])
                return (acc + prod) % 61
            if phsum is None:
                out = code(None)
            else:
                out = numpy.zeros(shape, dtype=numpy.int64)
                for p in phsum:
                    out = out + code(p)
            return out.astype(numpy.int8), defined
        out = numpy.zeros(shape, dtype=numpy.float64)
        for a in range(nd):
            out = out + ids[a].astype(numpy.float64) * (1000.0 ** (nd - 1 - a))
        if sp.get("square"):
            # a cell is defined when all its taxa come from the same adjoined block (any number of leading square taxa axes)
            b = numpy.array([self.blk[e] for e in lists[0]], dtype=numpy.int64)
            k = sum(1 for r in roles if r == "taxa")
            d2 = numpy.ones((len(b),) * k, dtype=bool)
            for a in range(1, k):
                sh0, sha = [1] * k, [1] * k
                sh0[0], sha[a] = len(b), len(b)
                d2 = d2 & (b.reshape(sh0) == b.reshape(sha))
            d2 = d2.reshape(d2.shape + (1,) * (nd - k))
            defined = numpy.broadcast_to(d2, shape).copy()
            out = numpy.where(defined, out, numpy.nan)
        return out, defined

    # ----- construction
    def build(self, kname, roles, ents, phsum=None, how=0, tag="", absent=()):
        sp = CLASSES[kname]
        cls = load_class(kname)
        mat, _ = self.exp_mat(roles, ents, kname, phsum)
        kw = {}
        for role in dict.fromkeys(roles):
            kw.update(self.label_kwargs(role, ents[role], omit=absent))
        if kname == "DenseGenotypeMatrix":
            kw["ploidy"] = 2 if phsum is None else max(1, len(phsum))
        if sp.get("bv") and how == 0:
            obj = cls.from_numpy(mat=mat, **kw)
        else:
            obj = cls(mat=mat, **kw)
        return Entry(obj, {r: list(v) for r, v in ents.items()}, kname, tuple(roles), phsum, tag, absent)

    # ----- observation
    def state(self, ent, obj=None):
        obj = ent.obj if obj is None else obj
        names = ["mat"]
        for role in dict.fromkeys(ent.roles):
            names.extend(LABELS.get(role, ()))
            if role in GROUP:
                names.extend(GROUP[role][1])
        if CLASSES[ent.kname].get("bv"):
            names.extend(["location", "scale"])
        out = {}
        for n in names:
            v = getattr(obj, n)
            out[n] = None if v is None else numpy.array(v, copy=True)
        return out

    def semantic_state(self, ent, obj):
        st = self.state(ent, obj)
        if CLASSES[ent.kname].get("bv"):
            st["mat"] = numpy.round(obj.unscale(), 6)
            st.pop("location")
            st.pop("scale")
        return st

    def diff_states(self, a, b):
        for k in a:
            if not same_arr(a[k], b[k]):
                return "%s: %s vs %s" % (k, arg_repr(a[k]), arg_repr(b[k]))
        return None

    def check(self, ent, where):
        try:
            self._check(ent, where)
        except Fail:
            raise
        except Exception as e:
            raise Fail("observer-exception", "%s: inspecting %s raised %s: %s" % (where, ent.tag, type(e).__name__, e))

    def _check(self, ent, where):
        obj, ents, roles = ent.obj, ent.ents, ent.roles
        sp = CLASSES[ent.kname]
        pre = "%s: object %s (%s)" % (where, ent.tag, ent.kname)
        mat = obj.mat
        lists = [ents[r] for r in roles]
        shape = tuple(len(l) for l in lists)
        if tuple(mat.shape) != shape:
            raise Fail("shape", "%s has mat.shape %s, the entities on its axes give %s" % (pre, tuple(mat.shape), shape))
        want_dt = numpy.dtype(sp.get("dtype", "float64"))
        if mat.dtype != want_dt:
            raise Fail("dtype", "%s has mat.dtype %s, created as %s" % (pre, mat.dtype, want_dt))
        exp, defined = self.exp_mat(roles, ents, ent.kname, ent.phsum)
        if sp.get("bv"):
            try:
                act = obj.unscale()
            except Exception as e:
                raise Fail("cells", "%s: unscale() raised %s: %s" % (pre, type(e).__name__, e))
            if tuple(act.shape) != shape:
                raise Fail("cells", "%s: unscale() has shape %s" % (pre, act.shape))
            ok = numpy.isclose(act, exp, rtol=1e-9, atol=1e-6)
        else:
            act = mat
            ok = (act == exp) | ~defined
        if not bool(numpy.all(ok)):
            ix = tuple(int(i) for i in numpy.argwhere(~ok)[0])
            who = ", ".join("%s#%d" % (roles[a], lists[a][ix[a]]) for a in range(len(roles)))
            raise Fail("cells", "%s: cell %s belongs to (%s) and must hold %r, holds %r" % (pre, ix, who, exp[ix].item(), act[ix].item()))
        for role in dict.fromkeys(roles):
            for name in LABELS.get(role, ()):
                arr = getattr(obj, name)
                if name not in self.present or name in ent.absent:
                    if arr is not None:
                        raise Fail("label-presence", "%s: %s was never given but is %s" % (pre, name, arg_repr(arr)))
                    continue
                if arr is None:
                    raise Fail("label-presence", "%s: label array %s was lost (None)" % (pre, name))
                want = [self.lab(name, e) for e in ents[role]]
                got = arr.tolist() if isinstance(arr, numpy.ndarray) else list(arr)
                if got != want:
                    bad = [i for i in range(min(len(got), len(want))) if got[i] != want[i]]
                    raise Fail("label:" + name, "%s: %s is %s; the entities %s on the %s axis carry %s (first difference at %s)" % (
                        pre, name, got, ents[role], role, want, bad[:1] or "length"))
                if arr.dtype != numpy.dtype(NP_DTYPE[LABEL_DTYPE[name]]):
                    raise Fail("dtype", "%s: %s has dtype %s, created as %s" % (pre, name, arr.dtype, numpy.dtype(NP_DTYPE[LABEL_DTYPE[name]])))
        for role in dict.fromkeys(roles):
            if role not in GROUP:
                continue
            g = getattr(obj, "is_grouped_" + role)()
            axes = [a for a, r in enumerate(roles) if r == role]
            g2 = obj.is_grouped(axis=axes[0])
            if bool(g) != bool(g2):
                raise Fail("generic-vs-specific", "%s: is_grouped_%s() is %s but is_grouped(axis=%d) is %s" % (pre, role, g, axes[0], g2))
            if g:
                self.check_partition(pre, obj, role, len(ents[role]))

    def check_partition(self, pre, obj, role, n):
        gname, meta = GROUP[role]
        labels = getattr(obj, gname)
        name, stix, spix, ln = [getattr(obj, m) for m in meta]
        what = "%s reports is_grouped_%s() but" % (pre, role)
        desc = "name=%s stix=%s spix=%s len=%s labels=%s" % tuple(
            None if x is None else numpy.asarray(x).tolist() for x in (name, stix, spix, ln, labels))
        if labels is None:
            raise Fail("group-partition:" + role, "%s there is no %s array; %s" % (what, gname, desc))
        labels = labels.tolist()
        k = len(name)
        if not (len(stix) == len(spix) == len(ln) == k):
            raise Fail("group-partition:" + role, "%s the four metadata arrays differ in length; %s" % (what, desc))
        pos = 0
        for g in range(k):
            if int(ln[g]) <= 0:
                raise Fail("group-empty:" + role, "%s group %d (%s) is empty, its name is not on the axis; %s" % (what, g, name[g], desc))
            if int(stix[g]) != pos or int(spix[g]) != pos + int(ln[g]):
                raise Fail("group-partition:" + role, "%s group %d does not start where the previous one stops / stop != start+len; %s" % (what, g, desc))
            for i in range(pos, pos + int(ln[g])):
                if i >= n or labels[i] != name[g]:
                    raise Fail("group-partition:" + role, "%s position %d inside group %d (%s) carries another label; %s" % (what, i, g, name[g], desc))
            pos += int(ln[g])
        if pos != n:
            raise Fail("group-partition:" + role, "%s the groups cover %d of %d positions; %s" % (what, pos, n, desc))
        if len(set(numpy.asarray(name).tolist())) != k:
            raise Fail("group-partition:" + role, "%s a group name occurs twice; %s" % (what, desc))

    def check_all(self, where):
        for ent in self.pool:
            self.check(ent, where)

    # ----- calling the library
    def call(self, what, fn, *a, **k):
        kind = k.pop("_kind", "exception")
        try:
            return fn(*a, **k)
        except Fail:
            raise
        except Exception as e:
            raise Fail(kind, "%s raised %s: %s" % (what, type(e).__name__, str(e)[:300]))

    def axes_of(self, ent, role):
        return [a for a, r in enumerate(ent.roles) if r == role]

    def axis_arg(self, ent, role):
        a = self.rnd.choice(self.axes_of(ent, role))
        if self.rnd.random() < 0.6:
            return a
        stat("generic form with a negative axis")
        return a - len(ent.roles)

    def has_specific(self, role):
        return role in ("taxa", "vrnt", "trait", "phase")

    def generic_ok(self, ent, op):
        return True     # every operation has an axis-generic form on every class that has the specific one

    def snap_args(self, kwargs):
        out = {}
        for k, v in kwargs.items():
            if isinstance(v, numpy.ndarray):
                out[k] = v.copy()
            elif isinstance(v, (list, tuple)) and all(isinstance(x, numpy.ndarray) for x in v) and len(v):
                out[k] = [x.copy() for x in v]
        return out

    def check_args(self, what, kwargs, snap):
        for k, old in snap.items():
            v = kwargs[k]
            if isinstance(old, list):
                okk = all(same_arr(x, y) for x, y in zip(v, old))
            else:
                okk = same_arr(v, old)
            if not okk:
                raise Fail("argument-modified", "%s modified its argument %s" % (what, k))

    def describe(self, ent, op, role, kwargs):
        return "%s[%s].%s_%s(%s)" % (ent.kname, ent.tag, op, role, ", ".join("%s=%s" % (k, arg_repr(v)) for k, v in kwargs.items()))

    def copy_both(self, ent, op, role, kwargs, new_ents, tag, res_absent=None):
        """copying operation in its specific and its generic form; returns the entry of the result"""
        obj = ent.obj
        what = self.describe(ent, op, role, kwargs)
        snap = self.snap_args(kwargs)
        results = []
        if self.has_specific(role):
            r = self.call(what, getattr(obj, op + "_" + role), **kwargs)
            results.append(("specific", r))
        if self.generic_ok(ent, op):
            ax = self.axis_arg(ent, role)
            r = self.call(what + " via %s(axis=%d)" % (op, ax), getattr(obj, op), axis=ax, **kwargs)
            results.append(("generic axis=%d" % ax, r))
        self.check_args(what, kwargs, snap)
        out = None
        for form, r in results:
            e = ent.like(r, new_ents, tag, res_absent)
            if r is None or not isinstance(r, type(obj)):
                raise Fail("result-type", "%s (%s) returned %r" % (what, form, type(r).__name__))
            self.check(e, "result of %s (%s form)" % (what, form))
            if out is None:
                out = e
        if len(results) == 2:
            d = self.diff_states(self.state(ent, results[0][1]), self.state(ent, results[1][1]))
            if d:
                raise Fail("generic-vs-specific", "%s: specific and generic (%s) results differ in %s" % (what, results[1][0], d))
        self.check(ent, "operand after %s" % what)
        return out

    def mutate_both(self, ent, op, role, kwargs, new_ents, with_counterpart=True, res_absent=None):
        obj = ent.obj
        what = self.describe(ent, op, role, kwargs)
        cop = COUNTERPART.get(op) if with_counterpart else None
        res = None
        if cop is not None:
            res = self.copy_both(ent, cop, role, kwargs, new_ents, "r%d" % len(self.pool), res_absent)
        snap = self.snap_args(kwargs)
        twin = None
        if self.has_specific(role) and self.generic_ok(ent, op):
            twin = self.make_twin(ent)
        if self.has_specific(role):
            ret = self.call(what, getattr(obj, op + "_" + role), **kwargs)
            if twin is not None:
                ax = self.axis_arg(ent, role)
                kw2 = dict(kwargs)
                if kw2.get("values") is obj:
                    kw2["values"] = twin          # an object appended to itself: the twin appends itself
                self.call(what + " via %s(axis=%d)" % (op, ax), getattr(twin, op), axis=ax, _kind="exception-generic", **kw2)
        else:
            ax = self.axis_arg(ent, role)
            ret = self.call(what + " via %s(axis=%d)" % (op, ax), getattr(obj, op), axis=ax, **kwargs)
        if ret is not None:
            raise Fail("result-type", "%s returned %r instead of None" % (what, type(ret).__name__))
        self.check_args(what, kwargs, snap)
        ent.ents = new_ents
        if res_absent is not None:
            ent.absent = frozenset(res_absent)
        self.check(ent, "after %s" % what)
        if twin is not None:
            d = self.diff_states(self.state(ent, obj), self.state(ent, twin))
            if d:
                raise Fail("generic-vs-specific", "%s: the object states after the specific and after the generic form differ in %s" % (what, d))
        if res is not None:
            d = self.diff_states(self.semantic_state(ent, obj), self.semantic_state(ent, res.obj))
            if d:
                raise Fail("mutating-vs-copying", "%s and its copying counterpart %s give different states: %s" % (what, cop, d))
            self.pool.append(res)

    def make_twin(self, ent):
        twin = self.call("copy.deepcopy(%s)" % ent.tag, _copy.deepcopy, ent.obj)
        self.check(ent.like(twin, tag=ent.tag + "'"), "deepcopy of %s" % ent.tag)
        d = self.diff_states(self.state(ent, ent.obj), self.state(ent, twin))
        if d:
            raise Fail("copy", "copy.deepcopy(%s) differs from the original in %s" % (ent.tag, d))
        self.no_sharing(ent, twin, "copy.deepcopy(%s)" % ent.tag)
        return twin

    def no_sharing(self, ent, other, what):
        """a deep copy owns its arrays: an in-place edit of one object must not reach the other"""
        for n in self.state(ent, other):
            a, b = getattr(ent.obj, n), getattr(other, n)
            if isinstance(a, numpy.ndarray) and isinstance(b, numpy.ndarray) and a.size and numpy.shares_memory(a, b):
                raise Fail("copy", "%s shares the memory of %s with the original" % (what, n))

    # ----- building blocks of new entities
    def other_ents(self, ent, role, new):
        e = {r: list(v) for r, v in ent.ents.items()}
        e[role] = list(new)
        return e

    def make_block(self, ent, role, k, may_omit=True):
        """a block of k new entities along `role`, all other axes as in ent; sometimes without its name array"""
        new = self.fresh(role, k)
        absent = set(ent.absent)
        nm = NAME_LABEL.get(role)
        if nm in self.present and nm not in absent and may_omit and self.rnd.random() < 0.15:
            absent.add(nm)
            stat("block without its name array")
        if nm in absent:
            for e in new:
                self.nameless[role].add(e)
        return self.build(ent.kname, ent.roles, self.other_ents(ent, role, new), ent.phsum, how=1,
                          tag="v%d" % len(self.pool), absent=absent)

    def values_kwargs(self, ent, role, block):
        """either pass the block as an object of the class or as raw ndarray + label arrays"""
        sp = CLASSES[ent.kname]
        new = block.ents[role]
        as_object = self.rnd.random() < 0.5
        if as_object and not (sp.get("bv") and role != "taxa"):
            self.pool.append(block)
            stat("values passed as a matrix object")
            kw = dict(values=block.obj)
            if self.rnd.random() < 0.2:
                stat("values passed as a matrix object plus explicit label arrays")
                kw.update(self.label_kwargs(role, new, omit=block.absent))
            return kw
        stat("values passed as ndarray + label arrays")
        if sp.get("bv"):
            vals = block.obj.unscale()
        else:
            vals = numpy.array(block.obj.mat, copy=True)
        kw = dict(values=vals)
        kw.update(self.label_kwargs(role, new, omit=block.absent))
        return kw

    # ----- the operations
    def room(self, ent, role):
        return int(self.cap.get(role, self.maxlen)) - len(ent.ents[role])

    def block_size(self, ent, role):
        return max(1, min(self.rnd.choice([1, 1, 2, 3]), self.room(ent, role)))

    def sqtt_needed(self, ent, role):
        """DenseSquareTaxaTraitMatrix: copying operations along one axis forget the other axis' labels"""
        if ent.kname not in ("DenseSquareTaxaTraitMatrix", "DenseThreeWayDHAdditiveGenicVarianceMatrix",
                             "DenseFourWayDHAdditiveGeneticVarianceMatrix"):
            return False
        return bool([n for r in dict.fromkeys(ent.roles) if r != role for n in LABELS.get(r, ()) if n in self.present])

    def copy_allowed(self, ent, role):
        return (not self.sqtt_needed(ent, role)) or T_SQTT in self.allow

    def mark_copy(self, ent, role):
        if self.sqtt_needed(ent, role):
            self.used.add(T_SQTT)

    def op_select(self, ent, role):
        n = len(ent.ents[role])
        k = self.rnd.choice([1, 1, 2, 3, n, n + 1])
        k = max(1, min(k, self.maxlen))
        idx = [self.rnd.randrange(-n, n) for _ in range(k)]
        form = self.rnd.choice(["list", "array", "array"])
        indices = idx if form == "list" else numpy.array(idx, dtype=numpy.int64)
        new = self.other_ents(ent, role, m_select(ent.ents[role], idx))
        self.mark_copy(ent, role)
        res = self.copy_both(ent, "select", role, dict(indices=indices), new, "r%d" % len(self.pool))
        self.pool.append(res)

    def rand_delobj(self, n):
        """something that deletes at least 0 and at most n-1 positions"""
        form = self.rnd.choice(["int", "int", "list", "array", "slice", "mask"])
        if n == 1:
            form = self.rnd.choice(["empty-list", "empty-slice", "mask0"])
        stat("delete/remove obj form: " + form)
        if form == "int":
            return self.rnd.randrange(-n, n)
        if form in ("list", "array"):
            k = self.rnd.randrange(1, n)
            idx = self.rnd.sample(range(n), k)
            idx = [i if self.rnd.random() < 0.7 else i - n for i in idx]
            return idx if form == "list" else numpy.array(idx, dtype=numpy.int64)
        if form == "slice":
            while True:
                a, b = self.rnd.randrange(0, n), self.rnd.randrange(0, n + 1)
                st = self.rnd.choice([None, 1, 2])
                s = slice(a, b, st)
                if len(range(*s.indices(n))) < n:
                    return s
        if form == "mask":
            while True:
                m = [self.rnd.random() < 0.4 for _ in range(n)]
                if not all(m):
                    return numpy.array(m, dtype=bool)
        if form == "empty-list":
            return []
        if form == "empty-slice":
            return slice(0, 0)
        return numpy.array([False] * n, dtype=bool)

    def op_delete(self, ent, role, mutate):
        n = len(ent.ents[role])
        obj = self.rand_delobj(n)
        new = self.other_ents(ent, role, m_delete(ent.ents[role], obj.tolist() if isinstance(obj, numpy.ndarray) else obj))
        cp = self.copy_allowed(ent, role)
        if cp:
            self.mark_copy(ent, role)
        if mutate:
            self.mutate_both(ent, "remove", role, dict(obj=obj), new, with_counterpart=cp)
        else:
            self.pool.append(self.copy_both(ent, "delete", role, dict(obj=obj), new, "r%d" % len(self.pool)))

    def op_insert(self, ent, role, mutate):
        sp = CLASSES[ent.kname]
        n = len(ent.ents[role])
        k = self.block_size(ent, role)
        ax0 = self.axes_of(ent, role)[0]
        forms = ["list1", "listk", "slice1"]
        if ax0 == 0:
            forms.append("scalar")
            forms.append("scalar")
        elif T_SCALAR_INSERT in self.allow:
            forms = ["scalar"] if self.focus == T_SCALAR_INSERT else forms + ["scalar"]
        if sp.get("square") and role == "taxa":
            self.used.add(T_SQ_INSERT)
        form = self.rnd.choice(forms)
        if form == "scalar" and ax0 != 0:
            self.used.add(T_SCALAR_INSERT)
        stat("insert/incorp obj form: " + form)
        if form == "scalar":
            obj = self.rnd.randrange(-n, n + 1)
        elif form == "list1":
            obj = [self.rnd.randrange(-n, n + 1)]
            if self.rnd.random() < 0.5:
                obj = numpy.array(obj, dtype=numpy.int64)
        elif form == "slice1":
            i = self.rnd.randrange(0, n) if n else 0
            obj = slice(i, i + 1)
        else:
            obj = [self.rnd.randrange(0, n + 1) for _ in range(k)]
            if self.rnd.random() < 0.5:
                obj = numpy.array(obj, dtype=numpy.int64)
        block = self.make_block(ent, role, k)
        kw = dict(obj=obj)
        kw.update(self.values_kwargs(ent, role, block))
        mobj = obj.tolist() if isinstance(obj, numpy.ndarray) else obj
        new = self.other_ents(ent, role, m_insert(ent.ents[role], mobj, block.ents[role]))
        cp = self.copy_allowed(ent, role)
        if cp:
            self.mark_copy(ent, role)
        if mutate:
            self.mutate_both(ent, "incorp", role, kw, new, with_counterpart=cp)
        else:
            self.pool.append(self.copy_both(ent, "insert", role, kw, new, "r%d" % len(self.pool)))

    def op_adjoin(self, ent, role, mutate):
        sp = CLASSES[ent.kname]
        if (self.rnd.random() < 0.08 and self.room(ent, role) >= len(ent.ents[role]) and not sp.get("square")
                and not (sp.get("bv") and role != "taxa")):
            block = ent                      # the object adjoined to itself
            stat("object adjoined/appended to itself")
            kw = dict(values=ent.obj)
        else:
            k = self.block_size(ent, role)
            block = self.make_block(ent, role, k)
            kw = self.values_kwargs(ent, role, block)
        new = self.other_ents(ent, role, ent.ents[role] + block.ents[role])
        cp = self.copy_allowed(ent, role)
        if cp:
            self.mark_copy(ent, role)
        if mutate:
            self.mutate_both(ent, "append", role, kw, new, with_counterpart=cp)
        else:
            self.pool.append(self.copy_both(ent, "adjoin", role, kw, new, "r%d" % len(self.pool)))

    def op_concat(self, ent, role):
        """classmethod/staticmethod: the target entry is the first (or a repeated) operand"""
        sp = CLASSES[ent.kname]
        cls = type(ent.obj)
        mats = [ent]
        room = self.room(ent, role)
        for _ in range(self.rnd.choice([0, 1, 1, 2])):
            if self.rnd.random() < 0.25 and room >= len(ent.ents[role]):
                mats.append(self.rnd.choice(mats))        # the same object twice
                stat("concat with the same object twice")
                room -= len(mats[-1].ents[role])
            elif room >= 1:
                b = self.make_block(ent, role, min(room, self.rnd.choice([1, 2])))
                room -= len(b.ents[role])
                mats.append(b)
                self.pool.append(b)
        self.rnd.shuffle(mats)
        joined = []
        for m in mats:
            joined.extend(m.ents[role])
        if sp.get("square") and role == "taxa":
            self.used.add(T_SQ_CONCAT)
        self.mark_copy(ent, role)
        first = mats[0]
        new = self.other_ents(first, role, joined)
        nm = NAME_LABEL.get(role)
        res_absent = set(first.absent)
        res_absent.discard(nm)
        if nm is not None and all(nm in m.absent for m in mats):
            res_absent.add(nm)
        objs = [m.obj for m in mats]
        what = "%s.concat_%s([%s])" % (ent.kname, role, ", ".join(m.tag for m in mats))
        results = []
        if self.has_specific(role):
            results.append(("specific", self.call(what, getattr(cls, "concat_" + role), list(objs))))
        ax = self.axis_arg(ent, role)
        results.append(("generic axis=%d" % ax, self.call(what + " via concat(axis=%d)" % ax, cls.concat, list(objs), axis=ax)))
        out = None
        for form, r in results:
            e = ent.like(r, new, "r%d" % len(self.pool), res_absent)
            if not isinstance(r, type(ent.obj)):
                raise Fail("result-type", "%s (%s) returned %r" % (what, form, type(r).__name__))
            self.check(e, "result of %s (%s form)" % (what, form))
            out = out or e
        if len(results) == 2:
            d = self.diff_states(self.state(ent, results[0][1]), self.state(ent, results[1][1]))
            if d:
                raise Fail("generic-vs-specific", "%s: specific and generic results differ in %s" % (what, d))
        self.pool.append(out)
        return True

    def grouped(self, ent, role):
        return role in GROUP and bool(getattr(ent.obj, "is_grouped_" + role)())

    def op_reorder(self, ent, role):
        lst = ent.ents[role]
        n = len(lst)
        perm = list(range(n))
        if self.grouped(ent, role):
            if self.rnd.random() < 0.6 or self.focus == T_REORDER_GROUPED:
                self.cur["reorder_grouped"] = True
                stat("reorder with an arbitrary permutation while grouped")
                self.rnd.shuffle(perm)
            else:
                # a reordering that keeps every group where it is (only members move inside their group)
                gl = [self.lab(GROUP[role][0], e) for e in lst]
                i = 0
                while i < n:
                    j = i
                    while j < n and gl[j] == gl[i]:
                        j += 1
                    seg = perm[i:j]
                    self.rnd.shuffle(seg)
                    perm[i:j] = seg
                    i = j
        else:
            self.rnd.shuffle(perm)
        indices = perm if self.rnd.random() < 0.3 else numpy.array(perm, dtype=numpy.int64)
        new = self.other_ents(ent, role, [lst[i] for i in perm])
        self.mutate_both(ent, "reorder", role, dict(indices=indices), new)

    def key_value(self, kname, e):
        if kname == "ext3":
            return (e * 11 + 3) % 3
        if kname == "ext2":
            return (e * 5 + 1) % 2
        if kname == "extu":
            return (e * 7919) % 1009
        return self.lab(kname, e)

    def pick_keys(self, ent, role):
        """None (default keys) or explicit keys; returns (keys argument, key names least..most significant)"""
        have = [n for n in LABELS.get(role, ()) if n in self.present and n not in ent.absent]
        avail = list(have)
        if NAME_LABEL.get(role) in avail and any(e in self.nameless[role] for e in ent.ents[role]):
            avail.remove(NAME_LABEL[role])          # None cannot be ordered against str
        default = [k for k in DEFAULT_KEYS[role] if k in have]
        default_ok = bool(default) and all(k in avail for k in default)
        return avail, default, default_ok

    def match_order(self, ent, role, old, keynames):
        """after a sort along `role`: find the order of the old entities that the object now shows.
        Fast path: the stable order.  Otherwise any order under which every position shows the complete record
        (labels + data slice) of exactly one old entity (records compared as multisets, ties resolved towards
        sortedness)."""
        def keyrow(e):
            return tuple(self.key_value(k, e) for k in reversed(keynames))
        stable = sorted(range(len(old)), key=lambda i: keyrow(old[i]))      # Python's sort is stable
        cand = [old[i] for i in stable]
        try:
            self.check(ent.like(ent.obj, self.other_ents(ent, role, cand)), "probe")
            return cand
        except Fail:
            pass
        if CLASSES[ent.kname].get("bv"):
            return cand
        stat("sort: order found by record matching (not the stable order)")
        # general path
        obj = ent.obj
        axes = self.axes_of(ent, role)
        square = len(axes) >= 2
        mat = obj.mat
        expm, _ = self.exp_mat(ent.roles, ent.ents, ent.kname, ent.phsum)      # ent.ents still has the old order
        labs = [n for n in LABELS.get(role, ()) if n in self.present and n not in ent.absent]

        def datakey(m, i):
            sl = numpy.take(m, i, axis=axes[0])
            if not square:
                return sl.tobytes()
            rows = sl.reshape(sl.shape[0], -1)
            diag = rows[i].tobytes()
            order = numpy.lexsort(rows.T[::-1]) if rows.shape[1] else numpy.arange(rows.shape[0])
            return diag + rows[order].tobytes()
        if tuple(mat.shape) != tuple(expm.shape):
            return cand
        actual = []
        for i in range(len(old)):
            lv = []
            for nme in labs:
                arr = getattr(obj, nme)
                lv.append(None if arr is None or len(arr) != len(old) else arr[i])
            actual.append((tuple(lv), datakey(mat, i)))
        unused = {}
        for j, e in enumerate(old):
            rec = (tuple(self.lab(nme, e) for nme in labs), datakey(expm, j))
            unused.setdefault(rec, []).append(e)
        for rec in unused:
            unused[rec].sort(key=keyrow)
        out = []
        for rec in actual:
            lst = unused.get(rec)
            if not lst:
                return cand
            out.append(lst.pop(0))
        return out

    def op_sort(self, ent, role, group=False):
        avail, default, default_ok = self.pick_keys(ent, role)
        old = ent.ents[role]
        if group or self.rnd.random() < 0.5:
            if not default_ok:
                return False
            keys, keynames = None, default
            stat("group" if group else "sort with default keys")
        else:
            stat("sort with explicit keys")
            pool = avail + ["ext3", "ext2", "extu"]
            keynames = [self.rnd.choice(pool) for _ in range(self.rnd.choice([1, 1, 2, 3]))]
            arrs = []
            for kn in keynames:
                if kn.startswith("ext"):
                    arrs.append(numpy.array([self.key_value(kn, e) for e in old], dtype=numpy.int64))
                else:
                    arrs.append(getattr(ent.obj, kn) if self.rnd.random() < 0.5 else self.label_array(kn, old))
            if self.rnd.random() < 0.2:
                arrs.insert(self.rnd.randrange(len(arrs) + 1), None)
            keys = tuple(arrs)
            if all(a is not None and a.dtype == numpy.int64 for a in arrs) and self.rnd.random() < 0.3:
                keys = numpy.stack(arrs)         # the documented (k, N) array form
                stat("sort keys given as a (k, N) array")
        kw = {} if group else dict(keys=keys)
        op = "group" if group else "sort"
        what = self.describe(ent, op, role, kw)
        keylist = [numpy.asarray(k) for k in keys if k is not None] if keys is not None else []
        snap = self.snap_args({"keys": keylist} if keylist else {})
        twin = self.make_twin(ent)
        ret = self.call(what, getattr(ent.obj, op + "_" + role), **kw)
        ax = self.axis_arg(ent, role)
        if group:
            self.call(what + " via group(axis=%d)" % ax, twin.group, axis=ax)
        else:
            self.call(what + " via sort(axis=%d)" % ax, twin.sort, keys=keys, axis=ax)
        if ret is not None:
            raise Fail("result-type", "%s returned a value" % what)
        if keylist:
            self.check_args(what, {"keys": keylist}, snap)
        neworder = self.match_order(ent, role, old, keynames)
        ent.ents = self.other_ents(ent, role, neworder)
        self.check(ent, "after %s" % what)
        rows = [tuple(self.key_value(k, e) for k in reversed(keynames)) for e in neworder]
        if not is_sorted_by(rows):
            raise Fail("not-sorted", "after %s the keys %s (most significant first) read %s along the axis" % (what, list(reversed(keynames)), rows))
        d = self.diff_states(self.state(ent, ent.obj), self.state(ent, twin))
        if d:
            raise Fail("generic-vs-specific", "%s: the object states after the specific and after the generic form differ in %s" % (what, d))
        if group:
            want = GROUP[role][0] in self.present
            got = bool(getattr(ent.obj, "is_grouped_" + role)())
            if got != want:
                raise Fail("group-flag", "after %s is_grouped_%s() is %s although the group label array %s" % (
                    what, role, got, "exists" if want else "is absent"))
        return True

    def op_ungroup(self, ent, role):
        what = self.describe(ent, "ungroup", role, {})
        if self.rnd.random() < 0.5:
            self.call(what, getattr(ent.obj, "ungroup_" + role))
        else:
            ax = self.axis_arg(ent, role)
            self.call(what + " via ungroup(axis=%d)" % ax, ent.obj.ungroup, axis=ax)
        if getattr(ent.obj, "is_grouped_" + role)():
            raise Fail("group-flag", "after %s the object still reports is_grouped_%s()" % (what, role))
        left = [m for m in GROUP[role][1] if getattr(ent.obj, m) is not None]
        if left:
            raise Fail("group-flag", "after %s the group metadata %s is still set" % (what, left))
        self.check(ent, "after %s" % what)

    def op_lexsort(self, ent, role):
        avail, default, default_ok = self.pick_keys(ent, role)
        old = ent.ents[role]
        if self.rnd.random() < 0.5:
            if not default_ok:
                return False
            keys, keynames = None, default
        else:
            keynames = [self.rnd.choice(avail + ["ext3", "extu"]) for _ in range(self.rnd.choice([1, 2]))]
            keys = tuple(numpy.array([self.key_value(kn, e) for e in old], dtype=object if isinstance(self.key_value(kn, old[0]), str) else None)
                         for kn in keynames)
        what = self.describe(ent, "lexsort", role, dict(keys=keys))
        i1 = self.call(what, getattr(ent.obj, "lexsort_" + role), keys=keys)
        ax = self.axis_arg(ent, role)
        i2 = self.call(what + " via lexsort(axis=%d)" % ax, ent.obj.lexsort, keys=keys, axis=ax)
        if not same_arr(numpy.asarray(i1), numpy.asarray(i2)):
            raise Fail("generic-vs-specific", "%s: specific gives %s, generic gives %s" % (what, arg_repr(i1), arg_repr(i2)))
        idx = [int(i) for i in i1]
        if sorted(idx) != list(range(len(old))):
            raise Fail("not-a-permutation", "%s returned %s" % (what, idx))
        rows = [tuple(self.key_value(k, old[i]) for k in reversed(keynames)) for i in idx]
        if not is_sorted_by(rows):
            raise Fail("not-sorted", "%s returned %s under which the keys read %s" % (what, idx, rows))
        self.check(ent, "after %s" % what)
        # use the indices: reorder by them (a within-history composition lexsort -> reorder)
        if self.rnd.random() < 0.7:
            if self.grouped(ent, role):
                self.cur["reorder_grouped"] = True
            new = self.other_ents(ent, role, [old[i] for i in idx])
            self.mutate_both(ent, "reorder", role, dict(indices=numpy.asarray(i1)), new)
        return True

    def op_copy(self, ent):
        how = self.rnd.choice(["copy", "deepcopy", "copy.copy", "copy.deepcopy"])
        what = "%s[%s].%s()" % (ent.kname, ent.tag, how)
        if how == "copy":
            r = self.call(what, ent.obj.copy)
        elif how == "deepcopy":
            r = self.call(what, ent.obj.deepcopy)
        elif how == "copy.copy":
            r = self.call(what, _copy.copy, ent.obj)
        else:
            r = self.call(what, _copy.deepcopy, ent.obj)
        e = ent.like(r, {k: list(v) for k, v in ent.ents.items()}, "c%d" % len(self.pool))
        self.check(e, "result of %s" % what)
        d = self.diff_states(self.state(ent, ent.obj), self.state(ent, r))
        if d:
            raise Fail("copy", "%s differs from the original in %s" % (what, d))
        if "deepcopy" in how:
            self.no_sharing(ent, r, what)
        self.pool.append(e)

    # ----- genotyping protocols
    def op_genotype(self, ent, proto, invert):
        mod = importlib.import_module("pybrops.breed.prot.gt." + proto)
        pcls = getattr(mod, proto)
        gt = pcls(invert=invert) if "Masked" in proto else pcls()
        what = "%s(%s).genotype(%s)" % (proto, "invert=%s" % invert if "Masked" in proto else "", ent.tag)
        vr = list(ent.ents["vrnt"])
        if "Masked" in proto and "vrnt_mask" not in self.present and self.grouped(ent, "vrnt"):
            if T_GT_NOMASK in self.allow:
                self.used.add(T_GT_NOMASK)
            else:
                return False
        if "Masked" in proto and "vrnt_mask" in self.present:
            keep = [e for e in vr if bool(self.lab("vrnt_mask", e)) != bool(invert)]
            if not keep:
                return False
            was_grouped = self.grouped(ent, "vrnt")
            if was_grouped:
                before = {self.lab("vrnt_chrgrp", e) for e in vr}
                after = {self.lab("vrnt_chrgrp", e) for e in keep}
                if before != after:
                    if T_GT_EMPTY in self.allow:
                        self.used.add(T_GT_EMPTY)
                    else:
                        return False
            vr = keep
        out = self.call(what, gt.genotype, ent.obj)
        if "Unphased" in proto:
            kname, roles, phsum = "DenseGenotypeMatrix", ("taxa", "vrnt"), tuple(ent.ents["phase"])
            ents = {"taxa": list(ent.ents["taxa"]), "vrnt": vr}
        else:
            kname, roles, phsum = "DensePhasedGenotypeMatrix", ("phase", "taxa", "vrnt"), None
            ents = {"phase": list(ent.ents["phase"]), "taxa": list(ent.ents["taxa"]), "vrnt": vr}
        if type(out).__name__ != kname:
            raise Fail("result-type", "%s returned %s" % (what, type(out).__name__))
        e = Entry(out, ents, kname, roles, phsum, "g%d" % len(self.pool), ent.absent)
        self.check(e, "result of %s" % what)
        self.check(ent, "operand after %s" % what)
        self.pool.append(e)
        return True

    # ----- history
    def available_ops(self, ent, role):
        sp = CLASSES[ent.kname]
        ops = []
        if role.startswith("x"):
            return ops
        anon = sp.get("anon")
        copying = self.copy_allowed(ent, role)
        bv = sp.get("bv")
        square_taxa = sp.get("square") and role == "taxa"
        grow = self.room(ent, role) >= 1
        if bv and role == "trait" and T_BV_TRAIT not in self.allow:
            return ops
        splice_ok = (not bv) or role == "trait" or T_BV_SPLICE in self.allow
        if copying:
            ops += ["select", "delete"]
            if grow:
                ops += ["adjoin"]
                if not square_taxa or T_SQ_INSERT in self.allow:
                    ops += ["insert"]
                if (not square_taxa or T_SQ_CONCAT in self.allow) and splice_ok:
                    ops += ["concat"]
        if anon == "copy":
            return ops
        ops += ["remove"]
        if grow and splice_ok:
            ops += ["append"]
            if not square_taxa or T_SQ_INSERT in self.allow:
                ops += ["incorp"]
        if role in ("taxa", "vrnt", "trait"):
            ops += ["reorder", "sort", "lexsort"]
        if role in GROUP:
            ops += ["group", "ungroup"]
        return ops

    def do_step(self, ent, role, op):
        self.cur = dict(kname=ent.kname, role=role, op=op, target=ent.tag)
        if CLASSES[ent.kname].get("bv"):
            if role == "trait":
                self.used.add(T_BV_TRAIT)
            elif op in ("append", "incorp", "concat"):
                self.used.add(T_BV_SPLICE)
        if op == "select":
            self.op_select(ent, role)
        elif op == "delete":
            self.op_delete(ent, role, False)
        elif op == "remove":
            self.op_delete(ent, role, True)
        elif op == "insert":
            self.op_insert(ent, role, False)
        elif op == "incorp":
            self.op_insert(ent, role, True)
        elif op == "adjoin":
            self.op_adjoin(ent, role, False)
        elif op == "append":
            self.op_adjoin(ent, role, True)
        elif op == "concat":
            return self.op_concat(ent, role)
        elif op == "reorder":
            self.op_reorder(ent, role)
        elif op == "sort":
            return self.op_sort(ent, role)
        elif op == "group":
            return self.op_sort(ent, role, group=True)
        elif op == "ungroup":
            self.op_ungroup(ent, role)
        elif op == "lexsort":
            return self.op_lexsort(ent, role)
        elif op == "copy":
            self.op_copy(ent)
        else:
            raise KeyError(op)
        return True


def initial_entry(run, case):
    kname = case["cls"]
    sp = CLASSES[kname]
    roles = list(sp["roles"])
    if sp.get("base"):
        roles += ["x%d" % i for i in range(int(case.get("extra", 1)))]
    ents = {}
    sizes = case["sizes"]
    for r in dict.fromkeys(roles):
        ents[r] = run.fresh(r, int(sizes.get(r, 2)))
    return run.build(kname, tuple(roles), ents, None, how=int(case.get("how", 0)), tag="m0")


def run_history(case):
    """one history; returns (violated, message, cls, number of executed steps)"""
    run = Run(case)
    rnd = run.rnd
    log = []
    want = set(case.get("allow", ()))
    script = list(case.get("script", ()))
    try:
        ent0 = initial_entry(run, case)
        run.pool.append(ent0)
        run.cur = dict(kname=ent0.kname, op="construct", role="-")
        run.check_all("after construction")
        nsteps = max(int(case["nsteps"]), len(script))
        for s in range(nsteps):
            forced = script[s] if s < len(script) else None
            for attempt in range(8):
                run.used = set()
                if forced is not None:
                    ent = run.pool[0] if len(forced) < 4 else run.pool[-1]
                    if forced[0] == "genotype":
                        run.cur = dict(kname=ent.kname, op="genotype:" + forced[1], role="vrnt")
                        log.append("%d:%s(%s).genotype(%s)" % (s, forced[1], forced[2], ent.tag))
                        done = run.op_genotype(ent, forced[1], bool(forced[2]))
                    else:
                        op, role = forced[0], forced[1]
                        if role not in ent.roles or op not in run.available_ops(ent, role) + ["copy"]:
                            done = False
                            log.append("")
                        else:
                            log.append("%d:%s[%s].%s_%s" % (s, ent.kname, ent.tag, op, role))
                            done = run.do_step(ent, role, op)
                    if done is False:
                        log.pop()
                        return False, "ok (scripted step %s not applicable after: %s)" % (forced, "; ".join(log)), None, len(log)
                else:
                    u = rnd.random()
                    ent = run.pool[0] if u < 0.45 else (run.pool[-1] if u < 0.65 else rnd.choice(run.pool))
                    roles = [r for r in dict.fromkeys(ent.roles) if not r.startswith("x")]
                    role = rnd.choice(roles)
                    ops = run.available_ops(ent, role)
                    if not ops:
                        continue
                    op = "copy" if rnd.random() < 0.06 else rnd.choice(ops)
                    log.append("%d:%s[%s].%s_%s" % (s, ent.kname, ent.tag, op, role))
                    done = run.do_step(ent, role, op)
                    if done is False:
                        log.pop()
                        continue
                run.check_all("after step %d (%s)" % (s, log[-1]))
                break
        return False, "ok (%d steps: %s)" % (len(log), "; ".join(log)), None, len(log)
    except Fail as f:
        trig = sorted(run.used & want)
        step = run.cur
        if trig:
            cls = trig[0]
        elif f.kind == "exception-generic" and step.get("op") in BASE_SELF_CALL.get(step.get("kname"), ()):
            cls = T_GEN_INCORP if step.get("op") == "incorp" else T_GEN_REORDER
        elif step.get("reorder_grouped") and f.kind.startswith("group-partition"):
            cls = T_REORDER_GROUPED
        else:
            cls = "C03:%s:%s:%s" % (step.get("kname"), step.get("op"), f.kind.split(":")[0])
        return True, "[%s] %s | history: %s" % (f.kind, f.msg, "; ".join(log)), cls, len(log)


def run_case(case):
    """execute ONE case on the real code; (violated, message).  Deterministic in the dict."""
    bad, msg, cls, n = run_history(case)
    return bad, msg


def _replay(case):
    try:
        return run_case(case)
    except Exception as e:
        return True, "exception %s: %s" % (type(e).__name__, e)


# ---------------------------------------------------------------------------
# case generation
GROUPS = {
    "base": ["DenseMatrix", "DenseMutableMatrix", "DenseTaxaMatrix", "DenseVariantMatrix", "DenseTraitMatrix",
             "DensePhasedMatrix"],
    "taxa-variant": ["DenseTaxaVariantMatrix", "DensePhasedTaxaVariantMatrix", "DenseGenotypeMatrix",
                     "DensePhasedGenotypeMatrix"],
    "taxa-trait-square": ["DenseTaxaTraitMatrix", "DenseSquareTaxaMatrix", "DenseSquareTaxaTraitMatrix",
                          "DenseThreeWayDHAdditiveGenicVarianceMatrix", "DenseFourWayDHAdditiveGeneticVarianceMatrix",
                          "DenseCoancestryMatrix"],
    "breeding-value": ["DenseBreedingValueMatrix"],
}


def class_labels(kname):
    out = []
    for r in dict.fromkeys(CLASSES[kname]["roles"]):
        out.extend(LABELS.get(r, ()))
    return out


def make_case(rnd, kname, allow=(), script=(), nsteps=None, present=None, **over):
    sp = CLASSES[kname]
    labels = class_labels(kname)
    if present is None:
        mode = rnd.choice(["all", "all", "random", "random", "none", "keys"])
        if kname in ("DenseSquareTaxaTraitMatrix", "DenseThreeWayDHAdditiveGenicVarianceMatrix",
                     "DenseFourWayDHAdditiveGeneticVarianceMatrix") and T_SQTT not in allow:
            mode = rnd.choice(["taxa-only", "taxa-only", "trait-only", "random", "none"])
        if mode == "all":
            present = list(labels)
        elif mode == "none":
            present = []
        elif mode == "keys":
            present = [l for l in labels if l in ("taxa", "taxa_grp", "vrnt_chrgrp", "vrnt_phypos", "trait")]
        elif mode == "taxa-only":
            present = [l for l in labels if l in TAXA_LABELS and rnd.random() < 0.8]
        elif mode == "trait-only":
            present = [l for l in labels if l in TRAIT_LABELS]
        else:
            present = [l for l in labels if rnd.random() < 0.6]
    roles = list(dict.fromkeys(sp["roles"]))
    sizes = {}
    for r in roles:
        sizes[r] = rnd.choice([1, 1, 2, 3, 4]) if r != "phase" else rnd.choice([1, 2, 2, 3])
    extra = rnd.choice([0, 1, 1, 2]) if sp.get("base") else 0
    for i in range(extra):
        sizes["x%d" % i] = rnd.choice([1, 2, 3])
    case = dict(kind="history", cls=kname, seed=rnd.randrange(2 ** 31), nsteps=nsteps if nsteps is not None else rnd.choice([1, 2, 3, 4, 5, 6]),
                sizes=sizes, extra=extra, present=sorted(present), dup=rnd.choice([1, 2, 3, 1000]),
                grpmod=rnd.choice([1, 2, 3, 1000]), chrmod=rnd.choice([1, 2, 3]), posmod=rnd.choice([1, 3, 5, 1000]),
                how=rnd.choice([0, 0, 1]), allow=sorted(allow), script=[list(s) if s is not None else None for s in script])
    case.update(over)
    return case


_HEALTHY = {}


def healthy_triggers():
    """suspected-defect situations that do NOT fail on the tree under test (fixed or never broken): these are mixed
    into the ordinary histories, so that a repaired operation gets the full history coverage; situations that still
    fail stay confined to the trigger unit and cannot cut ordinary histories short"""
    if "set" not in _HEALTHY:
        bad = set()
        for case in gen_triggers(random.Random(977), "quick"):
            try:
                failed = run_history(case)[0]
            except Exception:
                failed = True
            if failed:
                bad.add(case["focus"])
        _HEALTHY["set"] = sorted(t for t in ALL_TRIGGERS if t not in bad)
    return list(_HEALTHY["set"])


def gen_main(rnd, tier, group, n_quick, n_thorough):
    n = n_quick if tier == "quick" else n_thorough
    names = GROUPS[group]
    allow = healthy_triggers()
    for i in range(n):
        yield make_case(rnd, names[i % len(names)], allow=allow)


def gen_genotyping(rnd, tier):
    n = 4000 if tier == "quick" else 42000
    protos = [("DenseUnphasedGenotyping", False), ("DenseMaskedUnphasedGenotyping", False),
              ("DenseMaskedUnphasedGenotyping", True), ("DenseMaskedPhasedGenotyping", False),
              ("DenseMaskedPhasedGenotyping", True)]
    labels = class_labels("DensePhasedGenotypeMatrix")
    allow = healthy_triggers()
    for i in range(n):
        proto, inv = protos[i % len(protos)]
        pre = [None] * rnd.choice([0, 0, 1, 2])
        if rnd.random() < 0.6:
            pre.append(("group", "vrnt"))
        if rnd.random() < 0.4:
            pre.append(("group", "taxa"))
        if rnd.random() < 0.3:
            pre.append(None)
        script = pre + [("genotype", proto, inv)] + [None] * rnd.choice([0, 1, 2, 2])
        mode = rnd.choice(["all", "all", "random", "nomask"])
        if mode == "all":
            present = list(labels)
        elif mode == "nomask":
            present = [l for l in labels if l != "vrnt_mask"]
        else:
            present = [l for l in labels if rnd.random() < 0.6 or l in ("vrnt_mask",)]
        case = make_case(rnd, "DensePhasedGenotypeMatrix", script=script, nsteps=len(script), present=present,
                         cap={"phase": 2}, allow=allow)
        case["sizes"]["phase"] = rnd.choice([1, 2, 2])
        case["sizes"]["vrnt"] = rnd.choice([1, 2, 3, 4, 5])
        yield case


TRIGGER_PLAN = [
    # trigger, classes, candidate scripts (op, role)
    (T_GEN_INCORP, ["DenseTaxaMatrix", "DenseVariantMatrix", "DenseTraitMatrix", "DensePhasedMatrix"], [[("incorp", "*")]]),
    (T_GEN_REORDER, ["DenseTaxaMatrix", "DenseVariantMatrix", "DenseTraitMatrix"], [[("reorder", "*")]]),
    (T_REORDER_GROUPED, ["DenseTaxaMatrix", "DenseVariantMatrix", "DenseTaxaVariantMatrix", "DensePhasedTaxaVariantMatrix",
                         "DenseTaxaTraitMatrix", "DenseSquareTaxaMatrix", "DenseGenotypeMatrix", "DensePhasedGenotypeMatrix",
                         "DenseBreedingValueMatrix", "DenseCoancestryMatrix"],
     [[("group", "G"), ("reorder", "G")]]),
    (T_SCALAR_INSERT, ["DenseMatrix", "DenseMutableMatrix", "DenseTaxaVariantMatrix", "DensePhasedTaxaVariantMatrix",
                       "DenseTaxaTraitMatrix", "DenseGenotypeMatrix", "DensePhasedGenotypeMatrix"],
     [[("insert", "N")], [("incorp", "N")]]),
    (T_SQ_INSERT, ["DenseSquareTaxaMatrix", "DenseSquareTaxaTraitMatrix", "DenseCoancestryMatrix"],
     [[("insert", "taxa")], [("incorp", "taxa")]]),
    (T_SQ_CONCAT, ["DenseSquareTaxaMatrix", "DenseSquareTaxaTraitMatrix", "DenseCoancestryMatrix"], [[("concat", "taxa")]]),
    (T_SQTT, ["DenseSquareTaxaTraitMatrix"],
     [[("select", "taxa")], [("delete", "taxa")], [("adjoin", "taxa")], [("select", "trait")], [("delete", "trait")],
      [("adjoin", "trait")], [("insert", "trait")], [("concat", "trait")], [("remove", "taxa")], [("append", "trait")]]),
    (T_BV_TRAIT, ["DenseBreedingValueMatrix"],
     [[("select", "trait")], [("delete", "trait")], [("adjoin", "trait")], [("insert", "trait")], [("concat", "trait")],
      [("append", "trait")], [("remove", "trait")], [("incorp", "trait")], [("reorder", "trait")], [("sort", "trait")]]),
    (T_BV_SPLICE, ["DenseBreedingValueMatrix"], [[("append", "taxa")], [("incorp", "taxa")], [("concat", "taxa")]]),
    (T_GT_EMPTY, ["DensePhasedGenotypeMatrix"],
     [[("group", "vrnt"), ("genotype", "DenseMaskedPhasedGenotyping", False)],
      [("group", "vrnt"), ("genotype", "DenseMaskedUnphasedGenotyping", False)],
      [("group", "vrnt"), ("genotype", "DenseMaskedPhasedGenotyping", True)]]),
    (T_GT_NOMASK, ["DensePhasedGenotypeMatrix"],
     [[("group", "vrnt"), ("genotype", "DenseMaskedPhasedGenotyping", False)],
      [("group", "vrnt"), ("genotype", "DenseMaskedUnphasedGenotyping", True)]]),
]


def gen_triggers(rnd, tier):
    per = 20 if tier == "quick" else 400
    for trig, classes, scripts in TRIGGER_PLAN:
        for i in range(per):
            kname = classes[i % len(classes)]
            roles = list(dict.fromkeys(CLASSES[kname]["roles"]))
            script = []
            grole = rnd.choice([r for r in roles if r in GROUP] or ["taxa"])
            # a role that does not sit on matrix axis 0
            nz = [r for a, r in enumerate(CLASSES[kname]["roles"]) if a > 0 and r not in CLASSES[kname]["roles"][:1]]
            nrole = rnd.choice(nz) if nz else roles[-1]
            for item in scripts[(i // len(classes)) % len(scripts)]:
                item = list(item)
                if item[1] == "*":
                    item[1] = roles[0]
                elif item[1] == "G":
                    item[1] = grole
                elif item[1] == "N":
                    item[1] = nrole
                script.append(item)
            labels = class_labels(kname)
            present = [l for l in labels if rnd.random() < 0.85 or l in ("taxa_grp", "vrnt_chrgrp", "vrnt_phypos", "vrnt_mask", "trait", "taxa")]
            lead = [None] * rnd.choice([0, 0, 1])
            case = make_case(rnd, kname, allow=[trig], script=lead + script, nsteps=len(lead) + len(script), present=present,
                             focus=trig)
            if trig in (T_REORDER_GROUPED, T_GT_EMPTY, T_GT_NOMASK):
                case["sizes"][script[0][1]] = rnd.choice([2, 3, 4, 5])
                case["grpmod"] = rnd.choice([2, 3])
                case["chrmod"] = rnd.choice([2, 3])
            if trig == T_GT_NOMASK:
                case["present"] = [l for l in case["present"] if l != "vrnt_mask"]
            if trig in (T_GT_EMPTY, T_GT_NOMASK):
                case["cap"] = {"phase": 2}
                case["sizes"]["phase"] = rnd.choice([1, 2])
            yield case


def drive(ctx, cases, stop_unknown=3, cap_known=3):
    seen = {}
    unknown = 0
    STATS.clear()
    for case in cases:
        try:
            bad, msg, cls, nstep = run_history(case)
        except Exception as e:      # a crash of the ring itself must not pass silently
            bad, msg, cls, nstep = True, "ring error %s: %s" % (type(e).__name__, e), "C03:ring-error", 0
        ctx.case(key=repr(sorted(case.items(), key=str)), nontrivial=nstep > 0,
                 sample=dict(cls=case["cls"], seed=case["seed"], nsteps=case["nsteps"], present=case["present"], history=msg[:300]))
        if bad:
            seen[cls] = seen.get(cls, 0) + 1
            if seen[cls] <= cap_known:
                ctx.fail_input("ring:%s:%s" % (case["cls"], cls), case, cls=cls, message=msg)
            if cls not in ALL_TRIGGERS:
                unknown += 1
                if unknown >= stop_unknown:
                    break
    ctx.notes.append("features exercised: " + "; ".join("%s=%d" % kv for kv in sorted(STATS.items())))
    if "set" in _HEALTHY:
        ctx.notes.append("suspected-defect situations found healthy on this tree and mixed into the ordinary histories: %s" % (
            ", ".join(_HEALTHY["set"]) or "none"))


RULE = ("seeded random operation histories (<= 6 steps, VERIF_SEED) on a pool of live objects whose cells encode the "
        "entity ids of their row/column/phase and whose labels are functions of the ids (duplicates on purpose); every step "
        "runs the specific and the generic form, mutating steps also their copying counterpart, and every live object is "
        "compared with its list-of-entities model after every step; a case is non-trivial if at least one operation ran; "
        "distinct by the full case dict")


@unit(P, "ring[histories: DenseMatrix and single-axis base classes]", "R", bounded=True,
      note="bounded: <= 6 operations per history, axis lengths 1..9 (start 1..4), 1-3 matrix dimensions, quick 6000 / thorough 80000 seeded histories")
def u_ring_base(ctx):
    ctx.rule = RULE
    drive(ctx, gen_main(ctx.rng, ctx.tier, "base", 6000, 80000))


@unit(P, "ring[histories: taxa-variant, phased and genotype matrices]", "R", bounded=True,
      note="bounded: <= 6 operations per history, axis lengths 1..9 (start 1..4), quick 4000 / thorough 45000 seeded histories")
def u_ring_tv(ctx):
    ctx.rule = RULE
    drive(ctx, gen_main(ctx.rng, ctx.tier, "taxa-variant", 4000, 45000))


@unit(P, "ring[histories: taxa-trait, square-taxa and coancestry matrices]", "R", bounded=True,
      note="bounded: <= 6 operations per history, axis lengths 1..9 (start 1..4), quick 4500 / thorough 60000 seeded histories")
def u_ring_tt(ctx):
    ctx.rule = RULE
    drive(ctx, gen_main(ctx.rng, ctx.tier, "taxa-trait-square", 4500, 60000))


@unit(P, "ring[histories: breeding-value matrix]", "R", bounded=True,
      note="bounded: <= 6 operations per history, axis lengths 1..9; cells compared through unscale() to 1e-9 relative "
           "(the class re-standardises on every taxa operation); quick 4000 / thorough 50000 seeded histories")
def u_ring_bv(ctx):
    ctx.rule = RULE
    drive(ctx, gen_main(ctx.rng, ctx.tier, "breeding-value", 4000, 50000))


@unit(P, "ring[genotyping protocols inside histories]", "R", bounded=True,
      note="bounded: phased genotype matrices with <= 2 phases, <= 9 taxa/variants, 0-3 operations before and 0-2 after one of "
           "the three genotyping protocols (invert on/off); quick 4000 / thorough 42000 seeded histories")
def u_ring_gt(ctx):
    ctx.rule = RULE + "; the genotyping step maps a phased genotype matrix to a new (un)phased one that joins the pool"
    drive(ctx, gen_genotyping(ctx.rng, ctx.tier))


@unit(P, "ring[suspected-defect triggers, one failure class each]", "R", bounded=True,
      note="bounded: scripted 1-3 step histories that exercise exactly one suspected defect of the unchanged library each "
           "(generic incorp/reorder of the base classes, reorder while grouped, scalar-index insert off axis 0, square-taxa "
           "insert/concat, square-taxa-trait copies, breeding-value trait-axis and inherited taxa operations, masked "
           "genotyping of a vanished chromosome or without a mask); quick 20 / thorough 400 cases per class of input")
def u_ring_trig(ctx):
    ctx.rule = RULE + "; scripted: the named operation is forced on the first object"
    drive(ctx, gen_triggers(ctx.rng, ctx.tier), stop_unknown=6)


REPLAYERS = {
    "ring[histories: DenseMatrix and single-axis base classes]": _replay,
    "ring[histories: taxa-variant, phased and genotype matrices]": _replay,
    "ring[histories: taxa-trait, square-taxa and coancestry matrices]": _replay,
    "ring[histories: breeding-value matrix]": _replay,
    "ring[genotyping protocols inside histories]": _replay,
    "ring[suspected-defect triggers, one failure class each]": _replay,
}
