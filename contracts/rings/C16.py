"""C16 native bounded rings: saving, loading and copying reproduce objects exactly.

Oracle (from the property statement, independent of the library's code): an
object written to HDF5 / CSV / a data frame and read back with matching options
must expose the same observable fields (data, labels, group metadata,
parameters) -- compared field by field, exactly (NaN == NaN, dtype equal,
labels as python ``str``); after a sequence of writes to one location the
read-back equals the last object written; a VCF import reproduces sample
names, coordinates, identifiers and calls of the text that this ring itself
generated; copies compare equal and a deep copy shares no numpy buffer / no
mutable container with its source.

Every case is a JSON-serialisable dict; ``run_case(case)`` re-runs it.
"""
import os, tempfile, copy, importlib, pathlib, warnings, contextlib, io, types
import numpy
from pyvc.unit import unit

P = "C16"

# --------------------------------------------------------------------------
# classes under test
# --------------------------------------------------------------------------
CLASSES = {
    "DenseMatrix": "pybrops.core.mat.DenseMatrix",
    "DenseTaxaMatrix": "pybrops.core.mat.DenseTaxaMatrix",
    "DenseVariantMatrix": "pybrops.core.mat.DenseVariantMatrix",
    "DenseGenotypeMatrix": "pybrops.popgen.gmat.DenseGenotypeMatrix",
    "DensePhasedGenotypeMatrix": "pybrops.popgen.gmat.DensePhasedGenotypeMatrix",
    "DenseBreedingValueMatrix": "pybrops.popgen.bvmat.DenseBreedingValueMatrix",
    "DenseMolecularCoancestryMatrix": "pybrops.popgen.cmat.DenseMolecularCoancestryMatrix",
    "DenseSquareTaxaTraitMatrix": "pybrops.core.mat.DenseSquareTaxaTraitMatrix",
    "DenseTwoWayDHAdditiveGeneticVarianceMatrix": "pybrops.model.vmat.DenseTwoWayDHAdditiveGeneticVarianceMatrix",
    "StandardGeneticMap": "pybrops.popgen.gmap.StandardGeneticMap",
    "ExtendedGeneticMap": "pybrops.popgen.gmap.ExtendedGeneticMap",
    "DenseAdditiveLinearGenomicModel": "pybrops.model.gmod.DenseAdditiveLinearGenomicModel",
    "DenseAdditiveDominanceLinearGenomicModel": "pybrops.model.gmod.DenseAdditiveDominanceLinearGenomicModel",
    "G_E_Phenotyping": "pybrops.breed.prot.pt.G_E_Phenotyping",
}
H5_CLASSES = ["DenseMatrix", "DenseTaxaMatrix", "DenseVariantMatrix", "DenseGenotypeMatrix",
              "DensePhasedGenotypeMatrix", "DenseBreedingValueMatrix", "DenseMolecularCoancestryMatrix",
              "DenseSquareTaxaTraitMatrix", "DenseTwoWayDHAdditiveGeneticVarianceMatrix",
              "DenseAdditiveLinearGenomicModel", "DenseAdditiveDominanceLinearGenomicModel", "G_E_Phenotyping"]
DF_CLASSES = ["DenseBreedingValueMatrix", "DenseMolecularCoancestryMatrix", "DenseSquareTaxaTraitMatrix",
              "DenseTwoWayDHAdditiveGeneticVarianceMatrix", "StandardGeneticMap", "ExtendedGeneticMap",
              "DenseAdditiveLinearGenomicModel", "DenseAdditiveDominanceLinearGenomicModel"]

TAXA_F = ["taxa", "taxa_grp", "taxa_grp_name", "taxa_grp_stix", "taxa_grp_spix", "taxa_grp_len"]
VRNT_OPT = ["vrnt_chrgrp", "vrnt_phypos", "vrnt_name", "vrnt_genpos", "vrnt_xoprob", "vrnt_hapgrp",
            "vrnt_hapalt", "vrnt_hapref", "vrnt_mask"]
VGRP_F = ["vrnt_chrgrp_name", "vrnt_chrgrp_stix", "vrnt_chrgrp_spix", "vrnt_chrgrp_len"]
VRNT_F = VRNT_OPT + VGRP_F
FIELDS = {
    "DenseMatrix": ["mat"],
    "DenseTaxaMatrix": ["mat"] + TAXA_F,
    "DenseVariantMatrix": ["mat"] + VRNT_F,
    "DenseGenotypeMatrix": ["mat", "ploidy"] + TAXA_F + VRNT_F,
    "DensePhasedGenotypeMatrix": ["mat", "ploidy", "nphase"] + TAXA_F + VRNT_F,
    "DenseBreedingValueMatrix": ["mat", "location", "scale", "trait"] + TAXA_F,
    "DenseMolecularCoancestryMatrix": ["mat"] + TAXA_F,
    "DenseSquareTaxaTraitMatrix": ["mat", "trait"] + TAXA_F,
    "DenseTwoWayDHAdditiveGeneticVarianceMatrix": ["mat", "trait"] + TAXA_F,
    "StandardGeneticMap": ["vrnt_chrgrp", "vrnt_phypos", "vrnt_genpos", "spline_kind", "spline_fill_value"] + VGRP_F,
    "ExtendedGeneticMap": ["vrnt_chrgrp", "vrnt_phypos", "vrnt_stop", "vrnt_genpos", "vrnt_name", "vrnt_fncode",
                           "spline_kind", "spline_fill_value"] + VGRP_F,
    "DenseAdditiveLinearGenomicModel": ["beta", "u_misc", "u_a", "trait", "model_name", "hyperparams"],
    "DenseAdditiveDominanceLinearGenomicModel": ["beta", "u_misc", "u_a", "u_d", "trait", "model_name", "hyperparams"],
    "G_E_Phenotyping": ["nenv", "nrep", "var_env", "var_rep", "var_err"],
}
MAPS = ("StandardGeneticMap", "ExtendedGeneticMap")
MODELS = ("DenseAdditiveLinearGenomicModel", "DenseAdditiveDominanceLinearGenomicModel")


def _cls(name):
    return getattr(importlib.import_module(CLASSES[name]), name)


# --------------------------------------------------------------------------
# deterministic builders: spec (json dict) -> object
# --------------------------------------------------------------------------
_LABEL_POOLS = {
    "ascii": ["L%d", "line_%d", "Entry-%d", "x%dy"],
    "uni": ["Zoë%d", "漢字%d", "ñandú_%d", "Ωmega%d", "Ελ%d", "é%d",
            "\U0001f33d%d", "Ж%dя"],
    "mixed": ["L%d", "漢%d", "sp ace %d", "ü-%d", "Entry-%d"],
    "tricky": ["a,b%d", "q\"t%d", "semi;%d", "tab%d", "sp ace %d", "#h%d"],
}


def _labels(kind, tag, n, rs):
    pool = _LABEL_POOLS[kind]
    out = numpy.empty(n, dtype=object)
    for i in range(n):
        out[i] = tag + (pool[int(rs.randint(len(pool)))] % i)     # pairwise distinct by the index
    return out


def _floats(rs, shape, flavour="plain"):
    a = rs.standard_normal(shape) * numpy.power(10.0, rs.randint(-3, 4, size=shape))
    if a.size:
        flat = a.reshape(-1)
        if flavour in ("plain", "nan"):
            flat[int(rs.randint(a.size))] = 0.0                  # exact zero
            flat[int(rs.randint(a.size))] = -0.1                 # not exactly representable
            flat[int(rs.randint(a.size))] = 1.0 / 3.0
        if flavour == "nan":
            flat[int(rs.randint(a.size))] = numpy.nan
    return a


def _group_meta(g):
    """independent definition of grouping metadata: maximal runs of equal labels"""
    names, st = [], []
    for i in range(len(g)):
        if i == 0 or g[i] != g[i - 1]:
            names.append(int(g[i]))
            st.append(i)
    sp = st[1:] + [len(g)]
    ln = [b - a for a, b in zip(st, sp)]
    return (numpy.array(names, dtype="int64"), numpy.array(st, dtype="int64"),
            numpy.array(sp, dtype="int64"), numpy.array(ln, dtype="int64"))


def _grp_array(rs, n, grouped):
    g = rs.randint(-1, 4, size=n).astype("int64")
    if n and rs.randint(3) == 0:
        g[int(rs.randint(n))] = 2 ** 40 + 7      # beyond int32
    if grouped:
        g = numpy.sort(g)
    return g


def _set_taxa_group(obj):
    nm, st, sp, ln = _group_meta(obj.taxa_grp)
    obj.taxa_grp_name, obj.taxa_grp_stix, obj.taxa_grp_spix, obj.taxa_grp_len = nm, st, sp, ln


def _set_vrnt_group(obj):
    nm, st, sp, ln = _group_meta(obj.vrnt_chrgrp)
    obj.vrnt_chrgrp_name, obj.vrnt_chrgrp_stix, obj.vrnt_chrgrp_spix, obj.vrnt_chrgrp_len = nm, st, sp, ln


def _taxa_kwargs(spec, rs, n):
    opt = spec.get("opt", [])
    kw = {}
    if "taxa" in opt:
        kw["taxa"] = _labels(spec.get("lab", "ascii"), "t", n, rs)
        if spec.get("shuffle") and n > 1:
            kw["taxa"] = kw["taxa"][rs.permutation(n)]
        elif spec.get("sorted_labels"):
            kw["taxa"] = numpy.array(sorted(kw["taxa"]), dtype=object)
    if "taxa_grp" in opt:
        kw["taxa_grp"] = _grp_array(rs, n, bool(spec.get("gtaxa")))
    return kw


def _vrnt_kwargs(spec, rs, p):
    opt = spec.get("opt", [])
    lab = spec.get("lab", "ascii")
    kw = {}
    if "vrnt_chrgrp" in opt:
        c = rs.randint(1, 4, size=p).astype("int64")
        kw["vrnt_chrgrp"] = numpy.sort(c) if spec.get("gvrnt") else c
    if "vrnt_phypos" in opt:
        kw["vrnt_phypos"] = numpy.cumsum(rs.randint(1, 10 ** 6, size=p)).astype("int64") + (2 ** 33 if rs.randint(2) else 0)
    if "vrnt_name" in opt:
        kw["vrnt_name"] = _labels(lab, "m", p, rs)
    if "vrnt_genpos" in opt:
        kw["vrnt_genpos"] = numpy.cumsum(rs.uniform(0, 0.3, size=p))
    if "vrnt_xoprob" in opt:
        kw["vrnt_xoprob"] = rs.uniform(0, 0.5, size=p)
    if "vrnt_hapgrp" in opt:
        kw["vrnt_hapgrp"] = rs.randint(0, 5, size=p).astype("int64")
    if "vrnt_hapalt" in opt:
        kw["vrnt_hapalt"] = numpy.array([["A", "C", "G", "T", "AT", "Ø"][int(rs.randint(6 if lab != "ascii" else 5))] for _ in range(p)], dtype=object)
    if "vrnt_hapref" in opt:
        kw["vrnt_hapref"] = numpy.array([["A", "C", "G", "T"][int(rs.randint(4))] for _ in range(p)], dtype=object)
    if "vrnt_mask" in opt:
        kw["vrnt_mask"] = rs.randint(0, 2, size=p).astype(bool)
    return kw


def _trait_kw(spec, rs, t):
    if "trait" in spec.get("opt", []):
        tr = _labels(spec.get("lab", "ascii"), "tr", t, rs)
        if spec.get("shuffle") and t > 1:
            tr = tr[rs.permutation(t)]
        elif spec.get("sorted_labels"):
            tr = numpy.array(sorted(tr), dtype=object)
        return {"trait": tr}
    return {}


def _build_map(spec, rs):
    name = spec["cls"]
    cls = _cls(name)
    nchr = int(spec.get("nchr", 2))
    per = int(spec.get("per", 3))
    chrs = sorted(int(x) for x in rs.choice(numpy.arange(1, 12), size=nchr, replace=False))
    chrgrp, phypos, genpos = [], [], []
    for c in chrs:
        k = per + int(rs.randint(0, 2))
        pos = numpy.cumsum(rs.randint(1, 10 ** 5, size=k))
        gp = numpy.cumsum(rs.uniform(0.001, 0.4, size=k))
        chrgrp += [c] * k
        phypos += [int(x) for x in pos]
        genpos += [float(x) for x in gp]
    chrgrp = numpy.array(chrgrp, dtype="int64")
    phypos = numpy.array(phypos, dtype="int64")
    genpos = numpy.array(genpos, dtype="float64")
    n = len(chrgrp)
    if spec.get("shuffle"):
        ix = rs.permutation(n)
        chrgrp, phypos, genpos = chrgrp[ix], phypos[ix], genpos[ix]
    kw = dict(vrnt_chrgrp=chrgrp, vrnt_phypos=phypos, vrnt_genpos=genpos,
              spline_kind=spec.get("kind", "linear"), spline_fill_value=spec.get("fill", "extrapolate"),
              vrnt_genpos_units="M", auto_group=bool(spec.get("group", True)),
              auto_build_spline=bool(spec.get("spline", True)))
    if name == "ExtendedGeneticMap":
        kw["vrnt_stop"] = phypos + rs.randint(0, 50, size=n).astype("int64")
        if "vrnt_name" in spec.get("opt", []):
            kw["vrnt_name"] = _labels(spec.get("lab", "ascii"), "m", n, rs)
        if "vrnt_fncode" in spec.get("opt", []):
            kw["vrnt_fncode"] = numpy.array([["H", "K", "U", "custöm"][int(rs.randint(4 if spec.get("lab", "ascii") != "ascii" else 3))]
                                             for _ in range(n)], dtype=object)
    return cls(**kw)


def _hyper(spec, rs):
    h = spec.get("hyper", 0)
    if not h and not spec.get("hyper_str"):
        return None
    out = {}
    keys = ["alpha", "nu", "lambda_ü", "iters", "grid"]
    for k in keys[:h]:
        r = int(rs.randint(4))
        if k == "iters":
            out[k] = int(rs.randint(1, 1000))
        elif k == "grid":
            out[k] = rs.standard_normal(3)
        elif r == 0:
            out[k] = rs.standard_normal(1)                    # a one-element vector (a per-trait entry of a single-trait model)
        elif r == 1:
            out[k] = rs.standard_normal((1, 1))               # a 1 x 1 matrix (a covariance of a single-trait model)
        else:
            out[k] = float(rs.standard_normal())
    if spec.get("hyper_str"):
        out["solver"] = "gibbs-α"
    return out


def _build_model(spec, rs):
    name = spec["cls"]
    q, p, t = int(spec.get("q", 1)), int(spec.get("p", 3)), int(spec.get("t", 1))
    kw = dict(beta=_floats(rs, (q, t)),
              u_misc=_floats(rs, (int(spec.get("nmisc", 0)), t)) if "u_misc" in spec.get("opt", []) else None,
              u_a=_floats(rs, (p, t)))
    if name == "DenseAdditiveDominanceLinearGenomicModel":
        kw["u_d"] = _floats(rs, (p, t))
    kw.update(_trait_kw(spec, rs, t))
    if "model_name" in spec.get("opt", []):
        kw["model_name"] = "rrBLUP-µ" if spec.get("lab", "ascii") != "ascii" else "rrBLUP"
    kw["hyperparams"] = _hyper(spec, rs)
    return _cls(name)(**kw)


def build(spec):
    """spec -> freshly constructed object (deterministic)"""
    name = spec["cls"]
    rs = numpy.random.RandomState(int(spec.get("seed", 0)))
    cls = _cls(name)
    n, p, t = int(spec.get("n", 3)), int(spec.get("p", 4)), int(spec.get("t", 2))
    flav = spec.get("flav", "plain")
    if name in MAPS:
        return _build_map(spec, rs)
    if name in MODELS:
        return _build_model(spec, rs)
    if name == "G_E_Phenotyping":
        gspec = dict(spec.get("gpmod") or dict(cls="DenseAdditiveLinearGenomicModel", q=1, p=3, t=t, seed=1, opt=[]))
        gp = build(gspec)
        t = gp.ntrait
        nenv = int(spec.get("nenv", 1))
        kw = dict(gpmod=gp, nenv=nenv)
        kw["nrep"] = rs.randint(1, 5, size=nenv).astype("int64") if spec.get("nrep_arr") else int(rs.randint(1, 4))
        for k in ("var_env", "var_rep", "var_err"):
            if k in spec.get("opt", []):
                kw[k] = rs.uniform(0, 3, size=t) if rs.randint(2) else float(rs.uniform(0, 3))
        if spec.get("own_rng"):
            kw["rng"] = numpy.random.RandomState(5)
        return cls(**kw)
    if name == "DenseMatrix":
        shape = tuple(spec.get("shape", [n, p]))
        dt = spec.get("dt", "float64")
        if dt == "float64":
            mat = _floats(rs, shape, flav)
        elif dt == "bool":
            mat = rs.randint(0, 2, size=shape).astype(bool)
        else:
            info = numpy.iinfo(dt)
            mat = rs.randint(max(info.min, -2 ** 62), min(info.max, 2 ** 62), size=shape, dtype="int64").astype(dt)
            if mat.size:
                mat.reshape(-1)[0] = info.max
                mat.reshape(-1)[-1] = info.min
        return cls(mat=mat)
    if name == "DenseTaxaMatrix":
        obj = cls(mat=_floats(rs, (n, p), flav), **_taxa_kwargs(spec, rs, n))
    elif name == "DenseVariantMatrix":
        obj = cls(mat=_floats(rs, (p, n), flav), **_vrnt_kwargs(spec, rs, p))
    elif name == "DenseGenotypeMatrix":
        pl = int(spec.get("ploidy", 2))
        obj = cls(mat=rs.randint(0, pl + 1, size=(n, p)).astype("int8"), ploidy=pl,
                  **_taxa_kwargs(spec, rs, n), **_vrnt_kwargs(spec, rs, p))
    elif name == "DensePhasedGenotypeMatrix":
        pl = int(spec.get("ploidy", 2))
        mat = rs.randint(0, 2, size=(pl, n, p)).astype("int8")
        if spec.get("wide") and mat.size:
            mat.reshape(-1)[0] = 127
            mat.reshape(-1)[-1] = -128
        obj = cls(mat=mat, **_taxa_kwargs(spec, rs, n), **_vrnt_kwargs(spec, rs, p))
    elif name == "DenseBreedingValueMatrix":
        kw = {}
        if spec.get("loc", "arr") == "arr":
            kw["location"] = _floats(rs, (t,), "x")
            kw["scale"] = numpy.abs(_floats(rs, (t,), "x")) + 0.25
        elif spec.get("loc") == "scalar":
            kw["location"] = float(rs.standard_normal())
            kw["scale"] = float(rs.uniform(0.5, 2))
        obj = cls(mat=_floats(rs, (n, t), flav), **kw, **_taxa_kwargs(spec, rs, n), **_trait_kw(spec, rs, t))
    elif name == "DenseMolecularCoancestryMatrix":
        a = _floats(rs, (n, n), flav)
        a = a + a.T
        if n > 1 and rs.randint(2):
            a[0, n - 1] += 0.5          # not symmetric: a transposed read-back must be noticed
        obj = cls(mat=a, **_taxa_kwargs(spec, rs, n))
    elif name in ("DenseSquareTaxaTraitMatrix", "DenseTwoWayDHAdditiveGeneticVarianceMatrix"):
        m3 = _floats(rs, (n, n, t), flav)
        lay = spec.get("layout")
        if lay == "F":
            m3 = numpy.asfortranarray(m3)                       # same values, column-major memory order
        elif lay == "moved":
            m3 = numpy.moveaxis(numpy.ascontiguousarray(numpy.moveaxis(m3, 2, 0)), 0, 2)   # a view of a per-trait stack (t,n,n)
        obj = cls(mat=m3, **_taxa_kwargs(spec, rs, n), **_trait_kw(spec, rs, t))
    else:
        raise KeyError(name)
    if spec.get("gtaxa") and "taxa_grp" in spec.get("opt", []) and "taxa_grp" in FIELDS[name]:
        _set_taxa_group(obj)
    if spec.get("gvrnt") and "vrnt_chrgrp" in spec.get("opt", []) and "vrnt_chrgrp_name" in FIELDS[name]:
        _set_vrnt_group(obj)
    return obj


# --------------------------------------------------------------------------
# observation and comparison (the oracle's notion of "observably equal")
# --------------------------------------------------------------------------
def _probe_points(obj):
    c = numpy.asarray(obj.vrnt_chrgrp)
    ph = numpy.asarray(obj.vrnt_phypos)
    uc = sorted(set(int(x) for x in c))
    pc, pp = [], []
    for ch in uc:
        xs = sorted(int(x) for x in ph[c == ch])
        for x in (xs[0], xs[-1], (xs[0] + xs[-1]) // 2, xs[0] - 5, xs[-1] + 11):
            pc.append(ch)
            pp.append(x)
    pc.append(max(uc) + 100)      # absent chromosome -> NaN by the documented behaviour
    pp.append(1)
    return numpy.array(pc, dtype="int64"), numpy.array(pp, dtype="int64")


def observe(obj, name):
    out = {}
    for f in FIELDS[name]:
        out[f] = getattr(obj, f)
    if name in MAPS:
        out["@has_spline"] = bool(obj.has_spline())
        out["@spline_keys"] = None if obj.spline is None else numpy.array(sorted(int(k) for k in obj.spline.keys()), dtype="int64")
        if obj.has_spline():
            # evaluate the public spline models directly: interp_genpos() sorts/groups the map as a side effect
            pc, pp = _probe_points(obj)
            vals = numpy.empty(len(pc), dtype="float64")
            with warnings.catch_warnings():
                warnings.simplefilter("ignore")
                for i in range(len(pc)):
                    model = obj.spline.get(int(pc[i]))
                    vals[i] = numpy.nan if model is None else float(model(int(pp[i])))
            out["@interp"] = vals
        else:
            out["@interp"] = None
    return out


def _is_strarr(a):
    return isinstance(a, numpy.ndarray) and a.dtype.kind in "OUS"


def _veq(x, y, tol=0.0):
    """None == None; arrays: same shape, same dtype, same values (NaN == NaN); label arrays: python str, equal;
    dict: same keys, equal values; returns '' or a reason"""
    if x is None or y is None:
        if x is None and y is None:
            return ""
        return "expected None, got a value" if x is None else "expected a value, got None"
    if isinstance(x, dict) or isinstance(y, dict):
        if not (isinstance(x, dict) and isinstance(y, dict)):
            return "dict vs %s" % type(y).__name__
        if set(x.keys()) != set(y.keys()):
            extra = sorted(set(y.keys()) - set(x.keys()))
            miss = sorted(set(x.keys()) - set(y.keys()))
            return "keys differ: extra=%r missing=%r" % (extra, miss)
        for k in x:
            r = _veq(numpy.asarray(x[k]) if not isinstance(x[k], (str, bytes)) else x[k],
                     numpy.asarray(y[k]) if not isinstance(y[k], (str, bytes)) else y[k], tol)
            if r:
                return "key %r: %s" % (k, r)
        return ""
    if isinstance(x, (str, bytes)) or isinstance(y, (str, bytes)):
        if type(x) is not type(y) and not (isinstance(x, str) and isinstance(y, str)):
            return "%s %r vs %s %r" % (type(x).__name__, x, type(y).__name__, y)
        return "" if x == y else "%r != %r" % (x, y)
    if isinstance(x, tuple) and isinstance(y, tuple):
        if len(x) != len(y):
            return "tuple length"
        for a, b in zip(x, y):
            r = _veq(a, b, tol)
            if r:
                return r
        return ""
    xa, ya = numpy.asarray(x), numpy.asarray(y)
    if isinstance(x, numpy.ndarray) != isinstance(y, numpy.ndarray):
        return "array vs scalar (%s vs %s)" % (type(x).__name__, type(y).__name__)
    if xa.shape != ya.shape:
        return "shape %r vs %r" % (xa.shape, ya.shape)
    if xa.dtype.kind in "OUS" or ya.dtype.kind in "OUS":
        if not (xa.dtype.kind in "OUS" and ya.dtype.kind in "OUS"):
            return "dtype %s vs %s" % (xa.dtype, ya.dtype)
        if xa.dtype.kind != ya.dtype.kind:
            return "dtype %s vs %s" % (xa.dtype, ya.dtype)
        fx, fy = xa.reshape(-1), ya.reshape(-1)
        for i in range(fx.size):
            a, b = fx[i], fy[i]
            if not isinstance(b, str) or not isinstance(a, str):
                if not (type(a) is type(b) and a == b):
                    return "element %d: %r (%s) vs %r (%s)" % (i, a, type(a).__name__, b, type(b).__name__)
            elif a != b:
                return "element %d: %r vs %r" % (i, a, b)
        return ""
    if xa.dtype != ya.dtype:
        return "dtype %s vs %s" % (xa.dtype, ya.dtype)
    if xa.dtype.kind == "f":
        if tol:
            nx, ny = numpy.isnan(xa), numpy.isnan(ya)
            if not numpy.array_equal(nx, ny):
                return "NaN pattern differs"
            d = numpy.abs(numpy.where(nx, 0.0, xa) - numpy.where(ny, 0.0, ya))
            lim = tol * numpy.maximum(1.0, numpy.abs(numpy.where(nx, 0.0, xa)))
            if bool(numpy.any(d > lim)):
                return "values differ beyond rounding (max abs diff %.3g)" % float(d.max())
            return ""
        if not numpy.array_equal(xa, ya, equal_nan=True):
            return "values differ"
        return ""
    if not numpy.array_equal(xa, ya):
        return "values differ: %r vs %r" % (xa.reshape(-1)[:6].tolist(), ya.reshape(-1)[:6].tolist())
    return ""


def diff_obs(exp, got, tol_fields=(), tol=1e-12, skip=()):
    """list of (field, reason) where the two observations differ"""
    out = []
    for f in exp:
        if f in skip:
            continue
        r = _veq(exp[f], got.get(f), tol if f in tol_fields else 0.0)
        if r:
            out.append((f, r))
    return out


def _fmt(diffs):
    return "; ".join("%s: %s" % d for d in diffs[:6])


@contextlib.contextmanager
def _quiet():
    """the library prints debugging output in places; keep the run log clean"""
    buf = io.StringIO()
    with contextlib.redirect_stdout(buf), warnings.catch_warnings():
        warnings.simplefilter("ignore")
        yield


# --------------------------------------------------------------------------
# HDF5 route
# --------------------------------------------------------------------------
def _gpmod_of(obj, name):
    return {"gpmod": obj.gpmod} if name == "G_E_Phenotyping" else {}


def _h5_write(obj, fn, group, mode, handle=None):
    import h5py
    if mode == "open":
        obj.to_hdf5(handle, group)
        if not handle.id.valid:
            raise AssertionError("to_hdf5 closed a caller-owned h5py.File")
    elif mode == "pathlib":
        obj.to_hdf5(pathlib.Path(fn), group)
    else:
        obj.to_hdf5(fn, group)


def _h5_read(name, fn, group, mode, handle=None, extra=None):
    cls = _cls(name)
    extra = extra or {}
    if mode == "open":
        out = cls.from_hdf5(handle, group, **extra)
        if not handle.id.valid:
            raise AssertionError("from_hdf5 closed a caller-owned h5py.File")
        return out
    if mode == "pathlib":
        return cls.from_hdf5(pathlib.Path(fn), group, **extra)
    return cls.from_hdf5(fn, group, **extra)


def _toggle_slash(g):
    if g is None:
        return None
    return g[:-1] if g.endswith("/") else g + "/"


STALE = "hdf5-overwrite-stale-field"                  # a dataset of a field that is None in the later object survives
STALE_HYPER = "hdf5-overwrite-stale-hyperparam"       # a key of an earlier hyper-parameter dict survives


def _classify_h5(diffs, default):
    """a read-back that differs ONLY by values surviving from an earlier write (optional field expected absent,
    hyper-parameter key expected absent) is the known stale-dataset class; anything else is `default`"""
    if not diffs:
        return default
    kinds = set()
    for f, r in diffs:
        if f == "hyperparams" and r.startswith("keys differ: extra=") and r.endswith("missing=[]"):
            kinds.add(STALE_HYPER)
        elif r.startswith("expected None, got a value"):
            kinds.add(STALE)
        else:
            return default
    return STALE_HYPER if kinds == {STALE_HYPER} else STALE


def _spec_rich(spec):
    r = set(spec.get("opt", []))
    if spec.get("hyper"):
        r |= {"hyper%d" % i for i in range(int(spec["hyper"]))}
    if spec.get("hyper_str"):
        r.add("hyper_str")
    if spec.get("gtaxa") and "taxa_grp" in r:
        r.add("gtaxa")
    if spec.get("gvrnt") and "vrnt_chrgrp" in r:
        r.add("gvrnt")
    return r


def _shrinks(writes, canon):
    """does the last write to `canon` lack an optional item that an earlier write to the same location had"""
    mine = [w for w in writes if ("" if w.get("group") is None else w["group"].strip("/")) == canon]
    if len(mine) < 2:
        return False
    lastr = _spec_rich(mine[-1]["spec"])
    for w in mine[:-1]:
        if _spec_rich(w["spec"]) - lastr:
            return True
    return False


def run_h5(case):
    """write a sequence of objects (case['writes']: list of dict(spec, group, mode)) into ONE file, reading back after
    every write; the read-back of each location must equal the last object written there; all other locations
    written so far must still read back as their last written object"""
    import h5py
    name = case["cls"]
    with tempfile.TemporaryDirectory() as d, _quiet():
        fn = os.path.join(d, case.get("fname", "store.h5"))
        last = {}       # canonical location -> (observation, extra, group string used)
        handle = None
        try:
            for step, w in enumerate(case["writes"]):
                obj = build(w["spec"])
                exp = observe(obj, name)
                snap = copy.deepcopy(exp) if name not in MAPS else exp
                g = w.get("group")
                mode = w.get("mode", "path")
                if mode == "open" and handle is None:
                    handle = h5py.File(fn, "a")
                if mode != "open" and handle is not None:
                    handle.close()
                    handle = None
                _h5_write(obj, fn, g, mode, handle)
                # writing must not alter the object written
                dd = diff_obs(snap, observe(obj, name))
                if dd:
                    return True, "h5:%s" % name, "step %d: to_hdf5 modified the source object: %s" % (step, _fmt(dd))
                canon = "" if g is None else g.strip("/")
                last[canon] = (exp, _gpmod_of(obj, name), g)
                for loc, (e, extra, gg) in last.items():
                    rg = gg
                    if w.get("toggle") and loc == canon:
                        rg = _toggle_slash(gg)
                    rmode = w.get("rmode", mode)
                    if rmode == "open" and handle is None:
                        handle = h5py.File(fn, "a")
                    if rmode != "open" and handle is not None:
                        handle.close()
                        handle = None
                    try:
                        back = _h5_read(name, fn, rg, rmode, handle, extra)
                    except Exception as ex:
                        if loc == canon and _shrinks(case["writes"][:step + 1], canon):
                            return True, STALE, ("step %d, location %r: from_hdf5 raised %s: %s (datasets of an earlier, "
                                                 "richer object written to this location are still in the file)"
                                                 % (step, gg, type(ex).__name__, ex))
                        raise
                    if type(back) is not _cls(name):
                        return True, "h5:%s" % name, "step %d: from_hdf5 returned %s" % (step, type(back).__name__)
                    dd = diff_obs(e, observe(back, name))
                    if dd:
                        # the stale-dataset class needs a richer earlier write to this very location in the input
                        cls_ = _classify_h5(dd, "h5:%s" % name) if _shrinks(case["writes"][:step + 1], loc) else "h5:%s" % name
                        return True, cls_, "step %d, location %r read as %r: %s" % (step, gg, rg, _fmt(dd))
        finally:
            if handle is not None:
                handle.close()
    return False, "", "ok"


# --------------------------------------------------------------------------
# data-frame / CSV route
# --------------------------------------------------------------------------
BV_LOCSCALE = "bvmat-from-pandas-ignores-location-scale"
DF_ABSENT = "dataframe-absent-labels-synthesised"
DF_REORDER = "dataframe-long-format-reorders-labels"
EGMAP_NAMES = "egmap-roundtrip-drops-name-fncode"
CSV_TOL = 1e-12


def _labelled_content(obs):
    """(taxon_i, taxon_j, trait_k) -> value and taxon -> group, for the long data-frame layouts"""
    mat, taxa, trait, grp = obs["mat"], obs["taxa"], obs["trait"], obs["taxa_grp"]
    if taxa is None or trait is None:
        return None
    cells = {}
    for i in range(mat.shape[0]):
        for j in range(mat.shape[1]):
            for k in range(mat.shape[2]):
                cells[(taxa[i], taxa[j], trait[k])] = float(mat[i, j, k])
    g = None if grp is None else {taxa[i]: int(grp[i]) for i in range(len(taxa))}
    return cells, g


def _same_content(a, b, tol):
    if a is None or b is None:
        return False
    (ca, ga), (cb, gb) = a, b
    if set(ca) != set(cb) or (ga is None) != (gb is None):
        return False
    for k in ca:
        x, y = ca[k], cb[k]
        if numpy.isnan(x) or numpy.isnan(y):
            if not (numpy.isnan(x) and numpy.isnan(y)):
                return False
        elif abs(x - y) > tol * max(1.0, abs(x)):
            return False
    return ga is None or ga == gb


def run_df(case):
    """object -> data frame (or CSV file) -> object with matching options; returns (bad, cls, msg)"""
    import pandas
    name = case["cls"]
    spec = case["spec"]
    via = case.get("via", "pandas")         # pandas | csv | egmap
    opt = spec.get("opt", [])
    cls = _cls(name)
    default = "df:%s:%s" % (via, name)
    with tempfile.TemporaryDirectory() as d, _quiet():
        fn = os.path.join(d, case.get("fname", "tab.csv"))
        obj = build(spec)
        exp = observe(obj, name)
        snap = exp if name in MAPS else copy.deepcopy(exp)
        tolf, tol, skip = set(), CSV_TOL, set()
        custom = bool(case.get("custom"))
        sep = case.get("sep", ",")
        if via != "pandas":
            tolf |= {"mat", "location", "scale", "beta", "u_misc", "u_a", "u_d", "vrnt_genpos", "@interp"}
        # ---------------------------------------------------------- per class
        if name == "DenseBreedingValueMatrix":
            tc = ("Täxon" if custom else "taxa") if "taxa" in opt else None
            gc = ("Grüppe" if custom else "taxa_grp") if ("taxa_grp" in opt or case.get("default_cols")) else None
            # (default_cols: the groups are absent but both sides use the default column name, so the column is written empty)
            unscale = bool(case.get("unscale"))
            wkw = dict(taxa_col=tc, taxa_grp_col=gc, unscale=unscale,
                       trait_cols=[str(x) for x in obj.trait] if (case.get("trait_seq") and obj.trait is not None) else "all")
            rtc = tc
            if case.get("by_index") and tc is not None:
                rtc = 0
            rkw = dict(taxa_col=rtc, taxa_grp_col=gc,
                       trait_cols=[str(x) for x in obj.trait] if (case.get("trait_seq") and obj.trait is not None) else "infer")
            if not unscale:
                rkw.update(location=obj.location, scale=obj.scale)
            if via == "pandas":
                back = cls.from_pandas(obj.to_pandas(**wkw), **rkw)
            else:
                obj.to_csv(fn, sep=sep, **wkw)
                back = cls.from_csv(fn, sep=sep, **rkw)
            got = observe(back, name)
            if unscale:
                # the frame carries raw values; location/scale are re-derived by the reader: compare the raw values
                skip |= {"mat", "location", "scale"}
                a, b = obj.unscale(), back.unscale()
                if a.shape != b.shape:
                    return True, default, "unscaled values: shape %r vs %r" % (a.shape, b.shape)
                lim = 1e-9 * (1.0 + (numpy.max(numpy.abs(a)) if a.size else 0.0))
                if a.size and float(numpy.max(numpy.abs(a - b))) > lim:
                    return True, default, "unscaled breeding values differ after the round trip (max abs diff %.3g)" % float(numpy.max(numpy.abs(a - b)))
        elif name == "DenseMolecularCoancestryMatrix":
            tc = "Täxon" if custom else "taxa"
            gc = ("Grüppe" if custom else "taxa_grp") if ("taxa_grp" in opt or case.get("default_cols")) else None
            # (default_cols: the groups are absent but both sides use the default column name, so the column is written empty)
            if via == "pandas":
                back = cls.from_pandas(obj.to_pandas(taxa_col=tc, taxa_grp_col=gc), taxa_col=tc, taxa_grp_col=gc)
            else:
                obj.to_csv(fn, taxa_col=tc, taxa_grp_col=gc, sep=sep)
                back = cls.from_csv(fn, sep=sep, taxa_col=tc, taxa_grp_col=gc)
            got = observe(back, name)
        elif name == "DenseSquareTaxaTraitMatrix":
            tcs = ["♀", "♂"] if custom else True
            gcs = (["♀grp", "♂grp"] if custom else True) if "taxa_grp" in opt else None
            trc = "Merkmal" if custom else True
            vc = "wert" if custom else "value"
            kw = dict(taxa_colnames=tcs, taxa_grp_colnames=gcs, trait_colnames=trc, value_colname=vc)
            if via == "pandas":
                back = cls.from_pandas(obj.to_pandas(**kw), ntaxaaxes=2, **kw)
            else:
                obj.to_csv(fn, sep=sep, **kw)
                back = cls.from_csv(fn, sep=sep, ntaxaaxes=2, **kw)
            got = observe(back, name)
        elif name == "DenseTwoWayDHAdditiveGeneticVarianceMatrix":
            kw = dict(female_col="♀" if custom else "female", male_col="♂" if custom else "male",
                      female_grp_col=("♀grp" if custom else "female_grp") if "taxa_grp" in opt else None,
                      male_grp_col=("♂grp" if custom else "male_grp") if "taxa_grp" in opt else None,
                      trait_col="Merkmal" if custom else "trait", variance_col="σ²" if custom else "variance")
            if via == "pandas":
                back = cls.from_pandas(obj.to_pandas(**kw), **kw)
            else:
                obj.to_csv(fn, sep=sep, **kw)
                back = cls.from_csv(fn, sep=sep, **kw)
            got = observe(back, name)
        elif name in MAPS:
            units = case.get("units", "cM")
            if units in ("cM", "centiMorgans"):
                tolf |= {"vrnt_genpos", "@interp"}       # 100*x*0.01 is the documented unit conversion: to rounding
            kw = dict(vrnt_chrgrp_col="Chr" if custom else "chr", vrnt_phypos_col="Pos" if custom else "pos",
                      vrnt_genpos_col="gen.pos" if custom else "cM")
            if name == "ExtendedGeneticMap":
                kw.update(vrnt_stop_col="Stop" if custom else "stop", vrnt_name_col="Näme" if custom else "name",
                          vrnt_fncode_col="fn" if custom else "fncode")
            rkw = dict(kw)
            if name == "ExtendedGeneticMap":
                if obj.vrnt_name is None:
                    rkw["vrnt_name_col"] = None
                if obj.vrnt_fncode is None:
                    rkw["vrnt_fncode_col"] = None
            ctor = dict(spline_kind=obj.spline_kind, spline_fill_value=obj.spline_fill_value,
                        auto_group=bool(obj.is_grouped()), auto_build_spline=bool(obj.has_spline()))
            if via == "pandas":
                back = cls.from_pandas(obj.to_pandas(vrnt_genpos_units=units, **kw), vrnt_genpos_units=units, **rkw, **ctor)
            elif via == "csv":
                obj.to_csv(fn, vrnt_genpos_units=units, sep=sep, **kw)
                back = cls.from_csv(fn, vrnt_genpos_units=units, sep=sep, **rkw, **ctor)
            else:
                obj.to_egmap(fn)
                back = cls.from_egmap(fn, **ctor)
            got = observe(back, name)
        elif name in MODELS:
            keys = ["beta", "u_misc", "u_a"] + (["u_d"] if name == "DenseAdditiveDominanceLinearGenomicModel" else [])
            hp = copy.deepcopy(obj.hyperparams)
            if via == "pandas":
                back = cls.from_pandas_dict(obj.to_pandas_dict(trait_cols="trait"), trait_cols="infer",
                                            model_name=obj.model_name, hyperparams=hp)
            else:
                fns = {k: os.path.join(d, "%s-é.csv" % k) for k in keys}
                obj.to_csv_dict(fns, trait_cols="trait", sep=sep)
                back = cls.from_csv_dict(fns, sep=sep, trait_cols="infer", model_name=obj.model_name, hyperparams=hp)
            got = observe(back, name)
        else:
            raise KeyError(name)
        if type(back) is not cls:
            return True, default, "reader returned %s" % type(back).__name__
        dd = diff_obs(snap, observe(obj, name))
        if dd:
            return True, default, "export modified the source object: %s" % _fmt(dd)
        dd = diff_obs(exp, got, tol_fields=tolf, tol=tol, skip=skip)
        if not dd:
            return False, "", "ok"
        fields = {f for f, _ in dd}
        msg = _fmt(dd)
        # ---- classification of the known classes (everything else is `default`)
        if name == "DenseBreedingValueMatrix" and not case.get("unscale") and fields <= {"mat", "location", "scale"}:
            return True, BV_LOCSCALE, msg
        if all(r.startswith("expected None, got a value") for _, r in dd) and fields <= {"taxa", "trait"} \
                and not (fields & set(opt)):
            return True, DF_ABSENT, msg
        if name in ("DenseSquareTaxaTraitMatrix", "DenseTwoWayDHAdditiveGeneticVarianceMatrix") and spec.get("shuffle") \
                and fields <= {"mat", "taxa", "trait", "taxa_grp"} \
                and _same_content(_labelled_content(exp), _labelled_content(got), tol if via != "pandas" else 0.0):
            return True, DF_REORDER, msg
        if via == "egmap" and fields <= {"vrnt_name", "vrnt_fncode"} and all(r.startswith("expected a value, got None") for _, r in dd):
            return True, EGMAP_NAMES, msg
        return True, default, msg


# --------------------------------------------------------------------------
# copy / deepcopy route
# --------------------------------------------------------------------------
GE_RNG = "ge-phenotyping-deepcopy-shares-rng"


def _walk_state(obj, path="", depth=0, seen=None, out=None):
    """all numpy arrays and mutable containers reachable from an object's instance state"""
    if out is None:
        out, seen = [], set()
    if id(obj) in seen or depth > 6:
        return out
    seen.add(id(obj))
    if isinstance(obj, numpy.ndarray):
        out.append((path, "array", obj))
        return out
    if isinstance(obj, (numpy.random.RandomState, numpy.random.Generator)):
        out.append((path, "rng", obj))
        return out
    if isinstance(obj, dict):
        out.append((path, "container", obj))
        for k, v in obj.items():
            _walk_state(v, "%s[%r]" % (path, k), depth + 1, seen, out)
        return out
    if isinstance(obj, (list, set)):
        out.append((path, "container", obj))
        for i, v in enumerate(obj):
            _walk_state(v, "%s[%d]" % (path, i), depth + 1, seen, out)
        return out
    if isinstance(obj, tuple):
        for i, v in enumerate(obj):
            _walk_state(v, "%s[%d]" % (path, i), depth + 1, seen, out)
        return out
    if isinstance(obj, (str, bytes, int, float, bool, type(None), numpy.generic, type)):
        return out
    if isinstance(obj, (types.FunctionType, types.MethodType, types.BuiltinFunctionType, types.ModuleType)):
        return out      # code is not state
    d = getattr(obj, "__dict__", None)
    if isinstance(d, dict):
        if depth > 0:
            out.append((path, "object", obj))
        for k, v in d.items():
            _walk_state(v, "%s.%s" % (path, k), depth + 1, seen, out)
    return out


def _mutate_everything(cp, name):
    """in-place mutation of every array / container reachable from the copy, then a few public mutators"""
    for path, kind, v in _walk_state(cp):
        try:
            if kind == "array" and v.size and v.flags.writeable:
                if v.dtype.kind == "b":
                    numpy.logical_not(v, out=v)
                elif v.dtype.kind in "iu":
                    v += 1
                elif v.dtype.kind == "f":
                    v *= -3.0
                    v += 1.5
                elif v.dtype.kind == "O":
                    v[...] = "CHANGED"
            elif kind == "container" and isinstance(v, dict):
                v["__added__"] = 1.0
        except Exception:
            pass
    for meth, args in (("ungroup_taxa", ()), ("ungroup_vrnt", ()), ("ungroup", ()), ("sort_taxa", ()), ("sort_vrnt", ()),
                       ("sort", ()), ("build_spline", ()), ("remove", ([0],)), ("remove_taxa", ([0],)),
                       ("remove_vrnt", ([0],))):
        f = getattr(cp, meth, None)
        if f is not None:
            try:
                f(*args)
            except Exception:
                pass   # whether the mutator itself works is another property's business


def _reassign_everything(cp, name):
    for f in FIELDS[name]:
        v = getattr(cp, f, None)
        try:
            if isinstance(v, numpy.ndarray):
                nv = v.copy()
                if nv.size:
                    if nv.dtype.kind == "O":
                        nv[...] = "NEW"
                    elif nv.dtype.kind == "b":
                        nv = ~nv
                    else:
                        nv = (nv + 1).astype(v.dtype)
                setattr(cp, f, nv)
            elif isinstance(v, dict):
                setattr(cp, f, {"other": 2.0})
            elif isinstance(v, str) and f == "model_name":
                setattr(cp, f, v + "-renamed")
        except Exception:
            pass


def run_copy(case):
    name = case["cls"]
    how = case.get("how", "deepcopy")
    with _quiet():
        obj = build(case["spec"])
        if name in MAPS and case["spec"].get("stale") and obj.has_spline() and len(obj.vrnt_chrgrp) >= 3:
            # a source whose interpolation models are NOT the ones that would be built from its current markers: a marker is
            # removed after the models were built (remove/select keep them); a copy must carry the models the source has
            try:
                obj.remove([len(obj.vrnt_chrgrp) // 2])
            except Exception:
                pass
        exp = observe(obj, name)
        snap = copy.deepcopy({k: v for k, v in exp.items()})
        if how == "copy":
            cp = obj.copy()
        elif how == "copy.copy":
            cp = copy.copy(obj)
        elif how == "deepcopy":
            cp = obj.deepcopy()
        elif how == "copy.deepcopy":
            cp = copy.deepcopy(obj)
        elif how == "deepcopy-memo":
            cp = obj.deepcopy({})
        else:
            raise KeyError(how)
        deep = "deep" in how
        default = "copy:%s:%s" % ("deep" if deep else "shallow", name)
        if cp is obj:
            return True, default, "%s returned the object itself" % how
        if type(cp) is not type(obj):
            return True, default, "%s returned a %s" % (how, type(cp).__name__)
        dd = diff_obs(exp, observe(cp, name))
        if dd:
            return True, default, "%s is not equal to its source: %s" % (how, _fmt(dd))
        if name == "G_E_Phenotyping":
            dd = diff_obs(observe(obj.gpmod, type(obj.gpmod).__name__), observe(cp.gpmod, type(cp.gpmod).__name__))
            if dd:
                return True, default, "%s: bound genomic model differs: %s" % (how, _fmt(dd))
        dd = diff_obs(snap, observe(obj, name))
        if dd:
            return True, default, "%s modified its source: %s" % (how, _fmt(dd))
        rng_shared = False
        if deep:
            mine = _walk_state(obj)
            theirs = _walk_state(cp)
            for pa, ka, a in mine:
                for pb, kb, b in theirs:
                    if ka == "array" and kb == "array":
                        if a.size and b.size and numpy.shares_memory(a, b):
                            return True, default, "deep copy shares a numpy buffer with its source: source%s / copy%s" % (pa, pb)
                    elif ka == kb and ka in ("container", "object") and a is b:
                        return True, default, "deep copy shares a mutable %s with its source: %s" % (type(a).__name__, pa)
                    elif ka == kb == "rng" and a is b and case["spec"].get("own_rng"):
                        rng_shared = True
            _mutate_everything(cp, name)
        _reassign_everything(cp, name)
        dd = diff_obs(snap, observe(obj, name))
        if dd:
            return True, default, "mutating the %s changed the source: %s" % ("deep copy" if deep else "copy's attributes", _fmt(dd))
        # history: a copy taken after an earlier copy was made and mutated is again a fresh object equal to the source
        # (the result of a copy operation is a function of the source alone, not of earlier calls)
        mk = {"copy": lambda: obj.copy(), "copy.copy": lambda: copy.copy(obj), "deepcopy": lambda: obj.deepcopy(),
              "copy.deepcopy": lambda: copy.deepcopy(obj), "deepcopy-memo": lambda: obj.deepcopy({})}[how]
        cp2 = mk()
        if cp2 is cp or cp2 is obj:
            return True, default, "a second %s of the same source returned %s" % (how, "the earlier copy" if cp2 is cp else "the source itself")
        dd = diff_obs(snap, observe(cp2, name))
        if dd:
            return True, default, "a %s taken after an earlier copy was mutated is not equal to its source: %s" % (how, _fmt(dd))
        if name == "G_E_Phenotyping" and deep:
            g0 = build(case["spec"]).gpmod
            dd = diff_obs(observe(g0, type(g0).__name__), observe(obj.gpmod, type(g0).__name__))
            if dd:
                return True, default, "mutating the deep copy changed the source's genomic model: %s" % _fmt(dd)
        if rng_shared:
            return True, GE_RNG, "deep copy shares the caller-supplied random number generator object (mutable state) with its source"
    return False, "", "ok"


# --------------------------------------------------------------------------
# VCF import route
# --------------------------------------------------------------------------
def make_vcf(case):
    """deterministic tiny VCF text with phased diploid calls + the records it encodes"""
    rs = numpy.random.RandomState(int(case["seed"]))
    ns, nv = int(case["nsamp"]), int(case["nvar"])
    samples = [str(x) for x in _labels(case.get("lab", "ascii"), "S", ns, rs)]
    samples = [s.replace(" ", "_").replace("\t", "_") for s in samples]
    chroms = [int(x) for x in rs.randint(1, int(case.get("nchr", 3)) + 1, size=nv)]
    pos = [int(x) for x in rs.randint(1, 5000, size=nv)]
    if case.get("bigpos"):
        pos = [x + 2 ** 30 for x in pos]
    if case.get("dups") and nv > 1:
        pos[1], chroms[1] = pos[0], chroms[0]
    order = list(range(nv))
    if case.get("sorted", True):
        order.sort(key=lambda i: (chroms[i], pos[i], i))
    recs = []
    for rank, i in enumerate(order):
        nalt = 2 if (case.get("multi") and rs.randint(2)) else 1
        ref = "ACGT"[int(rs.randint(4))]
        alts = ["ACGT".replace(ref, "")[int(k)] for k in rs.choice(3, size=nalt, replace=False)]
        calls = [(int(rs.randint(0, nalt + 1)), int(rs.randint(0, nalt + 1))) for _ in range(ns)]
        vid = "%s%d_%d" % (["snp", "rs", "AX-", "m.ü"][int(rs.randint(4 if case.get("lab", "ascii") != "ascii" else 3))], chroms[i], rank)
        recs.append(dict(chrom=chroms[i], pos=pos[i], id=vid, ref=ref, alt=",".join(alts), calls=calls))
    lines = ["##fileformat=VCFv4.2"]
    for c in sorted(set(chroms)):
        lines.append("##contig=<ID=%d,length=2147483647>" % c)
    lines.append('##FORMAT=<ID=GT,Number=1,Type=String,Description="Genotype">')
    lines.append("\t".join(["#CHROM", "POS", "ID", "REF", "ALT", "QUAL", "FILTER", "INFO", "FORMAT"] + samples))
    for r in recs:
        lines.append("\t".join([str(r["chrom"]), str(r["pos"]), r["id"], r["ref"], r["alt"], ".", "PASS", ".", "GT"] +
                               ["%d|%d" % c for c in r["calls"]]))
    return "\n".join(lines) + "\n", samples, recs


def run_vcf(case):
    name = case["cls"]
    cls = _cls(name)
    text, samples, recs = make_vcf(case)
    auto = bool(case.get("auto_group", True))
    with tempfile.TemporaryDirectory() as d, _quiet():
        fn = os.path.join(d, case.get("fname", "calls.vcf"))
        with open(fn, "w", encoding="utf-8") as f:
            f.write(text)
        g = cls.from_vcf(fn, auto_group_vrnt=auto)
    default = "vcf:%s" % name
    if type(g) is not cls:
        return True, default, "from_vcf returned %s" % type(g).__name__
    ns, nv = len(samples), len(recs)
    phased = name == "DensePhasedGenotypeMatrix"
    want_shape = (2, ns, nv) if phased else (ns, nv)
    if tuple(g.mat.shape) != want_shape:
        return True, default, "mat shape %r, expected %r" % (tuple(g.mat.shape), want_shape)
    if g.mat.dtype != numpy.dtype("int8"):
        return True, default, "mat dtype %s" % g.mat.dtype
    if g.ploidy != 2:
        return True, default, "ploidy %r for diploid calls" % (g.ploidy,)
    r = _veq(numpy.array(samples, dtype=object), g.taxa)
    if r:
        return True, default, "sample names: %s" % r
    for f in ("vrnt_chrgrp", "vrnt_phypos", "vrnt_name"):
        v = getattr(g, f)
        if v is None or len(v) != nv:
            return True, default, "%s missing or of wrong length" % f
    if g.vrnt_chrgrp.dtype.kind != "i" or g.vrnt_phypos.dtype.kind != "i":
        return True, default, "coordinate arrays are not integer arrays"
    # the imported variants, as records
    got = []
    for j in range(nv):
        if phased:
            calls = tuple((int(g.mat[0, s, j]), int(g.mat[1, s, j])) for s in range(ns))
        else:
            calls = tuple(int(g.mat[s, j]) for s in range(ns))
        nm = g.vrnt_name[j]
        if not isinstance(nm, str):
            return True, default, "variant identifier %r is not a str" % (nm,)
        got.append((int(g.vrnt_chrgrp[j]), int(g.vrnt_phypos[j]), nm, calls))
    want = []
    for r_ in recs:
        calls = tuple(r_["calls"]) if phased else tuple(a + b for a, b in r_["calls"])
        want.append((r_["chrom"], r_["pos"], r_["id"], calls))
    if not auto:
        for j in range(nv):
            if got[j] != want[j]:
                return True, default, "variant %d imported as %r, file has %r" % (j, got[j], want[j])
        for f in VGRP_F:
            if getattr(g, f) is not None:
                return True, default, "%s set although grouping was not requested" % f
    else:
        if sorted(got) != sorted(want):
            miss = [w for w in want if w not in got][:2]
            return True, default, "imported variant records differ from the file (as a multiset); e.g. missing %r" % (miss,)
        for j in range(1, nv):
            if (got[j - 1][0], got[j - 1][1]) > (got[j][0], got[j][1]):
                return True, default, "grouped import is not ordered by (chromosome, position) at index %d" % j
        nm, st, sp, ln = _group_meta([x[0] for x in got])
        for f, w in (("vrnt_chrgrp_name", nm), ("vrnt_chrgrp_stix", st), ("vrnt_chrgrp_spix", sp), ("vrnt_chrgrp_len", ln)):
            v = getattr(g, f)
            if v is None or not numpy.array_equal(numpy.asarray(v), w):
                return True, default, "%s is %r, expected %r" % (f, None if v is None else numpy.asarray(v).tolist(), w.tolist())
    for f in ("taxa_grp", "vrnt_genpos", "vrnt_xoprob", "vrnt_hapgrp", "vrnt_mask"):
        if getattr(g, f) is not None:
            return True, default, "%s invented by the import" % f
    return False, "", "ok"


# --------------------------------------------------------------------------
# dispatch, exception classification, replay
# --------------------------------------------------------------------------
H5_EMPTY = "hdf5-empty-label-array-crash"
H5_HYPER_STR = "hdf5-hyperparams-str-read-as-bytes"
VCF_EMPTY = "from-vcf-no-records-crash"
KNOWN_CLS = {STALE, STALE_HYPER, BV_LOCSCALE, DF_ABSENT, DF_REORDER, EGMAP_NAMES, GE_RNG, H5_EMPTY, H5_HYPER_STR, VCF_EMPTY}

_ROUTES = {"h5": run_h5, "df": run_df, "copy": run_copy, "vcf": run_vcf}


def _empty_labels(spec):
    o = spec.get("opt", [])
    n, p, t = int(spec.get("n", 3)), int(spec.get("p", 4)), int(spec.get("t", 2))
    name = spec["cls"]
    if n == 0 and "taxa" in o and "taxa" in FIELDS.get(name, []):
        return True
    if p == 0 and "vrnt_name" in FIELDS.get(name, []) and name not in MAPS and any(k in o for k in ("vrnt_name", "vrnt_hapalt", "vrnt_hapref")):
        return True
    return False


def run_case(case):
    """(violated, cls, message) for one case of any route; crashes of the real code on a valid input are failures"""
    route = case["route"]
    try:
        bad, cls_, msg = _ROUTES[route](case)
    except Exception as e:
        name = case.get("cls", "?")
        cls_ = "%s:%s:exception" % (route, name)
        text = "exception %s: %s" % (type(e).__name__, e)
        if route == "h5" and isinstance(e, TypeError) and "no native HDF5 equivalent" in str(e) \
                and any(_empty_labels(w["spec"]) for w in case["writes"]):
            cls_ = H5_EMPTY
        if route == "vcf" and int(case.get("nvar", 1)) == 0 and isinstance(e, ValueError):
            cls_ = VCF_EMPTY
        return True, cls_, text
    if bad and route == "h5" and cls_.startswith("h5:") and any(w["spec"].get("hyper_str") for w in case["writes"]) \
            and "hyperparams: key 'solver': str" in msg and " vs bytes " in msg \
            and msg.count(";") == 0:
        cls_ = H5_HYPER_STR
    return bad, cls_, msg


def _replay(case):
    bad, cls_, msg = run_case(case)
    return bad, ("[%s] %s" % (cls_, msg)) if bad else msg


def _key(case):
    import json
    return json.dumps(case, sort_keys=True, default=str)


def _drive(ctx, cases, clause):
    seen = {}
    for case in cases:
        bad, cls_, msg = run_case(case)
        sp = case.get("spec") or (case.get("writes") or [{}])[0].get("spec") or {}
        ctx.case(_key(case), nontrivial=True,
                 sample=dict(route=case["route"], cls=case.get("cls"), opt=sp.get("opt"), lab=sp.get("lab"),
                             extra={k: v for k, v in case.items() if k not in ("spec", "writes", "route", "cls")}))
        if bad:
            seen[cls_] = seen.get(cls_, 0) + 1
            if seen[cls_] <= 3:
                ctx.fail_input("ring:%s:%s" % (clause, case.get("cls", "")), case, cls=cls_, message=msg)
            unknown = [c for c in seen if c not in KNOWN_CLS]
            if len(unknown) >= 4 or sum(min(3, v) for k, v in seen.items() if k not in KNOWN_CLS) >= 6:
                break
    ctx.notes.append("failure classes seen: %r" % (seen,))


# --------------------------------------------------------------------------
# generators
# --------------------------------------------------------------------------
_OPT_POOL = {
    "DenseMatrix": [],
    "DenseTaxaMatrix": ["taxa", "taxa_grp"],
    "DenseVariantMatrix": VRNT_OPT,
    "DenseGenotypeMatrix": ["taxa", "taxa_grp"] + VRNT_OPT,
    "DensePhasedGenotypeMatrix": ["taxa", "taxa_grp"] + VRNT_OPT,
    "DenseBreedingValueMatrix": ["taxa", "taxa_grp", "trait"],
    "DenseMolecularCoancestryMatrix": ["taxa", "taxa_grp"],
    "DenseSquareTaxaTraitMatrix": ["taxa", "taxa_grp", "trait"],
    "DenseTwoWayDHAdditiveGeneticVarianceMatrix": ["taxa", "taxa_grp", "trait"],
    "StandardGeneticMap": [],
    "ExtendedGeneticMap": ["vrnt_name", "vrnt_fncode"],
    "DenseAdditiveLinearGenomicModel": ["u_misc", "trait", "model_name"],
    "DenseAdditiveDominanceLinearGenomicModel": ["u_misc", "trait", "model_name"],
    "G_E_Phenotyping": ["var_env", "var_rep", "var_err"],
}
_GROUPS = [None, "g", "g/", "a/b/c", "a/b/c/", "/abs", "/abs/deep/", "grüpe/子", "with space/x y/", "ünï"]


def rand_spec(rnd, name, mode="any", labs=("ascii", "uni", "mixed", "tricky")):
    """mode: any | full | bare"""
    pool = _OPT_POOL[name]
    r = rnd.random()
    if mode == "full" or (mode == "any" and r < 0.3):
        opt = list(pool)
    elif mode == "bare" or (mode == "any" and r < 0.45):
        opt = []
    else:
        opt = [o for o in pool if rnd.random() < 0.5]
    sp = dict(cls=name, seed=rnd.randrange(10 ** 6), n=rnd.choice([1, 2, 3, 5]), p=rnd.choice([1, 2, 4, 6]),
              t=rnd.choice([1, 2, 3]), lab=rnd.choice(list(labs)), opt=opt)
    if "taxa_grp" in opt and rnd.random() < 0.6:
        sp["gtaxa"] = True
    if "vrnt_chrgrp" in opt and rnd.random() < 0.6:
        sp["gvrnt"] = True
    if rnd.random() < 0.25:
        sp["flav"] = "nan"
    if name == "DenseMatrix":
        sp["shape"] = rnd.choice([[4], [1], [2, 3], [3, 2], [1, 1], [2, 1, 3], [2, 2, 2, 2], [0, 3], [5, 0]])
        sp["dt"] = rnd.choice(["float64", "float64", "int8", "int64", "bool", "uint16", "int32"])
    elif name == "DenseGenotypeMatrix":
        sp["ploidy"] = rnd.choice([2, 2, 4, 1])
    elif name == "DensePhasedGenotypeMatrix":
        sp["ploidy"] = rnd.choice([2, 2, 2, 4, 1])
        sp["wide"] = rnd.random() < 0.3
    elif name == "DenseBreedingValueMatrix":
        sp["loc"] = rnd.choice(["arr", "arr", "scalar", "default"])
    elif name in MAPS:
        sp.update(nchr=rnd.choice([1, 2, 3]), per=rnd.choice([2, 3, 4]), group=rnd.random() < 0.7,
                  spline=rnd.random() < 0.7, kind=rnd.choice(["linear", "linear", "nearest", "previous"]),
                  stale=rnd.random() < 0.4)
        if not sp["group"]:
            sp["shuffle"] = rnd.random() < 0.5
    elif name in ("DenseSquareTaxaTraitMatrix", "DenseTwoWayDHAdditiveGeneticVarianceMatrix"):
        sp["layout"] = rnd.choice(["C", "C", "F", "moved"])       # memory order of the values: row-major, column-major, a moved-axis view
    elif name in MODELS:
        sp.update(q=rnd.choice([1, 2]), nmisc=rnd.choice([0, 1, 3]), hyper=rnd.choice([0, 0, 1, 3, 5]))
    elif name == "G_E_Phenotyping":
        sp.update(nenv=rnd.choice([1, 2, 4]), nrep_arr=rnd.random() < 0.5,
                  gpmod=dict(cls=rnd.choice(list(MODELS)), q=1, p=rnd.choice([1, 3]), t=sp["t"], seed=rnd.randrange(1000),
                             opt=rnd.choice([[], ["trait"]]), lab=sp["lab"]))
    return sp


def gen_h5_single(rnd, tier):
    per = 26 if tier == "quick" else 260
    for name in H5_CLASSES:
        # deterministic corners: everything present + grouped + non-ASCII / nothing present, each group path once
        for i, g in enumerate(_GROUPS):
            sp = rand_spec(rnd, name, "full" if i % 2 == 0 else "bare", labs=("uni", "mixed"))
            if i % 2 == 0:
                sp["gtaxa"] = sp["gvrnt"] = True
            yield dict(route="h5", cls=name, fname="störe-%d.h5" % i if i % 3 == 0 else "s.h5",
                       writes=[dict(spec=sp, group=g, mode=["path", "open", "pathlib"][i % 3], toggle=bool(i % 2))])
        for _ in range(per):
            k = rnd.choice([1, 1, 2, 3])
            groups = rnd.sample(_GROUPS + ["a", "a/b", "z/"], k)
            # distinct canonical locations (siblings, parent/child, root + group) in one file
            canon, ws = set(), []
            for g in groups:
                c = "" if g is None else g.strip("/")
                if c in canon:
                    continue
                canon.add(c)
                m = rnd.choice(["path", "open", "pathlib"])
                ws.append(dict(spec=rand_spec(rnd, name), group=g, mode=m, rmode=rnd.choice([m, "path", "open"]),
                               toggle=rnd.random() < 0.4))
            yield dict(route="h5", cls=name, fname=rnd.choice(["s.h5", "dätä ö.h5", "x.hdf5"]), writes=ws)
    # separate branches for the two known crash / type classes
    for name in ("DenseTaxaMatrix", "DenseGenotypeMatrix", "DenseBreedingValueMatrix"):
        sp = rand_spec(rnd, name, "full")
        sp["n"] = 0
        sp.pop("gtaxa", None)
        yield dict(route="h5", cls=name, writes=[dict(spec=sp, group="g", mode="path")])
    for name in ("DenseVariantMatrix", "DensePhasedGenotypeMatrix"):
        sp = rand_spec(rnd, name, "full")
        sp["p"] = 0
        sp.pop("gvrnt", None)
        yield dict(route="h5", cls=name, writes=[dict(spec=sp, group="g", mode="path")])
    for name in MODELS:
        sp = rand_spec(rnd, name, "full")
        sp["hyper_str"] = True
        yield dict(route="h5", cls=name, writes=[dict(spec=sp, group="m", mode="path")])


def _grow(rnd, name, prev):
    """a spec at least as rich as `prev` (no optional item disappears), other content free"""
    sp = rand_spec(rnd, name)
    sp["opt"] = [o for o in _OPT_POOL[name] if o in prev.get("opt", []) or o in sp["opt"]]
    for k in ("gtaxa", "gvrnt"):
        if prev.get(k):
            sp[k] = True
    if sp.get("gtaxa") and "taxa_grp" not in sp["opt"]:
        sp.pop("gtaxa")
    if sp.get("gvrnt") and "vrnt_chrgrp" not in sp["opt"]:
        sp.pop("gvrnt")
    if name in MODELS:
        sp["hyper"] = max(int(prev.get("hyper", 0)), int(sp.get("hyper", 0)))
    return sp


def gen_h5_seq(rnd, tier):
    per = 22 if tier == "quick" else 220
    for name in H5_CLASSES:
        for i in range(per):
            k = rnd.choice([2, 2, 3, 4])
            g = rnd.choice(["g", "a/b", None, "grüpe/子"])
            monotone = i % 2 == 0
            specs = [rand_spec(rnd, name)]
            for _ in range(k - 1):
                specs.append(_grow(rnd, name, specs[-1]) if monotone else rand_spec(rnd, name))
            if name == "DenseMatrix" and i % 3 == 0:
                # same shape, dtype changes (int8 over float64 and back)
                shp = rnd.choice([[2, 3], [4], [2, 2, 2]])
                for j, s in enumerate(specs):
                    s["shape"] = shp
                    s["dt"] = ["float64", "int8", "int64", "bool"][(j + i // 3) % 4]
            ws = []
            for j, s in enumerate(specs):
                gg = g
                if g is not None and rnd.random() < 0.3:
                    gg = _toggle_slash(g)
                m = rnd.choice(["path", "open", "pathlib"])
                ws.append(dict(spec=s, group=gg, mode=m, rmode=rnd.choice([m, "path"])))
            if rnd.random() < 0.3:    # an unrelated neighbour written in between must survive too
                ws.insert(1, dict(spec=rand_spec(rnd, name), group="neighbour", mode="path"))
            yield dict(route="h5", cls=name, fname="seq.h5", writes=ws)
        # the canonical richer -> poorer overwrite, same sizes (silent stale read-back) and shrinking sizes (crash)
        if _OPT_POOL[name] and name != "G_E_Phenotyping":
            for same_size in (True, False):
                a = rand_spec(rnd, name, "full")
                a["gtaxa"] = a["gvrnt"] = True
                if name in MODELS:
                    a["hyper"] = 3
                b = rand_spec(rnd, name, "bare")
                if same_size:
                    for kk in ("n", "p", "t", "q", "nmisc"):
                        if kk in a:
                            b[kk] = a[kk]
                else:
                    b["n"], b["p"], b["t"] = a["n"] + 1, a["p"] + 1, a["t"]
                yield dict(route="h5", cls=name, fname="seq.h5",
                           writes=[dict(spec=a, group="g", mode="path"), dict(spec=b, group="g", mode="path")])


def _df_spec(rnd, name, labs=("ascii", "uni", "mixed", "tricky")):
    sp = rand_spec(rnd, name, labs=labs)
    sp.pop("gtaxa", None)
    sp.pop("gvrnt", None)
    sp.pop("flav", None)
    if name in ("DenseMolecularCoancestryMatrix", "DenseSquareTaxaTraitMatrix", "DenseTwoWayDHAdditiveGeneticVarianceMatrix"):
        sp["opt"] = sorted(set(sp["opt"]) | {"taxa"})
    if name in ("DenseBreedingValueMatrix", "DenseSquareTaxaTraitMatrix", "DenseTwoWayDHAdditiveGeneticVarianceMatrix") or name in MODELS:
        sp["opt"] = sorted(set(sp["opt"]) | {"trait"})
    if name in ("DenseSquareTaxaTraitMatrix", "DenseTwoWayDHAdditiveGeneticVarianceMatrix"):
        sp["sorted_labels"] = True
    return sp


def gen_df(rnd, tier):
    per = 24 if tier == "quick" else 240
    for name in DF_CLASSES:
        for i in range(per):
            sp = _df_spec(rnd, name)
            case = dict(route="df", cls=name, spec=sp, via=["pandas", "csv"][i % 2], custom=rnd.random() < 0.4,
                        sep=rnd.choice([",", ",", ";", "\t"]))
            if name == "DenseBreedingValueMatrix":
                case.update(unscale=(i % 4 != 3), by_index=rnd.random() < 0.3 and "taxa" in sp["opt"], trait_seq=rnd.random() < 0.3)
                if case["by_index"]:
                    case["trait_seq"] = False
            if name in MAPS:
                case["units"] = rnd.choice(["cM", "M", "centiMorgans", "Morgans"])
            if name == "DenseMolecularCoancestryMatrix" and "taxa_grp" not in sp["opt"] and i % 3 != 2:
                case.update(custom=False, default_cols=True)      # absent groups written and read with the default column names
            yield case
        # known classes, each in its own branch
        for via in ("pandas", "csv"):
            sp = rand_spec(rnd, name, "bare")
            sp.pop("flav", None)
            if name not in MAPS:
                yield dict(route="df", cls=name, spec=sp, via=via, unscale=True)
            if name in ("DenseSquareTaxaTraitMatrix", "DenseTwoWayDHAdditiveGeneticVarianceMatrix"):
                sp = _df_spec(rnd, name)
                sp.update(shuffle=True, n=4, t=3, opt=["taxa", "taxa_grp", "trait"])
                sp.pop("sorted_labels", None)
                yield dict(route="df", cls=name, spec=sp, via=via)
        if name == "ExtendedGeneticMap":
            for full in (True, False):
                sp = _df_spec(rnd, name)
                sp["opt"] = ["vrnt_name", "vrnt_fncode"] if full else []
                yield dict(route="df", cls=name, spec=sp, via="egmap", fname="map.egmap")


def gen_copy(rnd, tier):
    per = 5 if tier == "quick" else 50
    hows = ["copy", "copy.copy", "deepcopy", "copy.deepcopy", "deepcopy-memo"]
    for name in CLASSES:
        for how in hows:
            yield dict(route="copy", cls=name, how=how, spec=dict(rand_spec(rnd, name, "full"), gtaxa=True, gvrnt=True))
            yield dict(route="copy", cls=name, how=how, spec=rand_spec(rnd, name, "bare"))
            for _ in range(per):
                yield dict(route="copy", cls=name, how=how, spec=rand_spec(rnd, name))
    for how in ("deepcopy", "copy.deepcopy"):
        sp = rand_spec(rnd, "G_E_Phenotyping", "full")
        sp["own_rng"] = True
        yield dict(route="copy", cls="G_E_Phenotyping", how=how, spec=sp)


def gen_vcf(rnd, tier):
    import itertools
    for name in ("DensePhasedGenotypeMatrix", "DenseGenotypeMatrix"):
        k = 0
        for (ns, nv), srt, auto, multi, dups in itertools.product([(1, 1), (1, 3), (3, 1), (2, 5), (4, 9)], [True, False],
                                                                   [True, False], [False, True], [False, True]):
            k += 1
            yield dict(route="vcf", cls=name, seed=1000 + k, nsamp=ns, nvar=nv, sorted=srt, auto_group=auto, multi=multi,
                       dups=dups, lab=["ascii", "uni", "mixed"][k % 3], nchr=1 + k % 4, bigpos=(k % 5 == 0),
                       fname="c.vcf" if k % 2 else "cälls ü.vcf")
        for _ in range(40 if tier == "quick" else 600):
            yield dict(route="vcf", cls=name, seed=rnd.randrange(10 ** 6), nsamp=rnd.choice([1, 2, 3, 6]),
                       nvar=rnd.choice([1, 2, 4, 7, 12]), sorted=rnd.random() < 0.5, auto_group=rnd.random() < 0.6,
                       multi=rnd.random() < 0.4, dups=rnd.random() < 0.3, lab=rnd.choice(["ascii", "uni", "mixed"]),
                       nchr=rnd.choice([1, 2, 5]), bigpos=rnd.random() < 0.2, fname="c.vcf")
        for auto in (True, False):
            yield dict(route="vcf", cls=name, seed=7, nsamp=3, nvar=0, sorted=True, auto_group=auto, lab="ascii", fname="empty.vcf")


# --------------------------------------------------------------------------
# units
# --------------------------------------------------------------------------
_BOUND = ("<=6 taxa, <=6 variants, <=3 traits, <=4 chromosomes, <=12 VCF records, <=4 writes per location, <=3 locations "
          "per file; seeded random contents (VERIF_SEED) plus enumerated corners")


@unit(P, "ring[hdf5 round trip, every persistable class]", "R", bounded=True, note="bounded: " + _BOUND)
def u_ring_h5(ctx):
    ctx.rule = ("one file, 1-3 distinct group paths (root, nested, absolute, non-ASCII, with/without trailing slash, "
                "read with the slash toggled), by file name / pathlib.Path / open h5py.File; every optional array "
                "present or absent, grouped or not, ASCII / non-ASCII labels; each location must read back equal to "
                "the object written there; distinct by full case")
    _drive(ctx, gen_h5_single(ctx.rng, ctx.tier), "hdf5-roundtrip")


@unit(P, "ring[hdf5 write sequences to one location]", "R", bounded=True, note="bounded: " + _BOUND)
def u_ring_h5seq(ctx):
    ctx.rule = ("2-4 successive writes of objects of one class to the same location (shape, dtype and optional-field "
                "changes; growing sequences and arbitrary sequences incl. richer->poorer), read back after every "
                "write; read-back must equal the last object written; distinct by full case")
    _drive(ctx, gen_h5_seq(ctx.rng, ctx.tier), "hdf5-last-write-wins")


@unit(P, "ring[data frame and csv round trip]", "R", bounded=True, note="bounded: " + _BOUND)
def u_ring_df(ctx):
    ctx.rule = ("to_pandas/from_pandas, to_csv/from_csv (and dict-of-frames for genomic models, .egmap for extended "
                "maps) with matching options (column names default/custom non-ASCII, separators, units M/cM, "
                "scaled/unscaled breeding values); exact comparison for frames, 1e-12 relative for CSV text and cM "
                "unit conversion; distinct by full case")
    _drive(ctx, gen_df(ctx.rng, ctx.tier), "dataframe-roundtrip")


@unit(P, "ring[copy and deepcopy]", "R", bounded=True, note="bounded: " + _BOUND)
def u_ring_copy(ctx):
    ctx.rule = ("copy()/copy.copy/deepcopy()/copy.deepcopy/deepcopy(memo) of every class; equal to source, source "
                "untouched; deep copy: no numpy buffer / dict / helper object shared (walk of the instance state), then "
                "every array of the copy mutated in place + public mutators, source must still equal its snapshot")
    _drive(ctx, gen_copy(ctx.rng, ctx.tier), "copy")


@unit(P, "ring[vcf import]", "R", bounded=True, note="bounded: " + _BOUND)
def u_ring_vcf(ctx):
    ctx.rule = ("generated VCF 4.2 text with phased diploid calls (sorted/unsorted records, duplicate positions, "
                "multi-allelic sites, non-ASCII sample names and ids, positions > 2^30) imported phased and unphased, "
                "with and without grouping; records compared one by one (ungrouped) or as a multiset + order + group "
                "metadata (grouped)")
    _drive(ctx, gen_vcf(ctx.rng, ctx.tier), "vcf-import")


REPLAYERS = {
    "ring[hdf5 round trip, every persistable class]": _replay,
    "ring[hdf5 write sequences to one location]": _replay,
    "ring[data frame and csv round trip]": _replay,
    "ring[copy and deepcopy]": _replay,
    "ring[vcf import]": _replay,
}
