"""C10 -- native bounded ring (mode R): selection limits bound every attainable
value and only ever tighten.

Every case is a *closed breeding history* executed on the real library:

    founders G0 --select_taxa--> S0 --mate--> G1 --select_taxa--> S1 --mate--> G2 ...

(mating through the seven ``mate()`` protocols or the ``mat_mate`` / ``mat_dh``
kernels, optionally keeping the selected parents next to their progeny; for
ploidy != 2 the history is selection only).  Every population of the chain is
observed, and the limits are read off through every reporting route of the
model (phased matrix, unphased matrix, bare ndarray, ``*_numpy`` fed by the
matrix' own allele frequencies, ``*_numpy`` fed by exactly divided counts, and
the ``unscale=True`` variants).

Oracle (written from the property statement, exact rational arithmetic):

  bracket    for every population g and every EARLIER-or-equal population h of
             the chain: lsl_h <= breeding value of every individual of g <= usl_h,
             the breeding value being  sum_j dosage_ij * u_j  computed here with
             ``fractions.Fraction`` (and, separately, the value the library
             itself reports through ``gebv_numpy``);
  monotone   usl never increases and lsl never decreases along the chain;
  fixed      a population with a single allele at every locus has
             usl == lsl == the common breeding value;
  lost       an allele absent from a population of the chain is absent from
             every later one; all alleles stay in {0,1}.

Effects are dyadic rationals (multiples of 1/8 times a power of two) in the
"exact" cases, so that every float sum the library forms is exact and all
comparisons are made with tolerance 0; cases flagged ``exact=False`` use generic
floats and a relative tolerance of 1e-9 ("to rounding").
"""
from pyvc.unit import unit

P = "C10"

CLS_ROUNDING = "afreq-reciprocal-rounding"

PROTOCOLS = {
    "SelfCross": ("pybrops.breed.prot.mate.SelfCross", 1),
    "TwoWayCross": ("pybrops.breed.prot.mate.TwoWayCross", 2),
    "TwoWayDHCross": ("pybrops.breed.prot.mate.TwoWayDHCross", 2),
    "ThreeWayCross": ("pybrops.breed.prot.mate.ThreeWayCross", 3),
    "ThreeWayDHCross": ("pybrops.breed.prot.mate.ThreeWayDHCross", 3),
    "FourWayCross": ("pybrops.breed.prot.mate.FourWayCross", 4),
    "FourWayDHCross": ("pybrops.breed.prot.mate.FourWayDHCross", 4),
}
KERNELS = {"mat_mate": 2, "mat_dh": 1}
ALL_MATERS = list(PROTOCOLS) + list(KERNELS)

SEL_RULES = ["top", "bottom", "rand", "randdup", "first", "last", "all", "one", "revall", "index"]
FOUNDER_MODES = ["fix0", "fix1", "rare1", "rare0", "hom", "rand", "het", "lowfreq", "highfreq"]


# ---------------------------------------------------------------------------
# the input class of the known allele-frequency defect
def bad_denominator(d):
    """denominators ploidy*n for which a float reciprocal times the full count
    is not 1.0 (49, 98, 103, 107, 161, ...)"""
    return d > 0 and (1.0 / d) * d != 1.0


def nparent_of(proto):
    return PROTOCOLS[proto][1] if proto in PROTOCOLS else KERNELS[proto]


def _step_k(st, n):
    rule = st["rule"] if "idx" not in st else None
    if rule is None:
        return len(st["idx"])
    if rule in ("all", "revall"):
        return n
    if rule == "one":
        return 1
    k = max(1, int(st.get("k", 1)))
    if rule != "randdup":
        k = min(k, n)
    return k


def _step_counts(st):
    """(ncross, per-cross progeny counts)"""
    if st.get("xconfig") is not None:
        ncross = len(st["xconfig"])
    else:
        ncross = int(st["ncross"])
    nm, npg = st.get("nmating", 1), st.get("nprogeny", 1)
    nm = [nm] * ncross if isinstance(nm, int) else list(nm)
    npg = [npg] * ncross if isinstance(npg, int) else list(npg)
    return ncross, nm, npg


def chain_sizes(case):
    """population sizes of every population of the chain, from the case alone"""
    f = case["founders"]
    n = len(f["mat"][0]) if "mat" in f else f["n"]
    out = [n]
    for st in case["steps"]:
        k = _step_k(st, n)
        out.append(k)
        if st.get("proto") is None:
            n = k
            continue
        ncross, nm, npg = _step_counts(st)
        if st["proto"] in KERNELS:
            tot = sum(npg)
        else:
            tot = sum(a * b for a, b in zip(nm, npg))
        n = tot + (k if st.get("keep") else 0)
        out.append(n)
    return out


def has_bad_size(case):
    pl = case.get("ploidy", 2)
    return any(bad_denominator(pl * s) for s in chain_sizes(case))


# ---------------------------------------------------------------------------
# building blocks on the real library
def _founder_mat(case):
    import numpy, random
    f = case["founders"]
    ploidy = case.get("ploidy", 2)
    p = len(case["xoprob"])
    if "mat" in f:
        arr = numpy.array(f["mat"], dtype="int8")
        n = len(f["mat"][0])
        return arr.reshape(ploidy, n, p)
    n = f["n"]
    rnd = random.Random(f["seed"])
    mat = numpy.zeros((ploidy, n, p), dtype="int8")
    for j, mode in enumerate(f["modes"]):
        if mode == "fix0":
            pass
        elif mode == "fix1":
            mat[:, :, j] = 1
        elif mode == "rare1":
            mat[rnd.randrange(ploidy), rnd.randrange(n), j] = 1
        elif mode == "rare0":
            mat[:, :, j] = 1
            mat[rnd.randrange(ploidy), rnd.randrange(n), j] = 0
        elif mode == "hom":
            for i in range(n):
                mat[:, i, j] = rnd.randrange(2)
        elif mode == "het":
            for m in range(ploidy):
                mat[m, :, j] = 1 if m % 2 == 0 else 0
        else:
            q = {"rand": 0.5, "lowfreq": 0.12, "highfreq": 0.88}[mode]
            for m in range(ploidy):
                for i in range(n):
                    mat[m, i, j] = 1 if rnd.random() < q else 0
    return mat


def _wrap(case, mat, prefix):
    """a DensePhasedGenotypeMatrix around a (ploidy,n,p) int8 array with the case's marker metadata"""
    import numpy
    from pybrops.popgen.gmat.DensePhasedGenotypeMatrix import DensePhasedGenotypeMatrix
    p = len(case["xoprob"])
    n = mat.shape[1]
    chrgrp = case.get("chrgrp")
    if chrgrp is None:
        chrgrp = [1] * p
    return DensePhasedGenotypeMatrix(
        mat=numpy.ascontiguousarray(mat, dtype="int8"),
        taxa=numpy.array(["%s%04d" % (prefix, i) for i in range(n)], dtype=object),
        taxa_grp=numpy.arange(n, dtype="int64"),
        vrnt_chrgrp=numpy.array(chrgrp, dtype="int64"),
        vrnt_phypos=numpy.arange(1, p + 1, dtype="int64") * 10,
        vrnt_name=numpy.array(["m%d" % i for i in range(p)], dtype=object),
        vrnt_genpos=numpy.linspace(0.0, 1.0, p) if p > 1 else numpy.zeros(p),
        vrnt_xoprob=numpy.array(case["xoprob"], dtype=float),
        vrnt_hapgrp=numpy.arange(p, dtype="int64"),
        vrnt_mask=numpy.ones(p, dtype=bool),
    )


def _model(case):
    import numpy
    from pybrops.model.gmod.DenseAdditiveLinearGenomicModel import DenseAdditiveLinearGenomicModel
    p = len(case["xoprob"])
    beta = numpy.array(case["beta"], dtype="float64")
    t = beta.shape[1]
    u = numpy.array(case["u"], dtype="float64").reshape(p, t)
    trait = None
    if case.get("named_traits", True):
        trait = numpy.array(["trait%d" % i for i in range(t)], dtype=object)
    return DenseAdditiveLinearGenomicModel(beta=beta, u_misc=None, u_a=u, trait=trait)


def _make_rng(st, seed):
    import numpy
    from pyvc import ring
    kind = st.get("rng", "gen")
    if kind == "script":
        return ring.ScriptedRandomState(st["pattern"])
    if kind == "rs":
        return numpy.random.RandomState(seed % (2 ** 32))
    return numpy.random.default_rng(seed)


def _as_index(idx, ixtype):
    import numpy
    if ixtype == "ndarray":
        return numpy.array(idx, dtype="int64")
    if ixtype == "tuple":
        return tuple(idx)
    return list(idx)


def _select(st, obs, seed):
    """indices of the selected individuals (the selection rule is an INPUT of the history)"""
    import random
    if "idx" in st:
        return [int(i) for i in st["idx"]]
    n = obs["n"]
    rule = st["rule"]
    k = _step_k(st, n)
    rnd = random.Random(seed)
    bv = obs["bv"]
    nt = len(bv[0]) if n and len(bv[0]) else 0
    if rule == "all":
        return list(range(n))
    if rule == "revall":
        return list(range(n - 1, -1, -1))
    if rule == "one":
        return [rnd.randrange(n)]
    if rule == "first":
        return list(range(k))
    if rule == "last":
        return list(range(n - k, n))
    if rule == "rand":
        return rnd.sample(range(n), k)
    if rule == "randdup":
        return [rnd.randrange(n) for _ in range(k)]
    tr = st.get("trait", 0) % nt if nt else 0
    if rule == "top":
        order = sorted(range(n), key=lambda i: (-(bv[i][tr] if nt else 0), i))
        return order[:k]
    if rule == "bottom":
        order = sorted(range(n), key=lambda i: ((bv[i][tr] if nt else 0), i))
        return order[:k]
    if rule == "index":
        w = [1 if c % 2 == 0 else -2 for c in range(nt)]
        order = sorted(range(n), key=lambda i: (-sum(w[c] * bv[i][c] for c in range(nt)), -i))
        return order[:k]
    raise ValueError("unknown selection rule %r" % (rule,))


def _observe(case, model, pg, tag, UF, gsel=None):
    """everything the oracle needs about one population, plus the limits the library reports for it"""
    import numpy
    from fractions import Fraction
    from pybrops.popgen.gmat.DenseGenotypeMatrix import DenseGenotypeMatrix
    mat = pg.mat
    ploidy, n, p = mat.shape
    L = mat.tolist()
    nt = len(case["beta"][0])
    values_ok = True
    dosage = [[0] * p for _ in range(n)]
    for m in range(ploidy):
        Lm = L[m]
        for i in range(n):
            row = Lm[i]
            di = dosage[i]
            for j in range(p):
                a = row[j]
                if a != 0 and a != 1:
                    values_ok = False
                di[j] += a
    counts = [0] * p
    for i in range(n):
        di = dosage[i]
        for j in range(p):
            counts[j] += di[j]
    denom = ploidy * n
    present = [(counts[j] < denom, counts[j] > 0) for j in range(p)]      # (allele 0 present, allele 1 present)
    fixed = all(c == 0 or c == denom for c in counts)
    # exact breeding values, one per distinct dosage row
    cache = {}
    bv = []
    for i in range(n):
        key = tuple(dosage[i])
        v = cache.get(key)
        if v is None:
            v = [sum((key[j] * UF[j][c] for j in range(p) if key[j]), Fraction(0)) for c in range(nt)]
            cache[key] = v
        bv.append(v)
    # float views of the exact values: in the exact cases every value is a dyadic rational that a
    # float64 holds exactly (checked), so float comparisons below ARE exact rational comparisons
    bvf = {}
    for key, v in cache.items():
        fv = [float(x) for x in v]
        if case.get("exact", True) and any(Fraction(fv[c]) != v[c] for c in range(nt)):
            raise AssertionError("ring oracle: an 'exact' case has a breeding value that float64 cannot hold")
        bvf[key] = fv
    bvf = [bvf[tuple(dosage[i])] for i in range(n)]
    bvmin = [min(range(n), key=lambda i: bv[i][c]) for c in range(nt)]
    bvmax = [max(range(n), key=lambda i: bv[i][c]) for c in range(nt)]
    Z = numpy.array(dosage, dtype="int8").reshape(n, p)
    obs = dict(tag=tag, n=n, ploidy=ploidy, dosage=dosage, counts=counts, denom=denom, present=present, fixed=fixed,
               bv=bv, bvf=bvf, bvmin=bvmin, bvmax=bvmax, values_ok=values_ok,
               hit=bad_denominator(denom) and any(c == denom for c in counts))
    # the library's own breeding values
    G = model.gebv_numpy(pg.mat_asformat("{0,1,2}"))
    GL = G.tolist()
    obs["gmin"] = [min(float(row[c]) for row in GL) for c in range(nt)]
    obs["gmax"] = [max(float(row[c]) for row in GL) for c in range(nt)]
    obs["Gshape"] = tuple(G.shape)
    obs["G"] = GL
    # the limits through every reporting route
    routes = {}
    routes["phased"] = (model.lsl(pg), model.usl(pg))
    gm = DenseGenotypeMatrix(mat=Z.copy(), taxa=pg.taxa, taxa_grp=pg.taxa_grp, vrnt_chrgrp=pg.vrnt_chrgrp,
                             vrnt_phypos=pg.vrnt_phypos, vrnt_name=pg.vrnt_name, ploidy=ploidy)
    routes["unphased"] = (model.lsl(gm), model.usl(gm))
    obs["gm"] = gm
    if gsel is not None:          # the same selection carried out on the unphased matrix of the preceding population
        routes["unphased.select_taxa"] = (model.lsl(gsel), model.usl(gsel))
    routes["ndarray"] = (model.lsl(Z.copy(), ploidy=ploidy), model.usl(Z.copy(), ploidy=ploidy))
    if ploidy == 2:
        routes["ndarray-default-ploidy"] = (model.lsl(Z.copy()), model.usl(Z.copy()))
    routes["numpy(phased.afreq)"] = (model.lsl_numpy(pg.afreq(), pg.ploidy), model.usl_numpy(pg.afreq(), pg.ploidy))
    # where the known rounding class can be SEEN (a frequency one rounding step below 1 at a locus that is
    # fixed for allele 1) it is required to be seen before a failure is attributed to it
    def seen(af):
        af = af.tolist()
        return any(counts[j] == denom and 0.999999999999 < af[j] < 1.0 for j in range(p))
    prone = obs["hit"]
    obs["hit"] = {"phased": prone and seen(pg.afreq()), "unphased": prone and seen(gm.afreq()), "ndarray": prone,
                  "unphased.select_taxa": prone and gsel is not None and tuple(gsel.mat.shape) == (n, p) and seen(gsel.afreq())}
    routes["numpy(unphased.afreq)"] = (model.lsl_numpy(gm.afreq(dtype="float64"), ploidy, False),
                                       model.usl_numpy(gm.afreq(dtype="float64"), ploidy, False))
    pex = numpy.array([counts[j] / denom for j in range(p)], dtype="float64").reshape(p)
    routes["numpy(exact p)"] = (model.lsl_numpy(pex, ploidy), model.usl_numpy(pex, ploidy))
    lim = {}
    shape_bad = None
    for r, (lo, hi) in routes.items():
        lo, hi = numpy.asarray(lo), numpy.asarray(hi)
        if lo.shape != (nt,) or hi.shape != (nt,):
            shape_bad = "route %s: limit shapes %s/%s, expected (%d,)" % (r, lo.shape, hi.shape, nt)
            continue
        lim[r] = ([float(x) for x in lo.tolist()], [float(x) for x in hi.tolist()])
    obs["lim"] = lim
    obs["shape_bad"] = shape_bad
    # unscale=True variants against the library's un-scaled breeding value matrix (float, to rounding)
    lo_u, hi_u = model.lsl(pg, unscale=True), model.usl(pg, unscale=True)
    V = model.gebv(pg).unscale()
    obs["unscaled"] = (lo_u.tolist(), hi_u.tolist(), V.tolist())
    lo_u2, hi_u2 = model.lsl_numpy(pex, ploidy, True), model.usl_numpy(pex, ploidy, True)
    obs["unscaled_exact"] = (lo_u2.tolist(), hi_u2.tolist())
    if not numpy.array_equal(pg.mat, mat) or pg.mat.tolist() != L:
        obs["shape_bad"] = "reporting the limits modified the genotype matrix"
    return obs


def _mate(case, st, si, cur, sel, idx):
    """produce the progeny population of step si"""
    import numpy, random, importlib
    proto = st["proto"]
    npar = nparent_of(proto)
    k = len(idx)
    ncross, nm, npg = _step_counts(st)
    seed = case.get("seed", 0) * 7919 + si * 104729 + 17
    if st.get("xconfig") is not None:
        xloc = [[int(v) for v in row] for row in st["xconfig"]]
    else:
        rnd = random.Random(seed)
        xloc = [[rnd.randrange(k) for _ in range(npar)] for _ in range(ncross)]
    if st.get("style") == "full":
        pg = cur
        xc = [[idx[v] for v in row] for row in xloc]          # parents addressed in the unselected population
    else:
        pg = sel
        xc = xloc
    xconfig = numpy.array(xc, dtype="int64").reshape(ncross, npar)
    rng = _make_rng(st, seed)
    if proto in PROTOCOLS:
        cls = getattr(importlib.import_module(PROTOCOLS[proto][0]), proto)
        obj = cls(progeny_counter=1000 * si, family_counter=10 * si, rng=rng)
        nmating = st.get("nmating", 1)
        nprogeny = st.get("nprogeny", 1)
        nmating = nmating if isinstance(nmating, int) else numpy.array(nmating, dtype="int64")
        nprogeny = nprogeny if isinstance(nprogeny, int) else numpy.array(nprogeny, dtype="int64")
        prog = obj.mate(pg, xconfig, nmating, nprogeny, nself=int(st.get("nself", 0)))
        expect = sum(a * b for a, b in zip(nm, npg))
    else:
        from pybrops.breed.prot.mate import util
        rep = numpy.array(npg, dtype="int64")
        if proto == "mat_mate":
            fsel = numpy.repeat(xconfig[:, 0], rep)
            msel = numpy.repeat(xconfig[:, 1], rep)
            out = util.mat_mate(pg.mat, pg.mat, fsel, msel, pg.vrnt_xoprob, rng)
        else:
            s = numpy.repeat(xconfig[:, 0], rep)
            out = util.mat_dh(pg.mat, s, pg.vrnt_xoprob, rng)
        prog = _wrap(case, out, "k%d_" % si)
        expect = sum(npg)
    return prog, expect


# ---------------------------------------------------------------------------
# the oracle
def _exec(case):
    """run one history; returns (violated, message, cls)"""
    import numpy
    from fractions import Fraction
    from pybrops.popgen.gmat.DensePhasedGenotypeMatrix import DensePhasedGenotypeMatrix
    ploidy = case.get("ploidy", 2)
    p = len(case["xoprob"])
    nt = len(case["beta"][0])
    model = _model(case)
    u_before = model.u_a.copy()
    UF = [[Fraction(float(x)) for x in numpy.array(case["u"], dtype="float64").reshape(p, nt)[j].tolist()] for j in range(p)]
    if case.get("exact", True):
        tol = 0.0
    else:
        mag = max([sum(abs(UF[j][c]) for j in range(p)) for c in range(nt)] + [Fraction(0)])
        tol = 1e-9 * (1.0 + ploidy * float(mag))
    fmat = _founder_mat(case)
    f_before = fmat.copy()
    cur = _wrap(case, fmat, "f")
    pops = [_observe(case, model, cur, "G0", UF)]
    early = []      # (message, cls) found while executing
    for si, st in enumerate(case["steps"]):
        seed = case.get("seed", 0) * 7919 + si * 104729
        idx = _select(st, pops[-1], seed)
        sel = cur.select_taxa(_as_index(idx, st.get("ixtype", "list")))
        if not isinstance(sel, DensePhasedGenotypeMatrix):
            return True, "select_taxa returned %s" % type(sel).__name__, "select-type"
        if sel.mat.shape != (ploidy, len(idx), p):
            return True, "S%d: selected matrix shape %s, expected %s" % (si, sel.mat.shape, (ploidy, len(idx), p)), "population-shape"
        gsel = pops[-1]["gm"].select_taxa(_as_index(idx, st.get("ixtype", "list")))
        pops.append(_observe(case, model, sel, "S%d" % si, UF, gsel=gsel))
        if st.get("proto") is None:
            cur = sel
            continue
        prog, expect = _mate(case, st, si, cur, sel, idx)
        if prog.mat.shape != (2, expect, p) or prog.mat.dtype != numpy.int8:
            return True, "G%d: progeny matrix %s %s, expected (2,%d,%d) int8" % (
                si + 1, prog.mat.shape, prog.mat.dtype, expect, p), "population-shape"
        if st.get("keep"):
            cur = DensePhasedGenotypeMatrix.concat_taxa([sel, prog])
            if cur.mat.shape != (2, len(idx) + expect, p):
                return True, "G%d: merged matrix shape %s" % (si + 1, cur.mat.shape), "population-shape"
        else:
            cur = prog
        pops.append(_observe(case, model, cur, "G%d" % (si + 1), UF))
    if not numpy.array_equal(fmat, f_before):
        early.append(("the founders' genotype matrix was modified by the history", "input-modified"))
    if not numpy.array_equal(model.u_a, u_before):
        early.append(("the model's marker effects were modified", "input-modified"))

    found = list(early)           # (message, cls)

    def attribute(route, involved, holds_exact):
        """rounding defect iff a population whose LIMITS are used has a locus fixed for allele 1 at a
        rounding-prone denominator, the route goes through reciprocal frequencies, and the same
        instance holds when the limits are computed from exactly divided counts"""
        if route == "numpy(exact p)":
            return False
        fam = ("unphased.select_taxa" if route == "unphased.select_taxa" else "ndarray" if route.startswith("ndarray")
               else "unphased" if "unphased" in route else "phased")
        return holds_exact and any(pops[g]["hit"][fam] or (fam == "unphased.select_taxa" and pops[g]["hit"]["unphased"])
                                   for g in involved)

    for g, ob in enumerate(pops):
        if ob["shape_bad"]:
            found.append(("%s: %s" % (ob["tag"], ob["shape_bad"]), "limit-shape"))
        if not ob["values_ok"]:
            found.append(("%s: genotype matrix holds values outside {0,1}" % ob["tag"], "allele-values"))
        if ob["Gshape"] != (ob["n"], nt):
            found.append(("%s: gebv_numpy shape %s" % (ob["tag"], ob["Gshape"]), "limit-shape"))
    if found:
        return True, found[0][0], found[0][1]

    EX = "numpy(exact p)"
    # -- the library's breeding value is the one the statement speaks of: sum_j dosage_ij * u_j
    for g, ob in enumerate(pops):
        for i in range(ob["n"]):
            for c in range(nt):
                if abs(ob["G"][i][c] - ob["bvf"][i][c]) > tol:
                    found.append(("%s individual %d trait %d: gebv_numpy reports %r, the additive definition gives %r" % (
                        ob["tag"], i, c, ob["G"][i][c], ob["bvf"][i][c]), "gebv-differs-from-definition"))
                    break
            else:
                continue
            break
    # -- lost alleles never reappear (consecutive populations suffice: a reappearance flips somewhere)
    for g in range(1, len(pops)):
        a, b = pops[g - 1], pops[g]
        for j in range(p):
            for al in (0, 1):
                if b["present"][j][al] and not a["present"][j][al]:
                    found.append(("allele %d at locus %d is absent from %s (count of 1-allele %d/%d) but present in %s (%d/%d)" % (
                        al, j, a["tag"], a["counts"][j], a["denom"], b["tag"], b["counts"][j], b["denom"]), "lost-allele-reappears"))
    # -- bracket, against the limits of every earlier-or-equal population
    for g, ob in enumerate(pops):
        for h in range(g + 1):
            oh = pops[h]
            for r, (lo, hi) in oh["lim"].items():
                for c in range(nt):
                    imin, imax = ob["bvmin"][c], ob["bvmax"][c]
                    vmin, vmax = ob["bvf"][imin][c], ob["bvf"][imax][c]
                    gmin, gmax = ob["gmin"][c], ob["gmax"][c]
                    for what, v, who in (("breeding value", vmin, imin), ("gebv_numpy value", gmin, None)):
                        if not lo[c] - tol <= v:
                            exl = oh["lim"][EX][0][c] if EX in oh["lim"] else lo[c]
                            cls = CLS_ROUNDING if attribute(r, [h], exl - tol <= v) else "bracket-lower"
                            found.append(("trait %d: lsl of %s via %s is %s but %s of %s%s is %s" % (
                                c, oh["tag"], r, float(lo[c]), what, ob["tag"],
                                "" if who is None else " individual %d" % who, float(v)), cls))
                    for what, v, who in (("breeding value", vmax, imax), ("gebv_numpy value", gmax, None)):
                        if not v <= hi[c] + tol:
                            exh = oh["lim"][EX][1][c] if EX in oh["lim"] else hi[c]
                            cls = CLS_ROUNDING if attribute(r, [h], v <= exh + tol) else "bracket-upper"
                            found.append(("trait %d: usl of %s via %s is %s but %s of %s%s is %s" % (
                                c, oh["tag"], r, float(hi[c]), what, ob["tag"],
                                "" if who is None else " individual %d" % who, float(v)), cls))
    # -- monotone along the chain
    for g in range(1, len(pops)):
        a, b = pops[g - 1], pops[g]
        for r in b["lim"]:
            ra = r if r in a["lim"] else "unphased"
            if ra not in a["lim"]:
                continue
            for c in range(nt):
                la, ha = a["lim"][ra][0][c], a["lim"][ra][1][c]
                lb, hb = b["lim"][r][0][c], b["lim"][r][1][c]
                if not hb <= ha + tol:
                    ok_ex = b["lim"][EX][1][c] <= a["lim"][EX][1][c] + tol
                    cls = CLS_ROUNDING if attribute(r, [g - 1, g], ok_ex) else "usl-increases"
                    found.append(("trait %d via %s: usl rises from %s (%s, n=%d) to %s (%s, n=%d)" % (
                        c, r, float(ha), a["tag"], a["n"], float(hb), b["tag"], b["n"]), cls))
                if not lb + tol >= la:
                    ok_ex = b["lim"][EX][0][c] + tol >= a["lim"][EX][0][c]
                    cls = CLS_ROUNDING if attribute(r, [g - 1, g], ok_ex) else "lsl-decreases"
                    found.append(("trait %d via %s: lsl falls from %s (%s, n=%d) to %s (%s, n=%d)" % (
                        c, r, float(la), a["tag"], a["n"], float(lb), b["tag"], b["n"]), cls))
    # -- fixed population: both limits equal the common value
    for g, ob in enumerate(pops):
        if not ob["fixed"]:
            continue
        for c in range(nt):
            common = ob["bvf"][0][c]
            if any(ob["bv"][i][c] != ob["bv"][0][c] for i in range(ob["n"])):
                found.append(("%s: oracle inconsistency (fixed population with unequal values)" % ob["tag"], "oracle"))
            for r, (lo, hi) in ob["lim"].items():
                if abs(lo[c] - common) > tol or abs(hi[c] - common) > tol:
                    ok_ex = abs(ob["lim"][EX][0][c] - common) <= tol and abs(ob["lim"][EX][1][c] - common) <= tol
                    cls = CLS_ROUNDING if attribute(r, [g], ok_ex) else "fixed-limits-differ"
                    found.append(("trait %d via %s: %s (n=%d, ploidy %d) is fixed at every locus with common value %s "
                                  "but lsl=%s usl=%s" % (c, r, ob["tag"], ob["n"], ob["ploidy"], float(common),
                                                         float(lo[c]), float(hi[c])), cls))
    # -- unscale=True: same clauses on the shifted scale (float addition of the intercept: to rounding)
    for g, ob in enumerate(pops):
        lo_g, hi_g, V = ob["unscaled"]
        for c in range(nt):
            col = [row[c] for row in V]
            eps = 1e-9 * (1.0 + max(abs(x) for x in col))
            for h in range(g + 1):
                lo_h, hi_h, _ = pops[h]["unscaled"]
                lo_x, hi_x = pops[h]["unscaled_exact"]
                if min(col) < lo_h[c] - eps:
                    cls = CLS_ROUNDING if attribute("phased", [h], min(col) >= lo_x[c] - eps) else "bracket-lower-unscaled"
                    found.append(("trait %d: lsl(unscale=True) of %s is %r but an unscaled gebv of %s is %r" % (
                        c, pops[h]["tag"], lo_h[c], ob["tag"], min(col)), cls))
                if max(col) > hi_h[c] + eps:
                    cls = CLS_ROUNDING if attribute("phased", [h], max(col) <= hi_x[c] + eps) else "bracket-upper-unscaled"
                    found.append(("trait %d: usl(unscale=True) of %s is %r but an unscaled gebv of %s is %r" % (
                        c, pops[h]["tag"], hi_h[c], ob["tag"], max(col)), cls))
            if g > 0:
                lo_a, hi_a, _ = pops[g - 1]["unscaled"]
                lo_ax, hi_ax = pops[g - 1]["unscaled_exact"]
                lo_bx, hi_bx = ob["unscaled_exact"]
                tf = tol
                if hi_g[c] > hi_a[c] + tf:
                    cls = CLS_ROUNDING if attribute("phased", [g - 1, g], hi_bx[c] <= hi_ax[c] + tf) else "usl-increases-unscaled"
                    found.append(("trait %d: usl(unscale=True) rises from %r (%s) to %r (%s)" % (
                        c, hi_a[c], pops[g - 1]["tag"], hi_g[c], ob["tag"]), cls))
                if lo_g[c] + tf < lo_a[c]:
                    cls = CLS_ROUNDING if attribute("phased", [g - 1, g], lo_bx[c] + tf >= lo_ax[c]) else "lsl-decreases-unscaled"
                    found.append(("trait %d: lsl(unscale=True) falls from %r (%s) to %r (%s)" % (
                        c, lo_a[c], pops[g - 1]["tag"], lo_g[c], ob["tag"]), cls))
            if ob["fixed"]:
                lo_x, hi_x = ob["unscaled_exact"]
                if abs(lo_g[c] - col[0]) > eps or abs(hi_g[c] - col[0]) > eps:
                    ok_ex = abs(lo_x[c] - col[0]) <= eps and abs(hi_x[c] - col[0]) <= eps
                    cls = CLS_ROUNDING if attribute("phased", [g], ok_ex) else "fixed-limits-differ-unscaled"
                    found.append(("trait %d: %s (n=%d) is fixed with unscaled value %r but lsl/usl(unscale=True) = %r/%r" % (
                        c, ob["tag"], ob["n"], col[0], lo_g[c], hi_g[c]), cls))
    if not found:
        return False, "ok", ""
    # a failure that is NOT the known rounding class takes precedence, so that it cannot hide behind it
    other = [f for f in found if f[1] != CLS_ROUNDING]
    msg, cls = (other or found)[0]
    return True, "%s  [%d failing clause instances in this history: %s]" % (
        msg, len(found), ", ".join(sorted(set(f[1] for f in found)))), cls


def run_case3(case):
    try:
        return _exec(case)
    except Exception as e:          # a crash of the real code on a valid input counts as a failure
        import traceback
        tb = traceback.extract_tb(e.__traceback__)
        where = "%s:%d" % (tb[-1].filename.split("/")[-1], tb[-1].lineno) if tb else "?"
        return True, "exception %s: %s (at %s)" % (type(e).__name__, e, where), "exception"


def run_case(case):
    """execute ONE history on the real code; returns (violated, message)"""
    bad, msg, cls = _exec(case)
    return bad, msg


def _replay(case):
    bad, msg, cls = run_case3(case)
    return bad, msg


# ---------------------------------------------------------------------------
# case generators
def _dyadic_effects(rnd, p, t, style):
    """p x t effects, multiples of 1/8 times a power of two (exact float sums), with signs/zeros per style"""
    sc = 2.0 ** rnd.choice([0, 0, 0, 0, -30, 20, 3])
    out = []
    for j in range(p):
        row = []
        for c in range(t):
            s = style if style != "mixed" else rnd.choice(["pos", "neg", "zero", "any", "any"])
            if s == "pos":
                k = rnd.randint(1, 24)
            elif s == "neg":
                k = -rnd.randint(1, 24)
            elif s == "zero":
                k = 0
            elif s == "negzero":
                k = rnd.choice([0, -1, -8])
            else:
                k = rnd.randint(-24, 24)
            v = (k / 8.0) * sc
            if k == 0 and rnd.random() < 0.3:
                v = -0.0
            row.append(v)
        out.append(row)
    return out


def _float_effects(rnd, p, t):
    return [[rnd.choice([0.0, rnd.gauss(0, 1), rnd.gauss(0, 1), rnd.uniform(-1e-3, 1e-3), rnd.gauss(0, 100)])
             for _ in range(t)] for _ in range(p)]


def _beta(rnd, t):
    q = rnd.choice([1, 1, 2, 3])
    return [[rnd.choice([0.0, 1.0, -2.5, 10.0, 0.125]) for _ in range(t)] for _ in range(q)]


# (ncross, nmating, nprogeny) templates reaching the population sizes the property's notes name
SIZE_TEMPLATES_GOOD = [(8, 1, 8), (32, 2, 1), (64, 1, 1), (16, 1, 4), (10, 1, 10), (25, 2, 2), (50, 1, 2), (100, 1, 1),
                       (13, 1, 5), (65, 1, 1), (64, 1, 2), (65, 2, 1), (9, 1, 7), (21, 3, 1), (127, 1, 1)]
SIZE_TEMPLATES_BAD = [(7, 1, 7), (49, 1, 1), (103, 1, 1), (49, 1, 2), (7, 2, 7), (107, 1, 1), (1, 1, 49), (1, 7, 7)]


def _small_counts(rnd):
    return (rnd.choice([1, 1, 2, 3, 4, 6]), rnd.choice([1, 1, 2]), rnd.choice([1, 2, 3, 4]))


def _history(rnd, big, want_bad, protos=None, max_steps=6, exact=None):
    """one random closed history (ploidy 2)"""
    p = rnd.choice([0, 1, 2, 3, 4, 5, 6, 8]) if rnd.random() < 0.9 else rnd.choice([10, 12])
    t = rnd.choice([1, 1, 2, 3])
    if exact is None:
        exact = rnd.random() < 0.85
    style = rnd.choice(["mixed", "mixed", "mixed", "any", "pos", "neg", "zero", "negzero"])
    u = _dyadic_effects(rnd, p, t, style) if exact else _float_effects(rnd, p, t)
    if big:
        nf = rnd.choice([64, 65, 100, 128, 130, 70, 49, 103] if want_bad else [64, 65, 100, 128, 130, 70, 32, 20])
    else:
        nf = rnd.choice([1, 2, 3, 4, 5, 6, 8, 12])
    modes = [rnd.choice(FOUNDER_MODES) for _ in range(p)]
    xo = [rnd.choice([0.5, 0.5, 0.0, 1.0, 0.1, 0.3, 0.01]) for _ in range(p)]
    if p and rnd.random() < 0.6:
        xo[0] = 0.5
    nsteps = rnd.randint(1, max_steps)
    steps = []
    for s in range(nsteps):
        proto = rnd.choice(protos or ALL_MATERS)
        if big and rnd.random() < 0.7:
            tmpl = SIZE_TEMPLATES_GOOD + (SIZE_TEMPLATES_BAD * 2 if want_bad else [])
            ncross, nm, npg = rnd.choice(tmpl)
        else:
            ncross, nm, npg = _small_counts(rnd)
        if proto in KERNELS:
            nm = 1
        st = dict(rule=rnd.choice(SEL_RULES), k=rnd.choice([1, 2, 3, 4, 5, 8, 16, 20, 49, 64, 103] if big else [1, 2, 3, 4, 5]),
                  trait=rnd.randrange(3), ixtype=rnd.choice(["list", "ndarray", "tuple"]),
                  proto=proto, ncross=ncross, nmating=nm, nprogeny=npg,
                  nself=rnd.choice([0, 0, 0, 1, 2]) if proto in PROTOCOLS else 0,
                  keep=rnd.random() < 0.15, style=rnd.choice(["sub", "sub", "full"]),
                  rng=rnd.choice(["gen", "gen", "rs", "script"]))
        if proto in PROTOCOLS and rnd.random() < 0.2:
            st["nmating"] = [rnd.choice([1, 2]) for _ in range(ncross)]
            st["nprogeny"] = [rnd.choice([1, 2, 3]) for _ in range(ncross)]
        if st["rng"] == "script":
            st["pattern"] = rnd.choice([[0.0], [0.999], [0.0, 0.999], [0.4, 0.6, 0.05, 0.0, 0.999], [0.25, 0.75, 0.5]])
        if rnd.random() < 0.12:
            st["proto"] = None          # a pure selection step
        steps.append(st)
    case = dict(ploidy=2, xoprob=xo, u=u, beta=_beta(rnd, t), exact=exact, named_traits=rnd.random() < 0.7,
                founders=dict(n=nf, seed=rnd.randrange(10 ** 6), modes=modes), seed=rnd.randrange(10 ** 6), steps=steps)
    if p > 2 and rnd.random() < 0.3:
        cut = rnd.randrange(1, p)
        case["chrgrp"] = [1] * cut + [2] * (p - cut)
    return case


def _polyploid(rnd, want_bad):
    """selection-only history for ploidy 1, 3, 4, 6 (mating kernels are diploid)"""
    ploidy = rnd.choice([1, 3, 4, 6])
    p = rnd.choice([1, 2, 3, 5])
    t = rnd.choice([1, 2, 3])
    pool = [1, 2, 3, 5, 8, 13, 21, 32, 50, 64, 65, 100, 128, 130] + ([49, 103, 98, 107] * 3 if want_bad else [])
    nf = rnd.choice(pool)
    steps = []
    n = nf
    for s in range(rnd.randint(0, 4)):
        k = rnd.choice([x for x in pool if x <= n] + [1])
        steps.append(dict(rule=rnd.choice(["top", "bottom", "rand", "first", "last", "randdup", "all", "one", "index"]), k=k,
                          trait=rnd.randrange(3), ixtype=rnd.choice(["list", "ndarray"]), proto=None))
    return dict(ploidy=ploidy, xoprob=[0.5] * p, u=_dyadic_effects(rnd, p, t, rnd.choice(["mixed", "any", "neg", "pos"])),
                beta=_beta(rnd, t), exact=True, founders=dict(n=nf, seed=rnd.randrange(10 ** 6),
                                                               modes=[rnd.choice(FOUNDER_MODES) for _ in range(p)]),
                seed=rnd.randrange(10 ** 6), steps=steps)


def _fixed_case(rnd, n, ploidy, self_step):
    """a population in which every individual carries the same homozygous genotype"""
    p = rnd.choice([1, 2, 3, 4, 6])
    t = rnd.choice([1, 2, 3])
    hap = [rnd.choice([0, 1, 1]) for _ in range(p)]
    if rnd.random() < 0.3:
        hap = [1] * p
    modes = ["fix1" if a else "fix0" for a in hap]
    steps = []
    if self_step and ploidy == 2:
        proto = rnd.choice(["SelfCross", "TwoWayDHCross", "mat_dh", "FourWayCross"])
        steps.append(dict(rule="all", ixtype="ndarray", proto=proto, ncross=n, nmating=1, nprogeny=1, nself=0,
                          keep=False, style="sub", rng="gen"))
    return dict(ploidy=ploidy, xoprob=[0.5] * p, u=_dyadic_effects(rnd, p, t, rnd.choice(["mixed", "any", "pos", "neg"])),
                beta=_beta(rnd, t), exact=True, founders=dict(n=n, seed=rnd.randrange(10 ** 6), modes=modes),
                seed=rnd.randrange(10 ** 6), steps=steps)


def gen_histories(rnd, tier, which):
    """which: 'protocols-small' | 'protocols-large' | 'kernels-polyploid'"""
    if which == "protocols-small":
        n_cases = 1400 if tier == "quick" else 25000
        for c in range(n_cases):
            while True:
                case = _history(rnd, big=False, want_bad=False, protos=list(PROTOCOLS))
                if not has_bad_size(case):
                    break
            yield case
    elif which == "protocols-large":
        n_cases = 300 if tier == "quick" else 6000
        for c in range(n_cases):
            while True:
                case = _history(rnd, big=True, want_bad=False, protos=list(PROTOCOLS) + ["mat_mate"], max_steps=6)
                if not has_bad_size(case):
                    break
            yield case
    else:
        n_cases = 1400 if tier == "quick" else 25000
        for c in range(n_cases):
            while True:
                if c % 2 == 0:
                    case = _history(rnd, big=(c % 10 == 0), want_bad=False, protos=list(KERNELS), max_steps=6)
                else:
                    case = _polyploid(rnd, want_bad=False)
                if not has_bad_size(case):
                    break
            yield case


def gen_fixed(rnd, tier):
    top = 140 if tier == "quick" else 420
    for n in range(1, top + 1):
        for ploidy in (1, 2, 3, 4):
            if bad_denominator(ploidy * n):
                continue
            if tier == "quick" and n > 70 and (n + ploidy) % 3:
                continue
            yield _fixed_case(rnd, n, ploidy, self_step=(n <= 130 and rnd.random() < 0.25))


def gen_rounding(rnd, tier):
    """histories in which at least one population has a rounding-prone denominator ploidy*n"""
    # (i) fixed populations of exactly the rounding-prone sizes
    dens = [d for d in range(1, 420 if tier == "quick" else 2000) if bad_denominator(d)]
    for d in dens:
        for ploidy in (1, 2, 4):
            if d % ploidy == 0 and d // ploidy <= 520:
                yield _fixed_case(rnd, d // ploidy, ploidy, self_step=False)
    # (ii) a clean population followed by a selected set / progeny of a rounding-prone size
    for n_bad in (49, 103, 98, 107):
        for rule in ("first", "top", "rand"):
            p = 4
            yield dict(ploidy=2, xoprob=[0.5, 0.3, 0.5, 0.1], u=[[1.0, -1.0], [-0.5, 2.0], [0.25, 0.0], [-3.0, -0.125]],
                       beta=[[1.0, 0.0]], exact=True,
                       founders=dict(n=130, seed=rnd.randrange(10 ** 6), modes=["fix1", "fix1", "rand", "fix0"]),
                       seed=rnd.randrange(10 ** 6),
                       steps=[dict(rule=rule, k=n_bad, ixtype="list", proto="TwoWayCross", ncross=8, nmating=1, nprogeny=8,
                                   nself=0, keep=False, style="sub", rng="gen"),
                              dict(rule="all", ixtype="list", proto="TwoWayDHCross", ncross=n_bad, nmating=1, nprogeny=1,
                                   nself=0, keep=False, style="sub", rng="rs")])
    # (iii) random histories through such sizes
    n_cases = 40 if tier == "quick" else 600
    for c in range(n_cases):
        while True:
            case = _history(rnd, big=True, want_bad=True, max_steps=5) if c % 3 else _polyploid(rnd, want_bad=True)
            if has_bad_size(case):
                break
        yield case


def gen_exhaustive(rnd, tier, maters=None):
    """every founder population of a small scope, every sign pattern of the effects (one trait column per
    pattern), every selection of <= 2 parents (with repetition), every mating routine, scripted crossovers"""
    import itertools
    maters = list(maters or ALL_MATERS)
    scopes = [(1, 1, 1.0), (2, 1, 1.0), (1, 2, 1.0), (2, 2, 0.02 if tier == "quick" else 1.0), (3, 1, 0.04 if tier == "quick" else 1.0)]
    if tier != "quick":
        scopes += [(1, 3, 1.0), (3, 2, 0.005), (2, 3, 0.01)]
    patterns = [[0.0], [0.999], [0.0, 0.999], [0.999, 0.0, 0.0]]
    for n, p, frac in scopes:
        signs = list(itertools.product((-1, 0, 1), repeat=p))
        u = [[s[j] * (4.0 ** j) / 8.0 for s in signs] for j in range(p)]
        beta = [[0.0] * len(signs)]
        sels = [[i] for i in range(n)] + [[i, k] for i in range(n) for k in range(n)]
        xos = {1: [[0.5]], 2: [[0.5, 0.5], [0.5, 0.0], [1.0, 1.0]], 3: [[0.5, 0.5, 0.5], [0.5, 0.0, 1.0]]}[p]
        for bits in itertools.product((0, 1), repeat=2 * n * p):
            mat = [[[bits[(m * n + i) * p + j] for j in range(p)] for i in range(n)] for m in range(2)]
            for idx in sels:
                for proto in maters:
                    for pi, pat in enumerate(patterns):
                        if frac < 1.0 and rnd.random() >= frac:
                            continue
                        npar = nparent_of(proto)
                        xc = [[(v % len(idx)) for v in range(npar)], [((v + 1) % len(idx)) for v in range(npar)]]
                        yield dict(ploidy=2, xoprob=xos[(pi + len(idx)) % len(xos)], u=u, beta=beta, exact=True,
                                   founders=dict(mat=mat), seed=0,
                                   steps=[dict(idx=idx, ixtype="list", proto=proto, xconfig=xc, nmating=1, nprogeny=2,
                                               nself=(pi % 2) if proto in PROTOCOLS else 0, keep=False,
                                               style="sub" if pi % 2 else "full", rng="script", pattern=pat),
                                          dict(rule="one", ixtype="ndarray", proto="SelfCross" if pi < 2 else "mat_dh",
                                               ncross=1, nmating=1, nprogeny=2, nself=0, keep=(pi == 3), style="sub",
                                               rng="script", pattern=patterns[(pi + 1) % 4])])


# ---------------------------------------------------------------------------
# units
def _sample(case):
    f = case["founders"]
    return dict(ploidy=case.get("ploidy", 2), sizes=chain_sizes(case), markers=len(case["xoprob"]),
                traits=len(case["beta"][0]), protos=[st.get("proto") for st in case["steps"]],
                rules=[st.get("rule", "idx") for st in case["steps"]], exact=case.get("exact", True))


def _drive(ctx, cases, budget_s):
    import time
    t0, c0 = time.time(), time.process_time()
    per_cls = {}
    for case in cases:
        bad, msg, cls = run_case3(case)
        ctx.case(key=repr(sorted(case.items(), key=str)),
                 nontrivial=bool(case["steps"]) or any(any(x != 0 for x in row) for row in case["u"]),
                 sample=_sample(case))
        if bad:
            per_cls[cls] = per_cls.get(cls, 0) + 1
            if per_cls[cls] <= 3:            # cap 3 per class, keep searching for OTHER classes
                ctx.fail_input("ring:%s" % cls, case, cls=cls, message=msg)
            if len(ctx.failures) >= 12:
                break
        # the budget is CPU time (case counts stay comparable on a loaded machine), with a wall-clock guard
        if time.process_time() - c0 > budget_s or time.time() - t0 > 1.6 * budget_s:
            ctx.notes.append("time budget reached after %d cases" % ctx.evaluations)
            break
    if per_cls:
        ctx.notes.append("failing cases per class: %r" % (per_cls,))


def _shuffled(rnd, cases):
    """enumerate first, then visit in a seeded random order, so that a time cut-off thins every scope evenly"""
    cases = list(cases)
    rnd.shuffle(cases)
    return cases


def _budget(ctx):
    return 40 if ctx.tier == "quick" else 440


N1 = "ring[closed histories, seven protocols, small populations]"
N2 = "ring[closed histories, populations 20..130 (int8 range, sizes 64/100/128)]"
N3 = "ring[closed histories, mat_mate/mat_dh kernels; ploidy 1/3/4/6 selection-only]"
N4 = "ring[fixed populations of every size]"
N5 = "ring[small-scope exhaustive founders x sign patterns x one outcross/self + selfing]"
N5B = "ring[small-scope exhaustive founders x sign patterns x one DH cross + selfing]"
N6 = "ring[rounding-prone population sizes 49/98/103/107...]"

RULE = ("seeded random closed histories (founder loci drawn from fixed/rare/half/heterozygous modes, effects dyadic with "
        "both signs and exact zeros or generic floats, <= 6 select-then-mate steps, ten selection rules, scripted and seeded "
        "generators); every population of the chain is observed through 7 reporting routes + unscale; a case is "
        "non-trivial if it has >= 1 step or a non-zero effect; distinct by its full input")


@unit(P, N1, "R", bounded=True,
      note="bounded: founders <= 12, markers <= 12, traits <= 3, <= 6 generations, counts <= 6x2x4; quick 1400 / thorough 25000 seeded histories")
def u_ring_small(ctx):
    ctx.rule = RULE
    _drive(ctx, gen_histories(ctx.rng, ctx.tier, "protocols-small"), _budget(ctx))


@unit(P, N2, "R", bounded=True,
      note="bounded: founders 20..130, progeny sets up to 130 (+parents), <= 6 generations; quick 300 / thorough 6000 seeded histories; "
           "sizes with ploidy*n in the rounding-prone set are generated in their own unit")
def u_ring_large(ctx):
    ctx.rule = RULE
    _drive(ctx, gen_histories(ctx.rng, ctx.tier, "protocols-large"), _budget(ctx))


@unit(P, N3, "R", bounded=True,
      note="bounded: kernels on <= 130 individuals, <= 6 generations; polyploid selection-only chains of <= 4 nested selections, n <= 130; "
           "quick 1400 / thorough 25000 seeded cases")
def u_ring_kernels(ctx):
    ctx.rule = RULE + "; odd cases: ploidy 1/3/4/6 phased+unphased matrices under nested selections"
    _drive(ctx, gen_histories(ctx.rng, ctx.tier, "kernels-polyploid"), _budget(ctx))


@unit(P, N4, "R", bounded=True,
      note="bounded: n = 1..140 (quick, thinned above 70) / 1..420 (thorough), ploidy 1..4, <= 6 markers, <= 3 traits; denominators "
           "ploidy*n in the rounding-prone set are generated in their own unit")
def u_ring_fixed(ctx):
    ctx.rule = ("every population size in range x ploidy 1..4: all individuals carry one homozygous genotype (random, often all-1 so "
                "that allele sums reach ploidy*n > 127), optionally selfed/DH'd once; limits must equal the common value exactly")
    _drive(ctx, gen_fixed(ctx.rng, ctx.tier), _budget(ctx))


EXH_NOTE = ("bounded: diploid founders (n,p) in {(1,1),(2,1),(1,2)} exhaustive, (3,1) sampled 4% quick / exhaustive thorough, (2,2) sampled 2% "
            "quick / exhaustive thorough, (1,3) exhaustive and (3,2) 0.5%, (2,3) 1% sampled in thorough; all 3^p sign patterns; "
            "4 scripted crossover patterns; mating routines: ")
EXH_RULE = ("exhaustive enumeration of 0/1 founder matrices, all effect sign patterns in {-,0,+}^p as trait columns with "
            "distinct magnitudes 4^j/8, every selection of <= 2 parents with repetition, every mating routine of the unit, four "
            "scripted crossover patterns, followed by selecting one individual and selfing / doubling it")
EXH_A = ["SelfCross", "TwoWayCross", "ThreeWayCross", "FourWayCross", "mat_mate"]
EXH_B = ["TwoWayDHCross", "ThreeWayDHCross", "FourWayDHCross", "mat_dh"]


@unit(P, N5, "R", bounded=True, note=EXH_NOTE + ", ".join(EXH_A))
def u_ring_exhaustive_a(ctx):
    ctx.rule = EXH_RULE
    _drive(ctx, _shuffled(ctx.rng, gen_exhaustive(ctx.rng, ctx.tier, EXH_A)), _budget(ctx))


@unit(P, N5B, "R", bounded=True, note=EXH_NOTE + ", ".join(EXH_B))
def u_ring_exhaustive_b(ctx):
    ctx.rule = EXH_RULE
    _drive(ctx, _shuffled(ctx.rng, gen_exhaustive(ctx.rng, ctx.tier, EXH_B)), _budget(ctx))


@unit(P, N6, "R", bounded=True,
      note="bounded: denominators ploidy*n < 420 (quick) / < 2000 (thorough) with (1/d)*d != 1, fixed populations; chains 130 -> 49/98/103/107; "
           "40 / 600 seeded histories through such sizes")
def u_ring_rounding(ctx):
    ctx.rule = ("populations whose denominator ploidy*n makes (1/(ploidy*n))*count round below 1 at fixation: fixed populations of those "
                "sizes, clean populations followed by such a size, random histories through such sizes; the route fed with exactly "
                "divided counts must hold everywhere")
    _drive(ctx, gen_rounding(ctx.rng, ctx.tier), _budget(ctx))


REPLAYERS = {N1: _replay, N2: _replay, N3: _replay, N4: _replay, N5: _replay, N5B: _replay, N6: _replay}
