"""C12 -- native bounded ring (mode R): progeny variance / covariance matrices
versus an exhaustive gamete-enumeration oracle.

Oracle (written from the property statement, not from the library formula):
all 2^p marker haplotypes are enumerated.  One meiosis of a diploid individual
(x, y) produces haplotype z with probability  sum_m M(m) [z = x where m=0, y
where m=1],  where the mosaic pattern m is a Markov chain along each chromosome
(switch between neighbouring markers with the exact Haldane probability
r = (1 - exp(-2 d)) / 2, the no-interference map) and independent between
chromosomes (r = 1/2), first marker from either copy with probability 1/2.
The cross scheme is enumerated literally at the level of individuals:

  2-way     F1 = (A, B)
  3-way     F1 = (R, gamete of (F, M))
  4-way     F1 = (gamete of (F2, M2), gamete of (F1, M1))
  dihybrid  F1 = (gamete of female, gamete of male)        (phased, heterozygous parents)

then `nself` generations of selfing act on the distribution over individuals
(child = two independent gametes of the SAME parent individual), then one gamete
is drawn and doubled (DH line, genotype 2*z, value 2*z.u).  nself = inf is the
limit distribution of the selfing chain (iterated until the heterozygous mass is
< 1e-14).  Variance / between-trait covariance are those of the enumerated
distribution; the genic counterpart is the sum over loci of the per-locus
(co)variances of the same distribution (linkage ignored).

Only this file belongs to the ring; it runs the real code from $PYBROPS_REPO.
"""
import math
import time
import itertools
import statistics

import numpy

from pyvc.unit import unit

P = "C12"

TOL_ORACLE = 1e-9      # closed form vs enumeration (floating point sums in different order)
TOL_SAME = 1e-12       # same quantity computed by the library along two routes
TOL_UC = 1e-7          # sqrt amplifies rounding near zero variance

SCHEME_WORD = {"2way": "TwoWay", "3way": "ThreeWay", "4way": "FourWay", "dihybrid": "Dihybrid"}
NPAR = {"2way": 2, "3way": 3, "4way": 4, "dihybrid": 2}
FAMILY_FMT = {
    "vmat.genetic": ("pybrops.model.vmat", "Dense%sDHAdditiveGeneticVarianceMatrix"),
    "vmat.genic": ("pybrops.model.vmat", "Dense%sDHAdditiveGenicVarianceMatrix"),
    "pcvmat.genetic": ("pybrops.model.pcvmat", "Dense%sDHAdditiveProgenyGeneticCovarianceMatrix"),
    "pcvmat.genic": ("pybrops.model.pcvmat", "Dense%sDHAdditiveProgenyGenicCovarianceMatrix"),
}


# --------------------------------------------------------------------------
# oracle: exhaustive gamete enumeration
# --------------------------------------------------------------------------
def haldane_r(d):
    """recombination probability of the no-interference (Haldane) map"""
    return 0.5 * (1.0 - math.exp(-2.0 * abs(d)))


class Enum:
    """exhaustive enumeration machinery for p markers; `order` is the order of
    the markers along the genome, `rj[k]` the recombination probability between
    order[k] and order[k+1]"""

    def __init__(self, p, order, rj):
        self.p = p
        self.H = H = 1 << p
        # probability of every mosaic pattern of one meiosis
        M = [0.0] * H
        for m in range(H):
            pr = 0.5 if p > 0 else 1.0
            for k in range(1, p):
                a = (m >> order[k - 1]) & 1
                b = (m >> order[k]) & 1
                pr *= rj[k - 1] if a != b else (1.0 - rj[k - 1])
            M[m] = pr
        self.M = M
        # G[x, y, z] = P(gamete z | individual (x, y))
        X, Y = numpy.meshgrid(numpy.arange(H), numpy.arange(H), indexing="ij")
        G = numpy.zeros((H, H, H))
        for m in range(H):
            Z = (X & ~m) | (Y & m)
            G[X, Y, Z] += M[m]
        self.G = G
        self.G2 = G.reshape(H * H, H)

    @classmethod
    def from_map(cls, chrgrp, genpos):
        p = len(chrgrp)
        order = sorted(range(p), key=lambda i: (chrgrp[i], genpos[i], i))
        rj = []
        for k in range(1, p):
            a, b = order[k - 1], order[k]
            rj.append(haldane_r(genpos[a] - genpos[b]) if chrgrp[a] == chrgrp[b] else 0.5)
        return cls(p, order, rj)

    def self_step(self, I):
        H = self.H
        return self.G2.T @ (I.reshape(H * H, 1) * self.G2)

    def gametes_after(self, I, nself):
        """I: distribution over F1 individuals (H,H); returns the distribution
        (H,) of one gamete of a random individual after nself selfings"""
        if nself == math.inf:
            for _ in range(400):
                if I.sum() - numpy.trace(I) < 1e-14:
                    break
                I = self.self_step(I)
            d = numpy.diag(I).copy()
            return d / d.sum()
        for _ in range(int(nself)):
            I = self.self_step(I)
        return numpy.einsum("xy,xyz->z", I, self.G)

    def f1(self, scheme, hc, idx):
        """distribution over F1 individuals of the cross `idx` (library axis order)"""
        H, G = self.H, self.G
        I = numpy.zeros((H, H))
        if scheme == "2way":
            a, b = idx
            I[hc[a], hc[b]] = 1.0
        elif scheme == "3way":                       # (recurrent, female, male)
            r, f, m = idx
            I[hc[r], :] = G[hc[f], hc[m]]
        elif scheme == "4way":                       # (female2, male2, female1, male1)
            a, b, c, d = idx
            I = numpy.outer(G[hc[a], hc[b]], G[hc[c], hc[d]])
        elif scheme == "dihybrid":                   # hc[i] = (phase0 code, phase1 code)
            f, m = idx
            I = numpy.outer(G[hc[f][0], hc[f][1]], G[hc[m][0], hc[m][1]])
        else:
            raise ValueError(scheme)
        return I


def hap_code(h):
    return sum((int(b) & 1) << i for i, b in enumerate(h))


def moments(g, u):
    """mean vector, covariance matrix and genic (linkage ignored) covariance
    matrix of the DH progeny values 2*z.u under the haplotype distribution g"""
    p, t = len(u), len(u[0])
    H = len(g)
    vals = [[0.0] * t for _ in range(H)]
    for z in range(H):
        for i in range(p):
            if (z >> i) & 1:
                for k in range(t):
                    vals[z][k] += 2.0 * u[i][k]
    mean = [sum(g[z] * vals[z][k] for z in range(H)) for k in range(t)]
    cov = [[0.0] * t for _ in range(t)]
    for z in range(H):
        gz = float(g[z])
        if gz == 0.0:
            continue
        for k in range(t):
            dk = vals[z][k] - mean[k]
            for l in range(t):
                cov[k][l] += gz * dk * (vals[z][l] - mean[l])
    gen = [[0.0] * t for _ in range(t)]
    for i in range(p):
        q = sum(float(g[z]) for z in range(H) if (z >> i) & 1)       # P(allele 1 at locus i)
        for k in range(t):
            for l in range(t):
                gen[k][l] += (2.0 * u[i][k]) * (2.0 * u[i][l]) * q * (1.0 - q)
    return numpy.array(mean), numpy.array(cov), numpy.array(gen)


# --------------------------------------------------------------------------
# building the real objects
# --------------------------------------------------------------------------
def _nself(case):
    return math.inf if case["nself"] == "inf" else int(case["nself"])


def _phases(case):
    """(2,n,p) int8 genotype array from the case"""
    hap = case["hap"]
    if case["scheme"] == "dihybrid":
        return numpy.array([hap[0], hap[1]], dtype="int8")
    h = numpy.array(hap, dtype="int8")
    return numpy.stack([h, h])


def build_pgmat(case, perm=None):
    from pybrops.popgen.gmat.DensePhasedGenotypeMatrix import DensePhasedGenotypeMatrix
    mat = _phases(case)
    n, p = mat.shape[1], mat.shape[2]
    taxa = numpy.array(["T%02d" % i for i in range(n)], dtype=object)
    taxa_grp = numpy.array([(7 * i + 3) % 11 for i in range(n)], dtype="int64")
    if perm is not None:
        mat = mat[:, perm, :]
        taxa = taxa[perm]
        taxa_grp = taxa_grp[perm]
    labels = case.get("labels", True)
    pg = DensePhasedGenotypeMatrix(
        mat=numpy.ascontiguousarray(mat),
        taxa=taxa if labels else None,
        taxa_grp=taxa_grp if labels else None,
        vrnt_chrgrp=numpy.array(case["chrgrp"], dtype="int64"),
        vrnt_phypos=numpy.arange(1, p + 1, dtype="int64") * 100,
        vrnt_name=numpy.array(["m%02d" % i for i in range(p)], dtype=object),
        vrnt_genpos=numpy.array(case["genpos"], dtype=float),
        vrnt_xoprob=numpy.full(p, 0.25),
        ploidy=2,
    )
    pg.group_vrnt()
    return pg


def build_model(case):
    from pybrops.model.gmod.DenseAdditiveLinearGenomicModel import DenseAdditiveLinearGenomicModel
    u = numpy.array(case["u"], dtype=float)
    t = u.shape[1]
    beta = numpy.array([case.get("beta", [0.0] * t)], dtype=float)
    return DenseAdditiveLinearGenomicModel(
        beta=beta, u_misc=None, u_a=u,
        trait=numpy.array(["trait%d" % k for k in range(t)], dtype=object))


def lib_class(family, scheme):
    import importlib
    pkg, fmt = FAMILY_FMT[family]
    name = fmt % SCHEME_WORD[scheme]
    return getattr(importlib.import_module(pkg + "." + name), name)


class poisoned_empty:
    """numpy.empty returns unspecified memory; inside this block every float
    array obtained through `numpy.empty` is filled with NaN so that an entry
    the library never assigns is observable deterministically"""

    def __enter__(self):
        self.orig = orig = numpy.empty

        def empty(*a, **k):
            out = orig(*a, **k)
            if out.dtype.kind == "f":
                out.fill(numpy.nan)
            return out
        numpy.empty = empty
        return self

    def __exit__(self, *exc):
        numpy.empty = self.orig
        return False


def call_lib(case, pg, gm, mem):
    """the real from_algmod of the class named by the case"""
    from pybrops.popgen.gmap.HaldaneMapFunction import HaldaneMapFunction
    cls = lib_class(case["family"], case["scheme"])
    with poisoned_empty():
        if case["family"].endswith("genic"):
            return cls.from_algmod(gm, pg, int(case.get("nprogeny", 10)), mem=mem)
        return cls.from_algmod(gm, pg, int(case.get("nmating", 1)), int(case.get("nprogeny", 10)),
                               _nself(case), HaldaneMapFunction(), mem=mem)


class Oracle:
    def __init__(self, case, pg):
        # read the map and genotypes as the library sees them (after grouping)
        self.scheme = case["scheme"]
        self.family = case["family"] if "family" in case else "vmat.genetic"
        self.en = Enum.from_map([int(c) for c in pg.vrnt_chrgrp], [float(x) for x in pg.vrnt_genpos])
        mat = pg.mat
        n = mat.shape[1]
        if self.scheme == "dihybrid":
            self.hc = [(hap_code(mat[0, i]), hap_code(mat[1, i])) for i in range(n)]
        else:
            self.hc = [hap_code(mat[0, i]) for i in range(n)]
        self.u = [[float(x) for x in row] for row in case["u"]]
        self.nself = _nself(case)
        self.cache = {}

    def moments(self, idx):
        idx = tuple(int(i) for i in idx)
        if idx not in self.cache:
            g = self.en.gametes_after(self.en.f1(self.scheme, self.hc, idx), self.nself)
            self.cache[idx] = moments(g, self.u)
        return self.cache[idx]

    def entry(self, idx, family=None):
        mean, cov, gen = self.moments(idx)
        family = family or self.family
        if family == "vmat.genetic":
            return numpy.diag(cov).copy()
        if family == "vmat.genic":
            return numpy.diag(gen).copy()
        if family == "pcvmat.genetic":
            return cov
        return gen


def all_tuples(scheme, n):
    return list(itertools.product(range(n), repeat=NPAR[scheme]))


def degenerate(idx):
    """the last two parents are the same taxon index (the entries the library's
    lower-triangle loops never visit)"""
    return idx[-1] == idx[-2]


def close(a, b, tol):
    a = numpy.asarray(a, dtype=float)
    b = numpy.asarray(b, dtype=float)
    if a.shape != b.shape:
        return False
    scale = 1.0 + float(numpy.max(numpy.abs(b))) if b.size and numpy.all(numpy.isfinite(b)) else 1.0
    d = numpy.abs(a - b)
    return bool(numpy.all(d <= tol * scale))       # NaN -> False


def _arr_eq(a, b):
    if a is None or b is None:
        return a is None and b is None
    a, b = numpy.asarray(a), numpy.asarray(b)
    return a.shape == b.shape and bool(numpy.all(a == b))


# --------------------------------------------------------------------------
# one case on the real code
# --------------------------------------------------------------------------
def _key(case):
    return "%s.%s" % (case.get("family", case.get("kind")), case.get("scheme", ""))


def _tuples_of(case, n, want_degenerate):
    tl = case.get("tuples")
    tl = [tuple(x) for x in tl] if tl is not None else all_tuples(case["scheme"], n)
    return [x for x in tl if degenerate(x) == want_degenerate]


def run_matrix(case):
    """returns (failures, nontrivial); failures = list of (cls, message)"""
    fam, scheme, clause = case["family"], case["scheme"], case["clause"]
    key = "%s.%s" % (fam, scheme)
    pg = build_pgmat(case)
    gm = build_model(case)
    n = pg.ntaxa
    t = len(case["u"][0])
    npar = NPAR[scheme]
    mem = case.get("mem")
    try:
        out = call_lib(case, pg, gm, mem)
        mat = out.mat
    except Exception as e:
        return [("%s:crash" % key, "from_algmod raised %s: %s" % (type(e).__name__, e))], True
    want_shape = (n,) * npar + ((t,) if fam.startswith("vmat") else (t, t))
    if tuple(mat.shape) != want_shape:
        return [("%s:shape" % key, "mat.shape %s, expected %s" % (tuple(mat.shape), want_shape))], True
    fails = []
    nontrivial = False

    if clause in ("oracle", "degenerate"):
        orc = Oracle(case, pg)
        for idx in _tuples_of(case, n, clause == "degenerate"):
            exp = orc.entry(idx)
            if numpy.any(numpy.abs(exp) > 1e-12):
                nontrivial = True
            got = mat[idx]
            if not close(got, exp, TOL_ORACLE):
                fails.append(("%s:%s" % (key, clause),
                              "cross %s nself=%s mem=%s: library %s, gamete enumeration %s"
                              % (list(idx), case["nself"], mem, numpy.asarray(got).tolist(), exp.tolist())))
                if len(fails) >= 2:
                    break
        if clause == "oracle":
            if not (_arr_eq(out.taxa, pg.taxa) and _arr_eq(out.taxa_grp, pg.taxa_grp)):
                fails.append(("%s:labels" % key, "taxa/taxa_grp of the result differ from the input's: %s %s"
                              % (out.taxa, out.taxa_grp)))

    elif clause == "identical":
        # parents listed in case['same'] are genetically identical (and homozygous)
        same = case["same"]
        for idx in itertools.product(same, repeat=npar):
            nontrivial = True
            got = numpy.asarray(mat[idx])
            if not bool(numpy.all(got == 0.0)):
                fails.append(("%s:%s" % (key, "identical" if not degenerate(idx) else "degenerate"),
                              "cross %s of genetically identical parents: %s, expected exactly 0"
                              % (list(idx), got.tolist())))
                break

    elif clause == "chunk":
        nontrivial = bool(numpy.any(numpy.nan_to_num(mat) != 0.0))
        for m2 in case["mems"]:
            try:
                mat2 = call_lib(case, pg, gm, m2).mat
            except Exception as e:
                return [("%s:crash" % key, "from_algmod(mem=%s) raised %s: %s" % (m2, type(e).__name__, e))], True
            for idx in _tuples_of(case, n, False):
                if not close(mat2[idx], mat[idx], TOL_SAME):
                    fails.append(("%s:chunk" % key, "cross %s: mem=%s gives %s, mem=%s gives %s"
                                  % (list(idx), m2, numpy.asarray(mat2[idx]).tolist(), mem,
                                     numpy.asarray(mat[idx]).tolist())))
                    break
            if fails:
                break

    elif clause == "perm":
        perm = case["perm"]
        pg2 = build_pgmat(case, perm=perm)
        try:
            out2 = call_lib(case, pg2, gm, mem)
        except Exception as e:
            return [("%s:crash" % key, "from_algmod raised %s: %s" % (type(e).__name__, e))], True
        nontrivial = perm != sorted(perm) and bool(numpy.any(numpy.nan_to_num(mat) != 0.0))
        if not (_arr_eq(out2.taxa, pg2.taxa) and _arr_eq(out2.taxa_grp, pg2.taxa_grp)):
            fails.append(("%s:labels" % key, "taxa labels after permutation %s: %s" % (perm, out2.taxa)))
        for idx in _tuples_of(case, n, False):
            src = tuple(perm[i] for i in idx)
            if not close(out2.mat[idx], mat[src], TOL_SAME):
                fails.append(("%s:perm" % key, "taxa reordered by %s: entry %s is %s, original entry %s is %s"
                              % (perm, list(idx), numpy.asarray(out2.mat[idx]).tolist(), list(src),
                                 numpy.asarray(mat[src]).tolist())))
                break

    elif clause == "symmetry":
        nontrivial = bool(numpy.any(numpy.nan_to_num(mat) != 0.0))
        for idx in _tuples_of(case, n, False):
            if scheme in ("2way", "dihybrid"):
                others = [(idx[1], idx[0])]
            elif scheme == "3way":
                others = [(idx[0], idx[2], idx[1])]
            else:
                a, b, c, d = idx
                others = [(a, b, d, c), (b, a, c, d), (c, d, a, b), (d, c, b, a)]
            for o in others:
                if degenerate(o):
                    continue
                if not close(mat[o], mat[idx], TOL_SAME):
                    fails.append(("%s:symmetry" % key, "entry %s = %s but exchanged-parent entry %s = %s"
                                  % (list(idx), numpy.asarray(mat[idx]).tolist(), list(o),
                                     numpy.asarray(mat[o]).tolist())))
                    break
            if fails:
                break
        if fam.startswith("pcvmat"):
            # between-trait covariance is symmetric in the two trait axes
            for idx in _tuples_of(case, n, False):
                if not close(numpy.asarray(mat[idx]).T, mat[idx], TOL_SAME):
                    fails.append(("%s:symmetry" % key, "entry %s not symmetric in the trait axes: %s"
                                  % (list(idx), numpy.asarray(mat[idx]).tolist())))
                    break

    elif clause in ("factory", "factory-nomem"):
        import importlib
        from pybrops.popgen.gmap.HaldaneMapFunction import HaldaneMapFunction
        cls = lib_class(fam, scheme)
        fname = cls.__name__ + "Factory"
        Fc = getattr(importlib.import_module("pybrops.model.vmat.fcty." + fname), fname)
        fc = Fc()
        hf = HaldaneMapFunction()
        nm, npg, ns = int(case.get("nmating", 1)), int(case.get("nprogeny", 10)), _nself(case)
        routes = []
        try:
            with poisoned_empty():
                if clause == "factory-nomem":
                    routes.append(("factory.from_gmod(no mem)", fc.from_gmod(gm, pg, npg)))
                elif fam.endswith("genic"):
                    routes.append(("factory.from_gmod", fc.from_gmod(gm, pg, npg, mem=mem)))
                    routes.append(("factory.from_algmod", fc.from_algmod(gm, pg, npg, mem=mem)))
                    routes.append(("class.from_gmod", cls.from_gmod(gm, pg, npg, mem=mem)))
                else:
                    routes.append(("factory.from_gmod", fc.from_gmod(gm, pg, nm, npg, ns, hf)))
                    routes.append(("factory.from_gmod(mem)", fc.from_gmod(gm, pg, nm, npg, ns, hf, mem=mem)))
                    routes.append(("factory.from_algmod", fc.from_algmod(gm, pg, nm, npg, ns, hf, mem=mem)))
                    routes.append(("factory.from_algmod(kw)", fc.from_algmod(algmod=gm, pgmat=pg, ncross=nm, nprogeny=npg,
                                                                              nself=ns, gmapfn=hf)))
                    routes.append(("class.from_gmod", cls.from_gmod(gm, pg, nm, npg, ns, hf, mem=mem)))
        except Exception as e:
            return [("%s:%s" % (key, "factory-crash" if clause == "factory" else "factory-from_gmod-requires-mem"),
                     "%s raised %s: %s" % (fname, type(e).__name__, e))], True
        orc = Oracle(case, pg)
        for rname, o in routes:
            if not isinstance(o, cls):
                fails.append(("%s:factory" % key, "%s returned %s" % (rname, type(o).__name__)))
                continue
            if not (_arr_eq(o.taxa, pg.taxa) and _arr_eq(o.taxa_grp, pg.taxa_grp)):
                fails.append(("%s:factory" % key, "%s: taxa labels differ from the input's" % rname))
            for idx in _tuples_of(case, n, False):
                exp = orc.entry(idx)
                if numpy.any(numpy.abs(exp) > 1e-12):
                    nontrivial = True
                if not close(o.mat[idx], exp, TOL_ORACLE):
                    fails.append(("%s:factory" % key, "%s cross %s nself=%s: %s, gamete enumeration %s"
                                  % (rname, list(idx), case["nself"], numpy.asarray(o.mat[idx]).tolist(), exp.tolist())))
                    break
    else:
        raise ValueError("unknown clause %r" % clause)
    return fails, nontrivial


def _intensity(pct):
    """selection intensity of truncation selection of the upper fraction pct of
    a normal distribution: E[Z | Z > z] = pdf(z) / pct"""
    if pct >= 1.0:
        return 0.0
    nd = statistics.NormalDist()
    z = nd.inv_cdf(1.0 - pct)
    return nd.pdf(z) / pct


def _nondecreasing(n, k, strict):
    out = []
    for c in itertools.product(range(n), repeat=k):
        ok = all((c[i] < c[i + 1]) if strict else (c[i] <= c[i + 1]) for i in range(k - 1))
        if ok:
            out.append(list(c))
    return out


def run_uc(case):
    import importlib
    from pybrops.popgen.gmap.HaldaneMapFunction import HaldaneMapFunction
    from pybrops.breed.prot.sel.prob import UsefulnessCriterionSelectionProblem as U
    scheme, clause = case["scheme"], case["clause"]
    key = "uc.%s" % scheme
    c2 = dict(case)
    c2["family"] = "vmat.genetic"
    pg = build_pgmat(c2)
    gm = build_model(c2)
    n = pg.ntaxa
    t = len(case["u"][0])
    npar = NPAR[scheme]
    fname = "Dense%sDHAdditiveGeneticVarianceMatrixFactory" % SCHEME_WORD[scheme]
    fc = getattr(importlib.import_module("pybrops.model.vmat.fcty." + fname), fname)()
    hf = HaldaneMapFunction()
    nself = int(case["nself"])
    beta = case.get("beta", [0.0] * t)
    try:
        with poisoned_empty():
            if clause == "calc_uc":
                xmap = numpy.array(case["xmap"], dtype=int)
                intensity = float(case["intensity"])
                ucmat = U.UsefulnessCriterionSelectionProblemMixin._calc_uc(
                    fc, int(case.get("nmating", 1)), int(case.get("nprogeny", 10)), nself, hf, intensity, pg, gm, xmap)
                xm = xmap.tolist()
            else:
                unique = bool(case["unique"])
                want_xmap = _nondecreasing(n, npar, unique)
                nx = len(want_xmap)
                kind = case["prob"]
                Pc = {"subset": U.UsefulnessCriterionSubsetMateSelectionProblem,
                      "binary": U.UsefulnessCriterionBinaryMateSelectionProblem,
                      "integer": U.UsefulnessCriterionIntegerMateSelectionProblem,
                      "real": U.UsefulnessCriterionRealMateSelectionProblem}[kind]
                pct = float(case["pct"])
                intensity = _intensity(pct)
                if kind == "subset":
                    kw = dict(ndecn=min(2, nx), decn_space=numpy.arange(nx), decn_space_lower=0, decn_space_upper=nx - 1)
                elif kind == "real":
                    kw = dict(ndecn=nx, decn_space=numpy.stack([numpy.zeros(nx), numpy.ones(nx)]),
                              decn_space_lower=numpy.zeros(nx), decn_space_upper=numpy.ones(nx))
                else:
                    kw = dict(ndecn=nx, decn_space=numpy.stack([numpy.zeros(nx, dtype=int), numpy.ones(nx, dtype=int)]),
                              decn_space_lower=numpy.zeros(nx, dtype=int), decn_space_upper=numpy.ones(nx, dtype=int))
                prob = Pc.from_pgmat_gpmod(
                    nparent=npar, ncross=int(case.get("nmating", 1)), nprogeny=int(case.get("nprogeny", 10)), nself=nself,
                    upper_percentile=pct, vmatfcty=fc, gmapfn=hf, unique_parents=unique, pgmat=pg, gpmod=gm,
                    nobj=t, **kw)
                ucmat = prob.ucmat
                xm = numpy.asarray(prob.decn_space_xmap).tolist()
                if xm != want_xmap:
                    return [("%s:xmap" % key, "cross map %s, expected %s" % (xm, want_xmap))], True
    except Exception as e:
        return [("%s:crash" % key, "UC construction raised %s: %s" % (type(e).__name__, e))], True
    if tuple(ucmat.shape) != (len(xm), t):
        return [("%s:shape" % key, "ucmat.shape %s" % (tuple(ucmat.shape),))], True
    orc = Oracle(c2, pg)
    fails = []
    nontrivial = False
    want_deg = clause == "uc-degenerate"
    for row, idx in enumerate(xm):
        idx = tuple(idx)
        if clause != "calc_uc" and degenerate(idx) != want_deg and scheme != "2way":
            continue
        if clause == "calc_uc" and degenerate(idx) and scheme != "2way":
            continue
        mean, cov, gen = orc.moments(idx)
        var = numpy.maximum(numpy.diag(cov), 0.0)
        exp = numpy.array(beta) + mean + intensity * numpy.sqrt(var)
        if numpy.any(var > 1e-12) and intensity != 0.0:
            nontrivial = True
        if not close(ucmat[row], exp, TOL_UC):
            fails.append(("%s:%s" % (key, clause),
                          "cross %s nself=%s intensity=%r: ucmat row %s, expected parental mean %s + i*sqrt(var %s) = %s"
                          % (list(idx), nself, intensity, ucmat[row].tolist(), (numpy.array(beta) + mean).tolist(),
                             var.tolist(), exp.tolist())))
            if len(fails) >= 2:
                break
    return fails, nontrivial


def _as_form(rl, form):
    if form == "scalar":
        return float(rl[0])
    if form == "0d":
        return numpy.array(float(rl[0]))
    if form == "1d":
        return numpy.array(rl, dtype=float)
    a = numpy.array(rl, dtype=float)
    return numpy.stack([a, a[::-1]])              # 2d


def run_util(case):
    """rprob_filial / cov_D1s / cov_D2s (and the t=0 forms) versus two-locus
    enumeration: r_k = P(gamete of an F_k individual is recombinant), D1 =
    1 - 2 r_(nself+1), D2 = 1 - 4r + 4 r r_(nself+1) (definitions in the statement)"""
    from pybrops.model.vmat import util as vu
    rl = [float(x) for x in case["r"]]
    nself = _nself(case)
    form = case["form"]
    rk = []
    for r in rl:
        en = Enum(2, [0, 1], [r])
        I = numpy.zeros((4, 4))
        I[3, 0] = 1.0                                # F1 = (11, 00)
        g = en.gametes_after(I, nself)
        rk.append(float(g[1] + g[2]))                # recombinant haplotypes 01, 10
    exp_rk = _as_form(rk, form)
    rin = _as_form(rl, form)
    exp_D1 = 1.0 - 2.0 * numpy.asarray(exp_rk)
    exp_D2 = 1.0 - 4.0 * numpy.asarray(rin) + 4.0 * numpy.asarray(rin) * numpy.asarray(exp_rk)
    fails = []
    checks = [("rprob_filial", lambda x: vu.rprob_filial(x, nself + 1), exp_rk),
              ("cov_D1s", lambda x: vu.cov_D1s(x, nself), exp_D1),
              ("cov_D2s", lambda x: vu.cov_D2s(x, nself), exp_D2),
              ("cov_D1st", lambda x: vu.cov_D1st(x, nself, 0), exp_D1),
              ("cov_D2st", lambda x: vu.cov_D2st(x, nself, 0), exp_D2)]
    for name, fn, exp in checks:
        arg = _as_form(rl, form)
        keep = numpy.array(arg, copy=True)
        try:
            got = fn(arg)
        except Exception as e:
            fails.append(("util.%s:crash" % name, "%s(r=%s, nself=%s) raised %s: %s" % (name, rl, case["nself"], type(e).__name__, e)))
            continue
        if numpy.shape(got) != numpy.shape(exp) or not close(got, exp, 1e-12):
            fails.append(("util.%s:value" % name, "%s(r=%s (%s), nself=%s) = %s, two-locus enumeration gives %s"
                          % (name, rl, form, case["nself"], numpy.asarray(got).tolist(), numpy.asarray(exp).tolist())))
        if not bool(numpy.all(numpy.asarray(arg) == keep)):
            fails.append(("util.%s:mutates-input" % name, "%s changed its argument r" % name))
    return fails, any(0.0 < r < 0.5 for r in rl)


def run_srange(case):
    from pybrops.core.util.subroutines import srange
    lst, lsp, step = case["lst"], case["lsp"], case["step"]
    fails = []
    got = list(srange(lst, lsp, step))
    exp = []
    x = lst
    while x < lsp:
        exp.append(x)
        x += step
    exp.append(lsp)
    if got != exp:
        fails.append(("srange:value", "srange(%d,%d,%d) = %s, expected %s" % (lst, lsp, step, got, exp)))
    # the tiling idiom of every from_algmod: blocks must partition [lst, lsp)
    blocks = list(zip(range(lst, lsp, step), srange(lst + step, lsp, step)))
    covered = []
    for a, b in blocks:
        if not (a < b and b - a <= step):
            fails.append(("srange:tiling", "block (%d,%d) for (lst,lsp,step)=(%d,%d,%d)" % (a, b, lst, lsp, step)))
            break
        covered.extend(range(a, b))
    if not fails and covered != list(range(lst, lsp)):
        fails.append(("srange:tiling", "blocks %s do not tile [%d,%d) exactly once" % (blocks, lst, lsp)))
    return fails, lsp > lst


def _run(case):
    kind = case.get("kind", "matrix")
    if kind == "matrix":
        return run_matrix(case)
    if kind == "uc":
        return run_uc(case)
    if kind == "util":
        return run_util(case)
    if kind == "srange":
        return run_srange(case)
    raise ValueError(kind)


def run_case(case):
    """(violated, message) for one stored case; deterministic"""
    fails, _ = _run(case)
    if fails:
        return True, "; ".join("[%s] %s" % f for f in fails)
    return False, "ok"


def _replay(case):
    try:
        return run_case(case)
    except Exception as e:
        return True, "exception %s: %s" % (type(e).__name__, e)


# --------------------------------------------------------------------------
# case generation
# --------------------------------------------------------------------------
UVALS = [-2.0, -1.5, -1.0, -0.75, -0.5, -0.25, 0.0, 0.0, 0.125, 0.25, 0.5, 1.0, 1.25, 2.0, 3.0]


def gen_map(rng, p, nchr, style):
    """sorted chromosome labels and genetic positions (Morgans)"""
    nchr = max(1, min(nchr, p))
    cuts = sorted(rng.sample(range(1, p), nchr - 1)) if nchr > 1 else []
    bounds = [0] + cuts + [p]
    chrgrp, genpos = [], []
    for c in range(nchr):
        k = bounds[c + 1] - bounds[c]
        if style == "tight":
            pos = sorted(round(rng.uniform(0.0, 0.08), 4) for _ in range(k))
        elif style == "wide":
            pos = sorted(round(rng.uniform(0.0, 3.0), 3) for _ in range(k))
        elif style == "dup":                       # coincident markers (r = 0) and repeated positions
            base = [round(rng.uniform(0.0, 1.0), 3) for _ in range(max(1, (k + 1) // 2))]
            pos = sorted(rng.choice(base) for _ in range(k))
        elif style == "unsorted":                  # genetic order differs from storage order
            pos = [round(rng.uniform(0.0, 1.5), 3) for _ in range(k)]
        elif style == "grid":
            st = rng.choice([0.05, 0.1, 0.25, 0.5])
            pos = [round(0.3 + st * j, 3) for j in range(k)]
        else:
            pos = sorted(round(rng.uniform(0.0, 1.2), 3) for _ in range(k))
        chrgrp += [c + 1 + (2 if (c == 1 and style == "wide") else 0)] * k
        genpos += pos
    return chrgrp, genpos


def gen_haps(rng, scheme, n, p, style):
    def rnd():
        return [rng.randint(0, 1) for _ in range(p)]
    if scheme == "dihybrid":
        h0 = [rnd() for _ in range(n)]
        h1 = [rnd() for _ in range(n)]
        if style == "mixed" and n >= 2:            # one homozygous parent, one fully heterozygous
            h1[0] = list(h0[0])
            h1[1] = [1 - a for a in h0[1]]
        return [h0, h1]
    hs = [rnd() for _ in range(n)]
    if style == "mixed" and n >= 2:
        hs[0] = [0] * p
        hs[1] = [1] * p
    return hs


def gen_u(rng, p, t, style):
    u = [[rng.choice(UVALS) for _ in range(t)] for _ in range(p)]
    if style == "copy" and t >= 2:                 # trait 1 = -2 * trait 0 -> covariance = -2 * variance
        for row in u:
            row[1] = -2.0 * row[0]
    if style == "real":
        u = [[round(rng.gauss(0.0, 1.0), 6) for _ in range(t)] for _ in range(p)]
    if all(x == 0.0 for row in u for x in row):
        u[0][0] = 1.0
    return u


def sample_tuples(rng, scheme, n, k):
    tl = all_tuples(scheme, n)
    if len(tl) <= k:
        return None
    nd = [x for x in tl if not degenerate(x)]
    dg = [x for x in tl if degenerate(x)]
    out = rng.sample(nd, min(len(nd), k)) + rng.sample(dg, min(len(dg), max(2, k // 4)))
    return [list(x) for x in out]


def oracle_cost(p, nself, ntuples):
    per = (1 << (4 * p)) * (50 if nself == "inf" else (1 + int(nself)))
    return ntuples * (per / 1.5e9 + 0.0006 * (1 << p) / 16.0 + 0.0004)


MEMS = [None, 1, 2, 3, 4, 5, 7, 1000]


def gen_matrix_cases(rng, tier, family, schemes, budget_s, wall_s=None):
    """yields cases for one family; the data sets sweep p, chromosome layout,
    n, t, nself and styles; every data set is emitted once per clause.
    budget_s bounds the estimated oracle cost, wall_s is a wall-clock safety
    net (it only limits how many data sets are explored)"""
    nself_all = [0, 1, 2, "inf", 3, 5]
    spent = 0.0
    rounds = 5 if tier == "quick" else 100
    serial = 0
    t_start = time.time()
    for rd in range(rounds):
        for scheme in schemes:
            npar = NPAR[scheme]
            if wall_s is not None and time.time() - t_start > wall_s:
                return
            # a larger data set (beyond the oracle's reach) for the structural clauses only
            pl = rng.randint(8, 24 if tier == "quick" else 60)
            nl = 2 if scheme == "4way" else rng.randint(2, 3)
            tl_ = rng.choice([1, 2])
            chrgrp, genpos = gen_map(rng, pl, rng.choice([1, 2, 3]), rng.choice(["plain", "wide", "dup", "unsorted"]))
            big = dict(kind="matrix", family=family, scheme=scheme, chrgrp=chrgrp, genpos=genpos,
                       hap=gen_haps(rng, scheme, nl, pl, "random"), u=gen_u(rng, pl, tl_, rng.choice(["plain", "real"])),
                       nself=rng.choice(nself_all), mem=rng.choice([None, 1024]), nmating=1, nprogeny=10)
            lens = [chrgrp.count(c) for c in sorted(set(chrgrp))]
            yield dict(big, clause="chunk", mems=sorted(set([3, 5, 8, 1000] + lens + [max(1, lens[0] - 1), lens[0] + 1])))
            permb = list(range(nl))
            permb = permb[1:] + permb[:1]
            yield dict(big, clause="perm", perm=permb)
            yield dict(big, clause="symmetry")
            for p in ([1, 2, 3, 4, 5, 6] if tier == "thorough" or rd == 0 else ([2, 3, 4, 5] if rd == 3 else [2, 3, 4])):
                serial += 1
                nchr = 1 if p == 1 else rng.choice([1, 2, 2] + ([3] if tier == "thorough" and p >= 3 else []))
                nmax = {"2way": 5, "3way": 4, "4way": 4 if p <= 4 else 3, "dihybrid": 4}[scheme]
                n = rng.choice([1, 2]) if (rd == 1 and p == 2) else rng.randint(2, nmax)
                t = rng.choice([1, 2, 2, 2, 3]) if family.startswith("pcvmat") else rng.choice([1, 2, 2, 3])
                nself = nself_all[(serial + rd) % 4] if tier == "quick" else rng.choice(nself_all)
                chrgrp, genpos = gen_map(rng, p, nchr, rng.choice(["plain", "plain", "tight", "wide", "dup", "unsorted", "grid"]))
                base = dict(kind="matrix", family=family, scheme=scheme, chrgrp=chrgrp, genpos=genpos,
                            hap=gen_haps(rng, scheme, n, p, rng.choice(["random", "random", "mixed"])),
                            u=gen_u(rng, p, t, rng.choice(["plain", "plain", "copy", "real"])),
                            nself=nself, mem=rng.choice(MEMS), nmating=rng.choice([1, 3]), nprogeny=rng.choice([1, 10, 40]),
                            labels=rng.random() > 0.15)
                ntup = n ** npar
                k = ntup
                while k > 4 and oracle_cost(p, nself, k) > (1.5 if tier == "quick" else 6.0):
                    k = max(4, k // 2)
                tl = sample_tuples(rng, scheme, n, k) if k < ntup else None
                cost = oracle_cost(p, nself, k)
                if spent + cost > budget_s:
                    continue
                spent += cost
                for clause in ("oracle", "degenerate"):
                    c = dict(base, clause=clause)
                    if tl is not None:
                        c["tuples"] = tl
                    yield c
                mems = rng.sample(MEMS, 4)
                if p not in mems:
                    mems.append(p)                   # chunk == whole (single) chromosome length
                yield dict(base, clause="chunk", mems=mems)
                perm = list(range(n))
                rng.shuffle(perm)
                if perm == sorted(perm) and n > 1:
                    perm = perm[1:] + perm[:1]
                yield dict(base, clause="perm", perm=perm)
                yield dict(base, clause="symmetry")
                # genetically identical (homozygous) parents at distinct indices
                ident = dict(base, clause="identical")
                hap = gen_haps(rng, scheme, max(n, npar + 1) if scheme != "4way" else max(n, 3), p, "random")
                nn = len(hap[0]) if scheme == "dihybrid" else len(hap)
                same = sorted(rng.sample(range(nn), min(nn, rng.choice([2, 3]))))
                if scheme == "dihybrid":
                    for i in same:
                        hap[0][i] = list(hap[0][same[0]])
                        hap[1][i] = list(hap[0][same[0]])
                else:
                    for i in same:
                        hap[i] = list(hap[same[0]])
                ident["hap"] = hap
                ident["same"] = same
                yield ident
                if (family, scheme) in FACTORIES and (rd + p) % 2 == 0:
                    c = dict(base, clause="factory")
                    if tl is not None:
                        c["tuples"] = tl
                    yield c
                    if family == "vmat.genic":
                        yield dict(base, clause="factory-nomem", tuples=[list(x) for x in all_tuples(scheme, n)[:4]])


FACTORIES = {("vmat.genetic", "2way"), ("vmat.genetic", "3way"), ("vmat.genetic", "4way"), ("vmat.genetic", "dihybrid"),
             ("vmat.genic", "2way")}


def gen_uc_cases(rng, tier):
    rounds = 4 if tier == "quick" else 80
    for rd in range(rounds):
        for scheme in ("2way", "3way", "4way", "dihybrid"):
            npar = NPAR[scheme]
            for kind in ("subset", "binary", "integer", "real"):
                p = rng.choice([2, 3, 4] if tier == "quick" else [1, 2, 3, 4, 5])
                nchr = rng.choice([1, 2])
                n = rng.randint(npar, {"2way": 5, "3way": 4, "4way": 4, "dihybrid": 4}[scheme])
                t = rng.choice([1, 2, 3])
                chrgrp, genpos = gen_map(rng, p, nchr, rng.choice(["plain", "tight", "dup", "grid"]))
                base = dict(kind="uc", scheme=scheme, chrgrp=chrgrp, genpos=genpos,
                            hap=gen_haps(rng, scheme, n, p, rng.choice(["random", "mixed"])),
                            u=gen_u(rng, p, t, rng.choice(["plain", "copy", "real"])),
                            beta=[rng.choice([0.0, 1.5, -3.25, 10.0]) for _ in range(t)],
                            nself=rng.choice([0, 1, 2, 3]), nmating=1, nprogeny=rng.choice([5, 20]))
                pct = rng.choice([0.01, 0.05, 0.1, 0.25, 0.5, 0.9, 1.0])
                uniq = rng.random() < 0.5
                yield dict(base, clause="uc", prob=kind, pct=pct, unique=uniq)
                if scheme != "2way":
                    yield dict(base, clause="uc-degenerate", prob=kind, pct=pct, unique=False)
                if kind == "subset":
                    tl = [x for x in all_tuples(scheme, n)]
                    rng.shuffle(tl)
                    xm = [list(x) for x in tl[:6]]
                    xm.append(list(xm[0]))           # repeated configuration
                    yield dict(base, clause="calc_uc", xmap=xm, intensity=rng.choice([0.0, 1.0, 1.755, -0.5, 2.665]))


def gen_util_cases(rng, tier):
    grid = [0.0, 0.001, 0.01, 0.05, 0.1, 0.2, 0.25, 0.3, 0.4, 0.45, 0.499, 0.5]
    nselfs = [0, 1, 2, 3, 4, 5, 7, 10, "inf"] if tier == "quick" else [0, 1, 2, 3, 4, 5, 6, 7, 8, 10, 15, 25, "inf"]
    for ns in nselfs:
        for r in grid:
            yield dict(kind="util", r=[r], nself=ns, form="scalar")
        yield dict(kind="util", r=[0.13], nself=ns, form="0d")
        yield dict(kind="util", r=grid, nself=ns, form="1d")
        yield dict(kind="util", r=grid[2:8], nself=ns, form="2d")
        for _ in range(2 if tier == "quick" else 20):
            k = rng.randint(1, 5)
            yield dict(kind="util", r=[round(rng.uniform(0.0, 0.5), 6) for _ in range(k)], nself=ns,
                       form=rng.choice(["1d", "2d"]))
    top = 9 if tier == "quick" else 14
    for lst in (0, 1, 3, 7):
        for ln in range(0, top):
            for step in range(1, top + 2):
                yield dict(kind="srange", lst=lst, lsp=lst + ln, step=step)
    yield dict(kind="srange", lst=5, lsp=5 + 4100, step=1024)
    yield dict(kind="srange", lst=0, lsp=2048, step=1024)


# --------------------------------------------------------------------------
# units
# --------------------------------------------------------------------------
def _drive(ctx, cases, branch_of):
    """run the cases; at most 3 recorded failures per cls; a branch (class or
    class+clause) that has produced 3 failures is not explored further, other
    branches go on"""
    per_cls = {}
    per_branch = {}
    for case in cases:
        br = branch_of(case)
        if per_branch.get(br[0], 0) >= 3 or per_branch.get(br, 0) >= 3:
            continue
        try:
            fails, nontrivial = _run(case)
        except Exception as e:                        # harness-side or unforeseen library exception
            fails, nontrivial = [("%s:exception" % _key(case), "exception %s: %s" % (type(e).__name__, e))], True
        sample = {k: case[k] for k in ("family", "scheme", "clause", "chrgrp", "genpos", "nself", "mem", "kind", "r", "form")
                  if k in case}
        ctx.case(key=repr(sorted(case.items(), key=str)), nontrivial=nontrivial, sample=sample)
        for cls, msg in fails:
            crash = cls.endswith(":crash")
            b = br[0] if crash else br
            per_branch[b] = per_branch.get(b, 0) + 1
            if per_cls.get(cls, 0) >= 3:
                continue
            per_cls[cls] = per_cls.get(cls, 0) + 1
            ctx.fail_input("ring:%s" % cls, case, cls=cls, message=msg)


def _branch_matrix(case):
    return ("%s.%s" % (case["family"], case["scheme"]), case["clause"])


RULE_MATRIX = ("seeded random data sets (VERIF_SEED): p=1..6 markers on 1-2 (thorough: 3) chromosomes with plain / tight / wide / "
               "coincident / unsorted / equidistant genetic positions, n=1..5 parents incl. all-0, all-1 and duplicate haplotypes, "
               "t=1..3 traits with effects incl. exact zeros and proportional traits, nself in {0,1,2,inf} (thorough also 3,5), "
               "mem in {None,1,2,3,4,5,7,1000,p}; each data set is run once per clause (oracle = gamete enumeration on all or "
               "sampled index tuples, degenerate = tuples whose last two parents coincide, identical parents == 0, chunk "
               "invariance, taxa permutation, exchangeable-parent symmetry, factories); a case is non-trivial if an expected "
               "variance is non-zero; distinct by full input")


def _matrix_unit(ctx, family, schemes, quick_s, thorough_s):
    ctx.rule = RULE_MATRIX
    budget = quick_s if ctx.tier == "quick" else thorough_s
    wall = 30.0 if ctx.tier == "quick" else 400.0
    _drive(ctx, gen_matrix_cases(ctx.rng, ctx.tier, family, schemes, budget, wall), _branch_matrix)


VM = "pybrops/model/vmat/"
PC = "pybrops/model/pcvmat/"

N_G23 = "ring[vmat genetic two-way and three-way vs gamete enumeration]"
N_G4D = "ring[vmat genetic four-way and dihybrid vs gamete enumeration]"
N_GENIC = "ring[vmat genic vs linkage-free gamete enumeration]"
N_PCV = "ring[pcvmat genetic covariance vs gamete enumeration]"
N_PCVN = "ring[pcvmat genic covariance vs linkage-free gamete enumeration]"
N_UC = "ring[usefulness criterion via cross map vs gamete enumeration]"
N_UTIL = "ring[selfing recombination terms and chunk tiling]"

BOUND = ("bounded: p<=6 markers on <=2 chromosomes (thorough <=3), <=5 parents (<=4 for 3/4-way and dihybrid), <=3 traits, "
         "nself in {0,1,2,inf} (thorough also 3,5), mem in {None,1,2,3,4,5,7,1000,p}; seeded by VERIF_SEED")


@unit(P, N_G23, "R", bounded=True, note=BOUND,
      targets=[VM + "DenseTwoWayDHAdditiveGeneticVarianceMatrix.py:DenseTwoWayDHAdditiveGeneticVarianceMatrix.from_algmod",
               VM + "DenseThreeWayDHAdditiveGeneticVarianceMatrix.py:DenseThreeWayDHAdditiveGeneticVarianceMatrix.from_algmod"])
def u_ring_g23(ctx):
    _matrix_unit(ctx, "vmat.genetic", ("2way", "3way"), 20.0, 600.0)


@unit(P, N_G4D, "R", bounded=True, note=BOUND,
      targets=[VM + "DenseFourWayDHAdditiveGeneticVarianceMatrix.py:DenseFourWayDHAdditiveGeneticVarianceMatrix.from_algmod",
               VM + "DenseDihybridDHAdditiveGeneticVarianceMatrix.py:DenseDihybridDHAdditiveGeneticVarianceMatrix.from_algmod"])
def u_ring_g4d(ctx):
    _matrix_unit(ctx, "vmat.genetic", ("4way", "dihybrid"), 20.0, 600.0)


@unit(P, N_GENIC, "R", bounded=True, note=BOUND)
def u_ring_genic(ctx):
    _matrix_unit(ctx, "vmat.genic", ("2way", "3way", "4way", "dihybrid"), 16.0, 600.0)


@unit(P, N_PCV, "R", bounded=True, note=BOUND)
def u_ring_pcv(ctx):
    _matrix_unit(ctx, "pcvmat.genetic", ("2way", "3way", "4way", "dihybrid"), 16.0, 600.0)


@unit(P, N_PCVN, "R", bounded=True, note=BOUND + "; classes not among the anchored files (genic counterparts of pcvmat)")
def u_ring_pcvn(ctx):
    _matrix_unit(ctx, "pcvmat.genic", ("2way", "3way", "4way", "dihybrid"), 10.0, 100.0)


@unit(P, N_UC, "R", bounded=True,
      note="bounded: p<=5 markers, <=5 parents, <=3 traits, nself<=3, 4 problem classes x 4 variance factories, "
           "upper percentile in {0.01..1.0}; seeded by VERIF_SEED")
def u_ring_uc(ctx):
    ctx.rule = ("seeded random populations; UC matrices built by from_pgmat_gpmod of the subset/binary/integer/real problem "
                "classes through the 2-, 3-, 4-way and dihybrid variance factories (unique and non-unique parents) and by "
                "_calc_uc with explicit cross maps; expected = beta + mean of the enumerated progeny distribution + intensity * "
                "sqrt(enumerated variance); non-trivial if a variance and the intensity are non-zero")
    _drive(ctx, gen_uc_cases(ctx.rng, ctx.tier), lambda c: ("uc.%s" % c["scheme"], c["clause"]))


@unit(P, N_UTIL, "R", bounded=True, targets=[VM + "util.py:rprob_filial", VM + "util.py:cov_D1s", VM + "util.py:cov_D2s",
                                             "pybrops/core/util/subroutines.py:srange"],
      note="bounded: r on a 12-point grid of [0,0.5] plus seeded random, nself in {0..10,inf} (thorough to 25), scalar/0-d/1-d/2-d "
           "arguments; srange exhaustively for lst in {0,1,3,7}, length<=8 (13), step<=10 (15)")
def u_ring_util(ctx):
    ctx.rule = ("grid x nself x argument form for the recombination terms against a two-locus selfing enumeration; exhaustive small "
                "(lst, lsp, step) for srange and the block-tiling idiom zip(range(lst,lsp,step), srange(lst+step,lsp,step))")
    _drive(ctx, gen_util_cases(ctx.rng, ctx.tier), lambda c: (c["kind"], c.get("form", "")))


REPLAYERS = {N_G23: _replay, N_G4D: _replay, N_GENIC: _replay, N_PCV: _replay, N_PCVN: _replay, N_UC: _replay, N_UTIL: _replay}
