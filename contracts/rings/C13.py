"""C13 -- native bounded ring (mode R): relationship (coancestry) matrices match
their definitions and algebraic laws.

Everything here runs the REAL pybrops code (imported lazily from $PYBROPS_REPO
under the numpy-2 shim) and compares it with oracles written from the property
statement:

* molecular coancestry  = twice the average (over markers) identity-by-state
  probability of an allele drawn from individual i and an allele drawn from
  individual j  -- evaluated by explicit loops over allele copies, exact
  rational arithmetic;
* VanRaden (2008, method 1)   G_ij = sum_k z_ik z_jk / (ploidy * sum_k p_k (1-p_k)),
  z_ik = x_ik - ploidy p_k;
* Yang et al. (2010) / GCTA  G_ij = (1/m) sum_k z_ik z_jk / (ploidy p_k (1-p_k));
* generalised weighted        G_ij = sum_k w_k z_ik z_jk;
  (x_ik = number of copies of allele 1, p_k = reference frequency: supplied, or
  the allele frequency counted in the source matrix when not supplied);
* kinship view = coancestry / 2 (exact); symmetric; PSD up to rounding; labels
  of the source carried; equivariant under taxa permutation / sub-selection
  (sub-selection only when reference frequencies are not re-estimated);
* inverse / max / min / mean / max_inbreeding / min_inbreeding against direct
  evaluation (loops, numpy.linalg.inv / solve, residual checks).

Floating point results are compared with a tolerance relative to the largest
diagonal element; views, extreme values and labels are compared exactly.
"""
import math
import random
import time
from fractions import Fraction

from pyvc.unit import unit

P = "C13"

_MODS = {
    "molecular": ("pybrops.popgen.cmat.DenseMolecularCoancestryMatrix", "DenseMolecularCoancestryMatrix",
                  "pybrops.popgen.cmat.fcty.DenseMolecularCoancestryMatrixFactory", "DenseMolecularCoancestryMatrixFactory"),
    "vanraden": ("pybrops.popgen.cmat.DenseVanRadenCoancestryMatrix", "DenseVanRadenCoancestryMatrix",
                 "pybrops.popgen.cmat.fcty.DenseVanRadenCoancestryMatrixFactory", "DenseVanRadenCoancestryMatrixFactory"),
    "yang": ("pybrops.popgen.cmat.DenseYangCoancestryMatrix", "DenseYangCoancestryMatrix",
             "pybrops.popgen.cmat.fcty.DenseYangCoancestryMatrixFactory", "DenseYangCoancestryMatrixFactory"),
    "gw": ("pybrops.popgen.cmat.DenseGeneralizedWeightedCoancestryMatrix", "DenseGeneralizedWeightedCoancestryMatrix",
           "pybrops.popgen.cmat.fcty.DenseGeneralizedWeightedCoancestryMatrixFactory",
           "DenseGeneralizedWeightedCoancestryMatrixFactory"),
    "base": ("pybrops.popgen.cmat.DenseCoancestryMatrix", "DenseCoancestryMatrix", None, None),
}


_BLAS = {"done": False, "ok": False}


def _single_thread_blas():
    """best effort: keep OpenBLAS single-threaded inside this (forked) unit process; oversubscribed BLAS threads make
    numpy.linalg.inv on a 130x130 matrix take seconds, and thread count must not influence results"""
    if _BLAS["done"]:
        return _BLAS["ok"]
    _BLAS["done"] = True
    try:
        import ctypes
        import numpy  # noqa: F401  (makes sure the library is mapped)
        libs = set()
        with open("/proc/self/maps") as f:
            for line in f:
                if "blas" in line.lower() and ".so" in line:
                    libs.add(line.split()[-1])
        for path in sorted(libs):
            lib = ctypes.CDLL(path)
            for nm in ("scipy_openblas_set_num_threads64_", "scipy_openblas_set_num_threads", "openblas_set_num_threads64_",
                       "openblas_set_num_threads"):
                if hasattr(lib, nm):
                    getattr(lib, nm)(1)
                    _BLAS["ok"] = True
                    break
    except Exception:
        pass
    return _BLAS["ok"]


def _cls(est):
    import importlib
    mod, name = _MODS[est][0], _MODS[est][1]
    return getattr(importlib.import_module(mod), name)


def _fcty(est):
    import importlib
    mod, name = _MODS[est][2], _MODS[est][3]
    return getattr(importlib.import_module(mod), name)


# --------------------------------------------------------------------------
# inputs
# --------------------------------------------------------------------------
def _alleles(case):
    """alleles[c][i][k] in {0,1}: allele carried by chromosome copy c of taxon i at marker k"""
    pl, n, m = case["ploidy"], case["n"], case["m"]
    if case.get("geno") is not None:
        return [[list(r) for r in ph] for ph in case["geno"]]
    rnd = random.Random(case["gseed"])
    mode = case["gmode"]
    A = [[[0] * m for _ in range(n)] for _ in range(pl)]
    if mode == "unif":
        fr = [rnd.choice([0.1, 0.3, 0.5, 0.7, 0.9]) for _ in range(m)]
        for c in range(pl):
            for i in range(n):
                for k in range(m):
                    A[c][i][k] = 1 if rnd.random() < fr[k] else 0
    elif mode == "hom":          # every taxon homozygous, random allele
        for i in range(n):
            for k in range(m):
                a = rnd.randrange(2)
                for c in range(pl):
                    A[c][i][k] = a
    elif mode == "split":        # taxon i homozygous for allele i%2 almost everywhere -> |sum_k x_ik x_jk| ~ m
        for i in range(n):
            for k in range(m):
                a = i % 2
                if rnd.random() < 0.03:
                    a = 1 - a
                for c in range(pl):
                    A[c][i][k] = a
    elif mode == "ones":         # everything allele 1 except taxon 0 (all allele 0): counts reach ploidy*(n-1) per marker
        for i in range(1, n):
            for k in range(m):
                for c in range(pl):
                    A[c][i][k] = 1
    elif mode == "het":          # every taxon heterozygous everywhere (ploidy 2); alternating for ploidy 1
        for i in range(n):
            for k in range(m):
                for c in range(pl):
                    A[c][i][k] = (c + i + k) % 2 if pl == 1 else c % 2
    else:
        raise ValueError(mode)
    return A


def _labels(case):
    """(taxa names, taxa groups, grouped?) as python lists / None"""
    n, lab = case["n"], case["labels"]
    if lab == "none":
        return None, None, False
    taxa = ["tx%03d" % ((i * 37 + 11) % 1000) for i in range(n)]
    if lab == "taxa":
        return taxa, None, False
    if lab == "grp":             # unsorted group labels, no group metadata
        return taxa, [(i * 5 + 2) % 3 for i in range(n)], False
    if lab == "grouped":         # sorted group labels with group metadata present on the source
        return taxa, [(3 * i) // max(n, 1) * 2 + 1 for i in range(n)], True
    raise ValueError(lab)


def _group_meta(grp):
    names, stix, spix, lens = [], [], [], []
    for i, g in enumerate(grp):
        if not names or names[-1] != g:
            names.append(g)
            stix.append(i)
            if len(names) > 1:
                spix.append(i)
    spix.append(len(grp))
    lens = [b - a for a, b in zip(stix, spix)]
    return names, stix, spix, lens


def _build_gmat(case, A, rows=None):
    import numpy
    from pybrops.popgen.gmat.DenseGenotypeMatrix import DenseGenotypeMatrix
    from pybrops.popgen.gmat.DensePhasedGenotypeMatrix import DensePhasedGenotypeMatrix
    pl, m = case["ploidy"], case["m"]
    n = case["n"]
    idx = list(range(n)) if rows is None else list(rows)
    taxa_l, grp_l, grouped = _labels(case)
    arr = numpy.zeros((pl, len(idx), m), dtype="int8")
    for c in range(pl):
        for r, i in enumerate(idx):
            for k in range(m):
                arr[c, r, k] = A[c][i][k]
    taxa = None if taxa_l is None else numpy.array([taxa_l[i] for i in idx], dtype=object)
    grp = None if grp_l is None else numpy.array([grp_l[i] for i in idx], dtype="int64")
    if case["phased"]:
        gm = DensePhasedGenotypeMatrix(mat=arr, taxa=taxa, taxa_grp=grp)
    else:
        cnt = numpy.zeros((len(idx), m), dtype="int8")
        for c in range(pl):
            cnt += arr[c]
        gm = DenseGenotypeMatrix(mat=cnt, taxa=taxa, taxa_grp=grp, ploidy=pl)
    meta = None
    if grouped and rows is None and n > 0:
        meta = _group_meta(grp_l)
        gm.taxa_grp_name = numpy.array(meta[0], dtype="int64")
        gm.taxa_grp_stix = numpy.array(meta[1], dtype="int64")
        gm.taxa_grp_spix = numpy.array(meta[2], dtype="int64")
        gm.taxa_grp_len = numpy.array(meta[3], dtype="int64")
    return gm, ([taxa_l[i] for i in idx] if taxa_l is not None else None), \
        ([grp_l[i] for i in idx] if grp_l is not None else None), meta


_P_INTERIOR = [0.5, 0.25, 1.0 / 3.0, 0.1, 0.9, 0.75, 0.01, 0.99]
_W_POOL = [0.0, 1.0, 0.5, 3.0, 1e-3]


def _scalar(v, t):
    import numpy
    if t == "int":
        return int(v)
    if t == "np":
        return numpy.float64(v)
    return float(v)


def _freq_arg(case, A, rows=None):
    """(argument handed to the library, reference frequencies used by the oracle)"""
    import numpy
    form = case.get("pform", "none")
    pl, n, m = case["ploidy"], case["n"], case["m"]
    if form == "none":
        idx = list(range(n)) if rows is None else list(rows)
        p = []
        for k in range(m):
            cnt = 0
            for c in range(pl):
                for i in idx:
                    cnt += A[c][i][k]
            p.append(cnt / (pl * len(idx)) if idx else float("nan"))
        return None, p
    if form == "scalar":
        return _scalar(case["pval"], case.get("ptype", "float")), [float(case["pval"])] * m
    rnd = random.Random(case["pseed"])
    pool = case.get("ppool", "interior")
    vals = []
    for k in range(m):
        r = rnd.random()
        if pool == "binary":
            vals.append(float(rnd.randrange(2)))
        elif pool == "closed" and r < 0.3:
            vals.append(float(rnd.randrange(2)))
        elif r < 0.75:
            vals.append(rnd.choice(_P_INTERIOR))
        else:
            vals.append(rnd.uniform(0.05, 0.95))
    return numpy.array(vals, dtype="float64"), vals


def _weight_arg(case):
    import numpy
    form = case.get("wform", "none")
    m = case["m"]
    if form == "none":
        return None, [1.0] * m
    if form == "scalar":
        return _scalar(case["wval"], case.get("wtype", "float")), [float(case["wval"])] * m
    rnd = random.Random(case["wseed"])
    if case.get("wpool") == "zero":
        vals = [0.0] * m
    else:
        vals = [rnd.choice(_W_POOL) if rnd.random() < 0.6 else rnd.uniform(0.0, 2.0) for _ in range(m)]
    return numpy.array(vals, dtype="float64"), vals


def _in_quantifier(case, A=None):
    """the statement's side condition: the published formula must be defined"""
    est = case["est"]
    if case["m"] < 1:
        return False
    if est in ("base",):
        return True
    if A is None:
        A = _alleles(case)
    if case["n"] < 1 and case.get("pform", "none") == "none" and est != "molecular":
        return False
    if est == "molecular" or est == "gw":
        return True
    _, p = _freq_arg(case, A)
    if est == "vanraden":
        return math.fsum(q * (1.0 - q) for q in p) > 1e-9
    if est == "yang":
        return all(1e-6 < q < 1.0 - 1e-6 for q in p)
    return True


# --------------------------------------------------------------------------
# oracles (from the statement)
# --------------------------------------------------------------------------
def _oracle(est, A, idx, p, w, m):
    pl = len(A)
    n = len(idx)
    G = [[0.0] * n for _ in range(n)]
    if est == "molecular":
        # twice the average IBS probability of one allele drawn from i and one drawn from j
        al = [[tuple(A[c][i][k] for c in range(pl)) for k in range(m)] for i in idx]
        for r in range(n):
            for s in range(r, n):
                tot = 0
                ar, as_ = al[r], al[s]
                for k in range(m):
                    for a in ar[k]:
                        for b in as_[k]:
                            if a == b:
                                tot += 1
                v = float(Fraction(2 * tot, pl * pl * m))
                G[r][s] = v
                G[s][r] = v
        return G
    Z = []
    for i in idx:
        row = []
        for k in range(m):
            x = 0
            for c in range(pl):
                x += A[c][i][k]
            row.append(x - pl * p[k])
        Z.append(row)
    if est == "vanraden":
        den = pl * math.fsum(q * (1.0 - q) for q in p)
        coef = [1.0] * m
    elif est == "yang":
        den = float(m)
        coef = [1.0 / (pl * q * (1.0 - q)) for q in p]
    elif est == "gw":
        den = 1.0
        coef = list(w)
    else:
        raise ValueError(est)
    for r in range(n):
        zr = Z[r]
        for s in range(r, n):
            zs = Z[s]
            v = math.fsum(zr[k] * zs[k] * coef[k] for k in range(m)) / den
            G[r][s] = v
            G[s][r] = v
    return G


def _scale(G):
    s = 0.0
    for i in range(len(G)):
        s = max(s, abs(G[i][i]))
    return s


def _cmp_matrix(got, exp, tol):
    """first mismatch (i, j, got, exp) or None; got is a numpy array, exp nested lists"""
    n = len(exp)
    if tuple(got.shape) != (n, n):
        return ("shape", tuple(got.shape), (n, n))
    for i in range(n):
        for j in range(n):
            g = float(got[i, j])
            e = exp[i][j]
            if not (abs(g - e) <= tol):      # also catches NaN
                return (i, j, g, e)
    return None


# --------------------------------------------------------------------------
# clause checks on a coancestry matrix object
# --------------------------------------------------------------------------
def _eqx(a, b):
    """exact float equality, NaN == NaN"""
    a, b = float(a), float(b)
    return a == b or (a != a and b != b)


def _check_views_and_summaries(cm, exact_sym):
    """returns (clause, message) of the first violated clause or None"""
    import numpy
    M0 = numpy.array(cm.mat, copy=True)
    n = M0.shape[0]
    M = [[float(M0[i, j]) for j in range(n)] for i in range(n)]
    # ---- views: kinship is exactly half the coancestry
    for fmt, f in (("coancestry", 1.0), ("kinship", 0.5)):
        V = cm.mat_asformat(fmt)
        if not isinstance(V, numpy.ndarray) or tuple(V.shape) != (n, n):
            return "views", "mat_asformat(%r) has shape %r" % (fmt, getattr(V, "shape", None))
        for i in range(n):
            for j in range(n):
                if not _eqx(V[i, j], M[i][j] * f):
                    return "views", "mat_asformat(%r)[%d,%d]=%r, matrix element %r" % (fmt, i, j, float(V[i, j]), M[i][j])
        if V is cm.mat and fmt == "kinship":
            return "views", "kinship view aliases the coancestry matrix"
    for i in range(n):
        for j in range(n):
            if not _eqx(cm.coancestry(i, j), M[i][j]):
                return "views", "coancestry(%d,%d)=%r, element %r" % (i, j, float(cm.coancestry(i, j)), M[i][j])
            if not _eqx(cm.kinship(i, j), M[i][j] / 2.0):
                return "views", "kinship(%d,%d)=%r, half the element is %r" % (i, j, float(cm.kinship(i, j)), M[i][j] / 2.0)
    if n >= 1:
        row = cm.kinship(n - 1)
        for j in range(n):
            if not _eqx(row[j], M[n - 1][j] / 2.0):
                return "views", "kinship(%d)[%d]=%r" % (n - 1, j, float(row[j]))
    if n == 0:
        return None
    scale = max(abs(v) for r in M for v in r)
    # ---- extreme values, mean
    for fmt, f in (("coancestry", 1.0), ("kinship", 0.5)):
        colmax = [max(M[i][j] for i in range(n)) * f for j in range(n)]
        rowmax = [max(M[i][j] for j in range(n)) * f for i in range(n)]
        colmin = [min(M[i][j] for i in range(n)) * f for j in range(n)]
        rowmin = [min(M[i][j] for j in range(n)) * f for i in range(n)]
        allmax, allmin = max(rowmax), min(rowmin)
        for name, fn, ea, e0, e1 in (("max", cm.max, allmax, colmax, rowmax), ("min", cm.min, allmin, colmin, rowmin)):
            for ax, exp in ((None, ea), ((0, 1), ea), (0, e0), (1, e1)):
                out = fn(format=fmt, axis=ax)
                if isinstance(exp, list):
                    out = numpy.asarray(out)
                    if tuple(out.shape) != (n,) or not all(_eqx(out[t], exp[t]) for t in range(n)):
                        return "extreme", "%s(format=%r, axis=%r)=%r, by loops %r" % (name, fmt, ax, out.tolist(), exp)
                else:
                    if numpy.ndim(out) != 0 or not _eqx(out, exp):
                        return "extreme", "%s(format=%r, axis=%r)=%r, by loops %r" % (name, fmt, ax, out, exp)
        got = cm.max(fmt)
        if not _eqx(got, allmax):
            return "extreme", "max(%r)=%r, by loops %r" % (fmt, got, allmax)
        got = cm.min(fmt)
        if not _eqx(got, allmin):
            return "extreme", "min(%r)=%r, by loops %r" % (fmt, got, allmin)
        exp = max(M[i][i] for i in range(n)) * f
        got = cm.max_inbreeding(format=fmt)
        if numpy.ndim(got) != 0 or not _eqx(got, exp):
            return "extreme", "max_inbreeding(%r)=%r, largest diagonal element (scaled) %r" % (fmt, got, exp)
        # mean
        colmean = [math.fsum(M[i][j] for i in range(n)) / n * f for j in range(n)]
        rowmean = [math.fsum(M[i][j] for j in range(n)) / n * f for i in range(n)]
        allmean = math.fsum(v for r in M for v in r) / (n * n) * f
        for dt, rtol in ((None, 1e-12), ("float64", 1e-12), ("float32", 2e-5)):
            tol = rtol * scale + 1e-300
            for ax, exp in ((None, allmean), ((0, 1), allmean), (0, colmean), (1, rowmean)):
                kw = dict(format=fmt, axis=ax)
                if dt is not None:
                    kw["dtype"] = dt
                out = cm.mean(**kw)
                if isinstance(exp, list):
                    out = numpy.asarray(out)
                    if tuple(out.shape) != (n,) or not all(abs(float(out[t]) - exp[t]) <= tol for t in range(n)):
                        return "mean", "mean(%r)=%r, by loops %r" % (kw, out.tolist(), exp)
                else:
                    if numpy.ndim(out) != 0 or not (abs(float(out) - exp) <= tol):
                        return "mean", "mean(%r)=%r, by loops %r" % (kw, out, exp)
        got = cm.mean(fmt)
        if not (abs(float(got) - allmean) <= 1e-12 * scale + 1e-300):
            return "mean", "mean(%r)=%r, by loops %r" % (fmt, got, allmean)
    # ---- inverse and minimum attainable inbreeding
    with numpy.errstate(all="ignore"):
        for fmt, f in (("coancestry", 1.0), ("kinship", 0.5)):
            B = numpy.array([[M[i][j] * f for j in range(n)] for i in range(n)], dtype="float64")
            try:
                ref = numpy.linalg.inv(B)
            except numpy.linalg.LinAlgError:
                ref = None
            try:
                out = cm.inverse(format=fmt)
            except numpy.linalg.LinAlgError:
                out = None
            if (ref is None) != (out is None):
                return "inverse", "inverse(%r): library %s, numpy.linalg.inv on the view %s" % (
                    fmt, "raised LinAlgError" if out is None else "returned", "raised LinAlgError" if ref is None else "returned")
            cond = float("inf")
            if ref is not None:
                if tuple(out.shape) != (n, n) or not numpy.allclose(out, ref, rtol=1e-9, atol=0.0, equal_nan=True):
                    return "inverse", "inverse(%r)=%r, numpy.linalg.inv of the view %r" % (fmt, out.tolist(), ref.tolist())
                try:
                    cond = float(numpy.linalg.cond(B))
                except numpy.linalg.LinAlgError:
                    cond = float("inf")
                if cond == cond and cond < 1e7:
                    res = numpy.abs(B.dot(out) - numpy.eye(n)).max()
                    if not (res <= 1e-13 * n * cond + 1e-13):
                        return "inverse", "inverse(%r): |view @ inverse - I| = %r (cond %.3g)" % (fmt, float(res), cond)
            # min inbreeding
            try:
                got = cm.min_inbreeding(format=fmt)
            except numpy.linalg.LinAlgError:
                got = None
            if (ref is None) != (got is None):
                return "min-inbreeding", "min_inbreeding(%r): library %s but inverse of the view %s" % (
                    fmt, "raised" if got is None else "returned", "does not exist" if ref is None else "exists")
            if ref is not None:
                exp = float(numpy.float64(1.0) / ref.sum())
                if cond == cond and cond < 1e7:
                    # definition: min over x with sum(x)=1 of x'Bx  ==  1 / (1' B^-1 1), via a linear solve
                    x = numpy.linalg.solve(B, numpy.ones(n))
                    s = math.fsum(float(v) for v in x)              # 1' B^-1 1
                    sabs = math.fsum(abs(float(v)) for v in x)
                    g = float(got)
                    rg = 1.0 / g if g != 0.0 else float("inf")       # compare on the side where cancellation is additive
                    if not (abs(rg - s) <= 1e-12 * cond * sabs + 1e-300):
                        return "min-inbreeding", "min_inbreeding(%r)=%r, 1/(1'B^-1 1) by linear solve %r (cond %.3g)" % (
                            fmt, g, (1.0 / s if s != 0.0 else float("inf")), cond)
                else:
                    g = float(got)
                    if not (_eqx(g, exp) or abs(g - exp) <= 1e-9 * abs(exp)):
                        return "min-inbreeding", "min_inbreeding(%r)=%r, 1/sum(numpy.linalg.inv(view)) = %r" % (fmt, g, exp)
    # ---- the queries must not have changed the matrix
    M1 = cm.mat
    if tuple(M1.shape) != (n, n) or not all(_eqx(M1[i, j], M[i][j]) for i in range(n) for j in range(n)):
        return "matrix-mutated", "a view / summary query changed the stored matrix"
    return None


def _check_sym_psd(G, exact_sym, scale):
    import numpy
    n = G.shape[0]
    stol = 0.0 if exact_sym else 1e-13 * scale
    for i in range(n):
        for j in range(i + 1, n):
            if not (abs(float(G[i, j]) - float(G[j, i])) <= stol):
                return "symmetric", "G[%d,%d]=%r but G[%d,%d]=%r" % (i, j, float(G[i, j]), j, i, float(G[j, i]))
    if n > 0:
        ev = numpy.linalg.eigvalsh((G + G.T) / 2.0)
        if not (float(ev.min()) >= -1e-10 * scale - 1e-12):
            return "psd", "smallest eigenvalue %r (largest diagonal %r)" % (float(ev.min()), scale)
    return None


def _check_labels(cm, taxa, grp, meta):
    import numpy
    if taxa is None:
        if cm.taxa is not None:
            return "labels", "source has no taxa labels, result has %r" % (cm.taxa,)
    else:
        t = cm.taxa
        if t is None or not isinstance(t, numpy.ndarray) or t.dtype != object or list(t) != list(taxa):
            return "labels", "taxa %r, source taxa %r" % (None if t is None else list(t), taxa)
    if grp is None:
        if cm.taxa_grp is not None:
            return "labels", "source has no taxa groups, result has %r" % (cm.taxa_grp,)
    else:
        g = cm.taxa_grp
        if g is None or [int(v) for v in g] != list(grp):
            return "labels", "taxa_grp %r, source taxa_grp %r" % (None if g is None else list(g), grp)
    names = ("taxa_grp_name", "taxa_grp_stix", "taxa_grp_spix", "taxa_grp_len")
    for q, nm in enumerate(names):
        v = getattr(cm, nm)
        if meta is None:
            if v is not None:
                return "labels", "source is not grouped but result has %s=%r" % (nm, v)
        else:
            if v is None or [int(z) for z in v] != list(meta[q]):
                return "labels", "%s=%r, source %r" % (nm, None if v is None else list(v), meta[q])
    return None


def _call(est, via, gm, kw):
    if via == "factory":
        return _fcty(est)().from_gmat(gm, **kw)
    return _cls(est).from_gmat(gm, **kw)


def _kwargs(case, A, rows=None):
    est = case["est"]
    kw = {}
    p = w = None
    if est in ("vanraden", "yang"):
        arg, p = _freq_arg(case, A, rows)
        if not (arg is None and case.get("pomit")):
            kw["p_anc"] = arg
    elif est == "gw":
        arg, p = _freq_arg(case, A, rows)
        if not (arg is None and case.get("pomit")):
            kw["afreq"] = arg
        warg, w = _weight_arg(case)
        if not (warg is None and case.get("womit")):
            kw["mkrwt"] = warg
    return kw, p, w


def _snap_gmat(gm):
    import numpy
    return (numpy.array(gm.mat, copy=True), None if gm.taxa is None else list(gm.taxa),
            None if gm.taxa_grp is None else [int(v) for v in gm.taxa_grp])


def _gmat_same(gm, snap):
    import numpy
    if not numpy.array_equal(gm.mat, snap[0]) or gm.mat.dtype != snap[0].dtype:
        return False
    if (None if gm.taxa is None else list(gm.taxa)) != snap[1]:
        return False
    if (None if gm.taxa_grp is None else [int(v) for v in gm.taxa_grp]) != snap[2]:
        return False
    return True


def _run_estimator(case):
    import numpy
    est, via = case["est"], case.get("via", "class")
    A = _alleles(case)
    n, m, pl = case["n"], case["m"], case["ploidy"]
    gm, taxa, grp, meta = _build_gmat(case, A)
    snap = _snap_gmat(gm)
    # unsupported ploidy (molecular): either refuse or follow the definition
    if est == "molecular" and pl not in (1, 2):
        try:
            cm = _call(est, via, gm, {})
        except RuntimeError:
            return None
        exp = _oracle(est, A, list(range(n)), None, None, m)
        bad = _cmp_matrix(cm.mat, exp, 1e-12 * (_scale(exp) + 1.0))
        if bad is not None:
            return "unsupported-ploidy", "ploidy %d accepted but result %r differs from the IBS definition" % (pl, bad)
        return None
    if not _in_quantifier(case, A):
        return ("skip", "outside the quantifier: the published formula is undefined for these reference frequencies")
    kw, p, w = _kwargs(case, A)
    kw0 = {k: (numpy.array(v, copy=True) if isinstance(v, numpy.ndarray) else v) for k, v in kw.items()}
    cm = _call(est, via, gm, kw)
    for k, v in kw.items():
        if isinstance(v, numpy.ndarray) and not (numpy.array_equal(v, kw0[k]) and v.dtype == kw0[k].dtype):
            return "args-mutated", "from_gmat changed its argument %s" % k
    if not isinstance(cm, _cls(est)):
        return "type", "result is a %s" % type(cm).__name__
    G = cm.mat
    if not isinstance(G, numpy.ndarray) or G.dtype != numpy.float64:
        return "type", "matrix dtype %r" % (getattr(G, "dtype", None),)
    exp = _oracle(est, A, list(range(n)), p, w, m)
    scale = _scale(exp)
    tol = 1e-10 * scale + 1e-12
    bad = _cmp_matrix(G, exp, tol)
    if bad is not None:
        return "formula", "matrix vs definition: (i, j, library, definition) = %r; args %r; counts %r" % (
            bad, _show(kw), _show_counts(A) if n * m <= 40 else "...")
    r = _check_sym_psd(G, est == "molecular", scale)
    if r:
        return r
    r = _check_labels(cm, taxa, grp, meta)
    if r:
        return r
    if not _gmat_same(gm, snap):
        return "source-mutated", "from_gmat changed its source genotype matrix"
    # views and summaries
    r = _check_views_and_summaries(cm, est == "molecular")
    if r:
        return r
    # same request through the other entry point on the same (possibly now stale) source
    cm2 = _call(est, "class" if via == "factory" else "factory", gm, kw)
    if tuple(cm2.mat.shape) != (n, n) or not numpy.array_equal(cm2.mat, G, equal_nan=True) or type(cm2) is not type(cm):
        return "repeat", "class method and factory disagree / second evaluation on the same source differs"
    # commutes with permutation / sub-selection of taxa
    sel = case.get("sel")
    if sel is not None and len(sel) > 0:
        is_perm = sorted(sel) == list(range(n))
        reest = est != "molecular" and case.get("pform", "none") == "none"
        if is_perm or not reest:
            sub, staxa, sgrp, _ = _build_gmat(case, A, rows=sel)
            skw, sp, sw = _kwargs(case, A, rows=sel)
            cs = _call(est, via, sub, skw)
            ns = len(sel)
            if tuple(cs.mat.shape) != (ns, ns):
                return "commute", "shape %r after selecting %d taxa" % (tuple(cs.mat.shape), ns)
            for a in range(ns):
                for b in range(ns):
                    if not (abs(float(cs.mat[a, b]) - float(G[sel[a], sel[b]])) <= tol):
                        return "commute", "taxa %r: G(sub)[%d,%d]=%r but G(full)[%d,%d]=%r" % (
                            sel, a, b, float(cs.mat[a, b]), sel[a], sel[b], float(G[sel[a], sel[b]]))
            r = _check_labels(cs, staxa, sgrp, None)
            if r:
                return "commute-labels", r[1]
    return None


def _show(kw):
    out = {}
    for k, v in kw.items():
        try:
            out[k] = v.tolist() if hasattr(v, "tolist") and getattr(v, "size", 99) <= 12 else (
                v if not hasattr(v, "shape") else "array(%d)" % v.size)
        except Exception:
            out[k] = "?"
    return out


def _show_counts(A):
    pl, n = len(A), len(A[0])
    m = len(A[0][0]) if n else 0
    return [[sum(A[c][i][k] for c in range(pl)) for k in range(m)] for i in range(n)]


# ---- summaries on directly constructed matrices ------------------------------
def _direct_matrix(case):
    rnd = random.Random(case["mseed"])
    n, kind = case["n"], case["kind"]
    if case.get("matrix") is not None:
        return [list(map(float, r)) for r in case["matrix"]]
    M = [[0.0] * n for _ in range(n)]
    if kind in ("spd", "spd-big", "spd-small", "psd-singular"):
        r = max(1, n - 1) if kind == "psd-singular" else n + 2
        B = [[rnd.uniform(-1.0, 1.0) for _ in range(r)] for _ in range(n)]
        sc = {"spd-big": 1e6, "spd-small": 1e-6}.get(kind, 1.0)
        for i in range(n):
            for j in range(i, n):
                v = math.fsum(B[i][t] * B[j][t] for t in range(r))
                if i == j and kind != "psd-singular":
                    v += 0.1
                M[i][j] = M[j][i] = v * sc
    elif kind == "asym":         # symmetric up to rounding-like noise only (as (Zw)Z' is): tells axis 0 from axis 1
        for i in range(n):
            for j in range(n):
                M[i][j] = (2.0 if i == j else 0.5) + rnd.uniform(-1e-3, 1e-3)
    elif kind == "int":          # small integers: ties among extremes, negative entries, possibly singular
        for i in range(n):
            for j in range(i, n):
                v = float(rnd.randrange(1, 5)) if i == j else float(rnd.randrange(-2, 3))
                M[i][j] = M[j][i] = v
    elif kind == "diag":
        for i in range(n):
            M[i][i] = rnd.choice([0.5, 1.0, 2.0, 1.5])
    elif kind == "offdiag-max":  # largest element off the diagonal (max_inbreeding != max)
        for i in range(n):
            for j in range(i, n):
                v = rnd.uniform(0.5, 1.0) if i == j else rnd.uniform(1.5, 2.5) * (1 if rnd.random() < 0.7 else -1)
                M[i][j] = M[j][i] = v
    else:
        raise ValueError(kind)
    return M


def _run_direct(case):
    import numpy
    M = _direct_matrix(case)
    n = len(M)
    arr = numpy.array(M, dtype="float64").reshape(n, n)
    taxa = numpy.array(["d%d" % i for i in range(n)], dtype=object) if case.get("labels", "taxa") != "none" else None
    cm = _cls(case.get("klass", "molecular"))(mat=arr, taxa=taxa)
    for i in range(n):
        for j in range(n):
            if not _eqx(cm.mat[i, j], M[i][j]):
                return "views", "constructed matrix element [%d,%d]=%r, given %r" % (i, j, float(cm.mat[i, j]), M[i][j])
    r = _check_views_and_summaries(cm, True)
    if r:
        return r
    # the same clauses on the same values held in column-major (Fortran) memory order -- what an in-place taxa permutation leaves
    # behind, or a transposed array handed to the constructor; a query may not use the stored buffer as scratch space
    cmf = _cls(case.get("klass", "molecular"))(mat=numpy.asfortranarray(arr.copy()), taxa=None if taxa is None else taxa.copy())
    r = _check_views_and_summaries(cmf, True)
    if r:
        return r[0], "(matrix in Fortran memory order) " + r[1]
    if n >= 2:
        cmr = _cls(case.get("klass", "molecular"))(mat=arr.copy(), taxa=None if taxa is None else taxa.copy())
        cmr.reorder_taxa(numpy.arange(n)[::-1].copy())
        r = _check_views_and_summaries(cmr, True)
        if r:
            return r[0], "(after reorder_taxa) " + r[1]
    return None


def _run(case):
    if case["est"] == "base":
        return _run_direct(case)
    return _run_estimator(case)


def run_case(case):
    """Execute ONE case on the real code; (violated, message); message starts with '[clause]'"""
    import warnings
    _single_thread_blas()
    with warnings.catch_warnings():
        warnings.simplefilter("ignore")
        r = _run(case)
    if r is None:
        return False, ""
    if r[0] == "skip":
        return False, "skipped: " + r[1]
    return True, "[%s] %s" % (r[0], r[1])


def _replay(case):
    try:
        return run_case(case)
    except Exception as e:
        return True, "[exception] %s: %s" % (type(e).__name__, e)


def _clause(msg):
    if msg.startswith("[") and "]" in msg:
        return msg[1:msg.index("]")]
    return "other"


# --------------------------------------------------------------------------
# case generation
# --------------------------------------------------------------------------
def _product(vals, k):
    if k == 0:
        yield []
        return
    for head in _product(vals, k - 1):
        for v in vals:
            yield head + [v]


def _geno_from_counts(counts, n, m, pl):
    """unphased-style enumeration: counts[i*m+k] copies of allele 1, placed on the first copies"""
    return [[[1 if counts[i * m + k] > c else 0 for k in range(m)] for i in range(n)] for c in range(pl)]


def _arg_variants(est, rng, m, allow_none=True):
    """one random frequency / weight argument configuration for an estimator"""
    d = {}
    if est in ("vanraden", "yang", "gw"):
        r = rng.random()
        if r < 0.3 and allow_none:
            d.update(pform="none", pomit=rng.random() < 0.5)
        elif r < 0.6:
            pool = list(_P_INTERIOR) + [rng.uniform(0.05, 0.95)]
            ptype = rng.choice(["float", "float", "np"])
            if est == "gw" and rng.random() < 0.3:
                v = rng.choice([0, 1])
                d.update(pform="scalar", pval=v, ptype=rng.choice(["int", "float", "np"]))
            else:
                d.update(pform="scalar", pval=rng.choice(pool), ptype=ptype)
        else:
            pool = "interior" if est == "yang" else rng.choice(["interior", "closed", "closed"] + (["binary"] if est == "gw" else []))
            d.update(pform="array", pseed=rng.randrange(10 ** 6), ppool=pool)
    if est == "gw":
        r = rng.random()
        if r < 0.25:
            d.update(wform="none", womit=rng.random() < 0.5)
        elif r < 0.55:
            v = rng.choice([0.0, 1.0, 2.5, 1e-3, 7, 0, 1])
            d.update(wform="scalar", wval=v, wtype="int" if isinstance(v, int) else rng.choice(["float", "np"]))
        else:
            d.update(wform="array", wseed=rng.randrange(10 ** 6), wpool="zero" if rng.random() < 0.07 else "mix")
    return d


def _selection(rng, n):
    if n < 1:
        return None
    r = rng.random()
    idx = list(range(n))
    if r < 0.15:
        return None
    if r < 0.5:
        rng.shuffle(idx)
        return idx
    k = rng.randrange(1, n + 1)
    return rng.sample(idx, k)


def gen_cases(rng, tier, est):
    quick = tier == "quick"
    # ---- A: exhaustive small scopes (explicit genotypes)
    scopes = [  # (ploidy, phased, n, m)
        (2, False, 2, 2), (2, False, 3, 1), (2, False, 1, 1), (2, False, 1, 2),
        (1, False, 3, 2), (1, False, 2, 1), (1, False, 1, 1),
        (2, True, 2, 1), (1, True, 2, 2), (2, True, 1, 1),
    ]
    if not quick:
        scopes += [(2, False, 2, 3), (2, False, 4, 1), (1, False, 2, 4), (2, True, 3, 1), (2, True, 2, 2), (1, True, 4, 2)]
    for pl, phased, n, m in scopes:
        if phased:
            for bits in _product([0, 1], pl * n * m):
                geno = [[[bits[(c * n + i) * m + k] for k in range(m)] for i in range(n)] for c in range(pl)]
                for extra in _exh_args(est, m):
                    yield _mk(est, rng, pl, phased, n, m, geno=geno, **extra)
        else:
            for counts in _product(list(range(pl + 1)), n * m):
                geno = _geno_from_counts(counts, n, m, pl)
                for extra in _exh_args(est, m):
                    yield _mk(est, rng, pl, phased, n, m, geno=geno, **extra)
    # ---- B: seeded random small cases
    N = 260 if quick else 10000
    for _ in range(N):
        pl = rng.choice([1, 2, 2])
        phased = rng.random() < 0.5
        n = rng.choice([1, 2, 2, 3, 3, 4, 5, 6, 7]) if rng.random() < 0.97 else 0
        m = rng.choice([1, 1, 2, 3, 4, 5, 7, 10, 13])
        args = _arg_variants(est, rng, m, allow_none=n > 0)
        yield _mk(est, rng, pl, phased, n, m, gmode=rng.choice(["unif", "unif", "unif", "hom", "split", "het"]),
                  gseed=rng.randrange(10 ** 6), **args)
    # ---- C: many markers (int8 / uint8 / int16 accumulation limits)
    big_m = [127, 128, 129, 255, 256, 257, 300] if quick else [127, 128, 129, 130, 200, 254, 255, 256, 257, 258, 300, 511, 512,
                                                                  513, 1000, 4100, 33000]
    for m in big_m:
        reps = 2 if quick else (3 if m <= 1000 else 1)
        for rep in range(reps):
            for pl in (1, 2):
                n = rng.choice([2, 3, 4]) if m <= 1000 else 2
                args = _arg_variants(est, rng, m)
                yield _mk(est, rng, pl, rng.random() < 0.5, n, m, gmode=["split", "hom", "unif"][(rep + pl) % 3],
                          gseed=rng.randrange(10 ** 6), **args)
    # ---- D: many taxa (allele-count accumulation over taxa above 127 / 255)
    big_n = [(70, 2), (130, 1)] if quick else [(64, 3), (70, 2), (128, 2), (130, 1), (130, 3), (260, 1)]
    for n, m in big_n:
        for pl in (1, 2):
            for gmode in ("ones", "unif"):
                if quick and gmode == "unif" and pl == 1:
                    continue
                args = _arg_variants(est, rng, m)
                yield _mk(est, rng, pl, rng.random() < 0.5, n, m, gmode=gmode, gseed=rng.randrange(10 ** 6), **args)
    # ---- E: unsupported ploidy must be refused or follow the definition (molecular only)
    if est == "molecular":
        for pl in (3, 4):
            for phased in (False, True):
                yield _mk(est, rng, pl, phased, 3, 4, gmode="unif", gseed=rng.randrange(10 ** 6))


def _exh_args(est, m):
    """argument configurations used with every exhaustively enumerated genotype"""
    if est == "molecular":
        return [{}]
    if est in ("vanraden", "yang"):
        return [dict(pform="none", pomit=True), dict(pform="scalar", pval=0.5, ptype="float"),
                dict(pform="array", pseed=m, ppool="interior")]
    return [dict(pform="none", pomit=True, wform="none", womit=True),
            dict(pform="scalar", pval=0.25, ptype="float", wform="array", wseed=m, wpool="mix"),
            dict(pform="array", pseed=m + 1, ppool="closed", wform="scalar", wval=2.5, wtype="float")]


def _mk(est, rng, pl, phased, n, m, **kw):
    case = dict(est=est, ploidy=pl, phased=bool(phased), n=n, m=m,
                via=rng.choice(["class", "factory"]),
                labels=rng.choice(["none", "taxa", "grp", "grouped"]))
    case.update(kw)
    case["sel"] = _selection(rng, n) if n <= 12 else sorted(rng.sample(range(n), 5), key=lambda t: (t * 7) % 5)
    return case


def gen_direct(rng, tier):
    quick = tier == "quick"
    klasses = ["molecular", "vanraden", "yang", "gw"]
    # explicit corner matrices
    fixed = [
        [[1.0]], [[2.0]], [[0.5]],
        [[1.0, 0.0], [0.0, 1.0]],
        [[1.0, 1.0], [1.0, 1.0]],                     # singular, all ties
        [[2.0, 0.5], [0.5, 1.0]],
        [[1.0, 2.0], [2.0, 1.0]],                     # indefinite; max off the diagonal
        [[1.0, -0.5], [-0.5, 1.0]],
        [[2.0, 1.0, 0.0], [1.0, 2.0, 1.0], [0.0, 1.0, 2.0]],
        [[1.0, 0.5, 0.5], [0.5, 1.0, 0.5], [0.5, 0.5, 1.0]],
        [[0.0, 0.0], [0.0, 0.0]],                     # zero matrix
        [[1.5, 0.25, -0.25], [0.25, 1.0, 0.0], [-0.25, 0.0, 2.0]],
    ]
    for M in fixed:
        for k in klasses:
            yield dict(est="base", klass=k, n=len(M), m=1, kind="fixed", matrix=M, mseed=0, labels="taxa")
    N = 500 if quick else 20000
    for _ in range(N):
        n = rng.choice([1, 2, 2, 3, 3, 4, 5, 6, 8])
        yield dict(est="base", klass=rng.choice(klasses), n=n, m=1,
                   kind=rng.choice(["spd", "spd", "spd-big", "spd-small", "psd-singular", "int", "int", "diag", "offdiag-max", "asym"]),
                   mseed=rng.randrange(10 ** 6), labels=rng.choice(["taxa", "none"]))
    for n in ([20, 40] if quick else [20, 40, 80, 150]):
        yield dict(est="base", klass=rng.choice(klasses), n=n, m=1, kind="spd", mseed=rng.randrange(10 ** 6), labels="taxa")


# --------------------------------------------------------------------------
# units
# --------------------------------------------------------------------------
def _drive(ctx, cases, est):
    budget = 38.0 if ctx.tier == "quick" else 420.0
    t0, c0 = time.time(), time.process_time()
    seen = {}
    for case in cases:
        # the budget is CPU time (case counts stay comparable on a loaded machine), with a wall-clock guard
        if time.process_time() - c0 > budget or time.time() - t0 > 4 * budget:
            ctx.notes.append("time budget reached after %d cases" % ctx.evaluations)
            break
        try:
            bad, msg = run_case(case)
        except Exception as e:      # a crash of the real code on a valid input counts as a failure
            bad, msg = True, "[exception] %s: %s" % (type(e).__name__, e)
        nontrivial = case["n"] >= 2 and case["m"] >= 1 and not msg.startswith("skipped")
        ctx.case(key=repr(sorted(case.items(), key=str)), nontrivial=nontrivial,
                 sample={k: case.get(k) for k in ("est", "klass", "kind", "ploidy", "phased", "n", "m", "pform", "wform", "via")
                         if case.get(k) is not None})
        if bad:
            clause = _clause(msg)
            cls = "c13-%s-%s" % ("summaries" if est == "base" else est, clause)
            seen[cls] = seen.get(cls, 0) + 1
            if seen[cls] <= 3:
                ctx.fail_input("ring:%s:%s" % (est, clause), case, cls=cls, message=msg)
            if len(ctx.failures) >= 9:
                break


_RULE = ("exhaustive genotype enumeration at tiny shapes (all allele-count / allele-bit patterns) crossed with fixed "
         "argument forms, then seeded random cases (VERIF_SEED) over ploidy {1,2}, phased/unphased sources, label "
         "presence (none / taxa / groups / grouped metadata), reference-frequency and weight argument forms "
         "(absent, None, python/numpy scalar, array with exact 0/1 entries where the formula allows), class method vs "
         "factory, a taxa permutation or subset, marker counts around 127/255 and taxa counts above 64/128; inputs on "
         "which the published formula is undefined are skipped; a case is non-trivial with >= 2 taxa; distinct by full input")


@unit(P, "ring[molecular coancestry vs twice-average-IBS definition]", "R", bounded=True,
      note="bounded: exhaustive genotypes for n*m<=4 (thorough n*m<=6 / 8 allele bits), 260 (thorough 10000) random cases "
           "n<=7 m<=13, m in 127..300 (thorough ..33000), n up to 130 (thorough 260); seeded")
def u_ring_molecular(ctx):
    ctx.rule = _RULE
    _drive(ctx, gen_cases(ctx.rng, ctx.tier, "molecular"), "molecular")


@unit(P, "ring[VanRaden matrix vs published formula]", "R", bounded=True,
      note="bounded: exhaustive genotypes for n*m<=4 (thorough n*m<=6 / 8 allele bits), 260 (thorough 10000) random cases "
           "n<=7 m<=13, m in 127..300 (thorough ..33000), n up to 130 (thorough 260); seeded")
def u_ring_vanraden(ctx):
    ctx.rule = _RULE
    _drive(ctx, gen_cases(ctx.rng, ctx.tier, "vanraden"), "vanraden")


@unit(P, "ring[Yang matrix vs published formula]", "R", bounded=True,
      note="bounded: exhaustive genotypes for n*m<=4 (thorough n*m<=6 / 8 allele bits), 260 (thorough 10000) random cases "
           "n<=7 m<=13, m in 127..300 (thorough ..33000), n up to 130 (thorough 260); reference frequencies strictly "
           "inside (0,1); seeded")
def u_ring_yang(ctx):
    ctx.rule = _RULE
    _drive(ctx, gen_cases(ctx.rng, ctx.tier, "yang"), "yang")


@unit(P, "ring[generalized weighted matrix vs formula]", "R", bounded=True,
      note="bounded: exhaustive genotypes for n*m<=4 (thorough n*m<=6 / 8 allele bits), 260 (thorough 10000) random cases "
           "n<=7 m<=13, m in 127..300 (thorough ..33000), n up to 130 (thorough 260); weights >= 0 incl. zeros; seeded")
def u_ring_gw(ctx):
    ctx.rule = _RULE
    _drive(ctx, gen_cases(ctx.rng, ctx.tier, "gw"), "gw")


@unit(P, "ring[views and summaries on constructed matrices]", "R", bounded=True,
      note="bounded: 12 fixed corner matrices x 4 concrete classes, 500 (thorough 20000) seeded symmetric matrices n<=8 "
           "(SPD, scaled, singular PSD, small-integer with ties/negatives, diagonal, off-diagonal maximum, slightly asymmetric), n up to 40 (150)")
def u_ring_direct(ctx):
    ctx.rule = ("coancestry-matrix objects built directly from explicit / seeded symmetric matrices of every concrete "
                "class; kinship view, element access, max/min/mean over every axis and dtype, max_inbreeding, inverse and "
                "min_inbreeding in both formats compared with loops and numpy.linalg; distinct by matrix and class")
    _drive(ctx, gen_direct(ctx.rng, ctx.tier), "base")


REPLAYERS = {
    "ring[molecular coancestry vs twice-average-IBS definition]": _replay,
    "ring[VanRaden matrix vs published formula]": _replay,
    "ring[Yang matrix vs published formula]": _replay,
    "ring[generalized weighted matrix vs formula]": _replay,
    "ring[views and summaries on constructed matrices]": _replay,
}
