"""C17 native bounded rings (mode R): sampling utilities of
pybrops/core/random/sampling.py against oracles written from the property
statement.

  * stochastic_universal_sampling: exactly the requested number of draws in the
    requested shape; every element selected floor(e) or ceil(e) times where
    e = k * p_i / sum(p) in EXACT rational arithmetic on the given floats; an
    element of zero weight never selected.
  * tiled_choice(replace=False): every option used equally often up to a
    remainder of at most one.
  * axis_shuffle: the multiset of values of every requested slice is preserved.
  * outcross_shuffle: multiset of entries preserved, number of within-cross
    repeats never increases, result admits no single improving exchange.
  * all four: same generator state -> same result when called repeatedly in the
    same process; inputs that are not documented as in-place are not modified.

Every case is a JSON-serialisable dict; run_case(case) reproduces it alone.

Classes (cls) of failing inputs of the UNCHANGED library found by these rings
(each generated in a branch of its own, at most 3 inputs recorded per class,
the run always continues):
  sus-arange-pointer-count            numpy.arange(offset, tot, dist) has k-1 / k+1 entries
  sus-offset-zero-double-count        drawn offset exactly 0.0 AND all running sums / pointers exact in float: with the
                                      `<` walk pointer 0 and pointer cumsum[0] both hit element 0 (repaired by the
                                      `<=` walk; kept as a regression guard)
  sus-pointer-rounds-across-boundary  a real-arithmetic pointer coincides with a cumulative boundary; float rounding
                                      moves it to the wrong side (count outside floor/ceil)
  sus-pointer-past-cumsum             last pointer > sequential cumsum[-1] (< pairwise p.sum()): IndexError
  sus-zero-draws-division             size 0 / (0,) / (2,0): division by k == 0
  tiled-choice-scalar-shape-float-prod size=(): numpy.prod(()) is the float 1.0
  axis-shuffle-all-axes-scalar-slice  every axis listed (e.g. 1-d array, axis 0): shuffle of a numpy scalar
  axis-shuffle-negative-axis-ignored  negative axis numbers are silently treated as 'no axis'
  outcross-noncontiguous-ravel-copy   ravel() of a non-C-contiguous table is a copy: nothing is exchanged
Any other cls (sus-count-not-floor-or-ceil, sus-zero-weight-selected, sus-shape,
sus-exception, tiled-unbalanced, axis-shuffle-values-left-slice,
outcross-not-local-optimum, ...-not-reproducible, ...) is a new violation.
"""
import itertools
import signal
import warnings
from collections import Counter
from fractions import Fraction

import numpy

from pyvc.unit import unit

P = "C17"
SAMPLING = "pybrops/core/random/sampling.py"
TWO53 = 2 ** 53


# ---------------------------------------------------------------------------
# helpers
# ---------------------------------------------------------------------------

class _Timeout(Exception):
    pass


class _guard:
    """per-case guard in CPU seconds of this process (ITIMER_PROF), not wall-clock seconds: a hang of the real code (e.g. a hill
    climber that no longer terminates) burns CPU and is reported as a failure of that case after the same amount of work on an
    idle and on a fully loaded machine; a case that merely waits for a core is not"""

    def __init__(self, seconds):
        self.seconds = seconds
        self.armed = False

    def _raise(self, signum, frame):
        raise _Timeout("no result after %s s" % self.seconds)

    def __enter__(self):
        try:
            self.old = signal.signal(signal.SIGPROF, self._raise)
            signal.setitimer(signal.ITIMER_PROF, self.seconds)
            self.armed = True
        except Exception:
            self.armed = False
        return self

    def __exit__(self, *exc):
        if self.armed:
            signal.setitimer(signal.ITIMER_PROF, 0)
            signal.signal(signal.SIGPROF, self.old)
        return False


def _mk_rng(spec):
    """generator state from its JSON description.  'scripted': a RandomState
    whose uniform() returns low+(high-low)*j/2**53 with 0 <= j < 2**53, i.e.
    exactly a value that numpy's own uniform() can produce (random_sample()
    returns multiples of 2**-53 in [0,1)); 'global': rng=None with the numpy
    global generator reseeded"""
    kind = spec["kind"]
    if kind == "scripted":
        from pyvc.ring import ScriptedRandomState
        j = int(spec["j"])
        assert 0 <= j < TWO53
        return ScriptedRandomState([j / TWO53], seed=int(spec.get("seed", 0)))
    if kind == "RandomState":
        return numpy.random.RandomState(int(spec["seed"]))
    if kind == "Generator":
        return numpy.random.default_rng(int(spec["seed"]))
    if kind == "global":
        numpy.random.seed(int(spec["seed"]))
        return None
    raise ValueError("unknown rng kind %r" % (kind,))


def _size_arg(size):
    """JSON list -> tuple; int stays int"""
    if isinstance(size, (list, tuple)):
        return tuple(int(s) for s in size)
    return int(size)


def _size_shape(size):
    size = _size_arg(size)
    return size if isinstance(size, tuple) else (size,)


def _nelem(shape):
    n = 1
    for s in shape:
        n *= int(s)
    return n


def _mk_array(values, dtype):
    if dtype == "object":
        out = numpy.empty(len(values), dtype=object)
        for i, v in enumerate(values):
            out[i] = v
        return out
    return numpy.array(values, dtype=dtype)


def _same_result(x, y):
    x, y = numpy.asarray(x), numpy.asarray(y)
    return x.shape == y.shape and x.dtype == y.dtype and bool(numpy.array_equal(x, y))


def _key(case):
    return repr(sorted(case.items(), key=str))


def _catching(fn, case, seconds=10):
    try:
        with _guard(seconds), warnings.catch_warnings(), numpy.errstate(all="ignore"):
            warnings.simplefilter("ignore")
            return fn(case)
    except _Timeout as e:
        return True, "timeout: %s" % e, _generic_cls(case, "timeout"), "noraise"
    except Exception as e:
        return True, "exception %s: %s" % (type(e).__name__, e), _exception_cls(case, e), "noraise"


def _generic_cls(case, what):
    return "%s-%s" % (case.get("fn", "?"), what)


def _drive(ctx, cases, runner, nontrivial, sample):
    """run all cases; record at most 3 failing inputs per cls and keep going, so
    that a known class of failing inputs never hides another one"""
    seen = {}
    ntimeout = 0
    for case in cases:
        bad, msg, cls, clause = _catching(runner, case)
        if bad and clause == "noraise" and msg.startswith("timeout"):
            ntimeout += 1
        ctx.case(key=_key(case), nontrivial=nontrivial(case), sample=sample(case))
        if bad:
            seen[cls] = seen.get(cls, 0) + 1
            if seen[cls] <= 3:
                ctx.fail_input("ring:%s:%s" % (case["fn"], clause), case, cls=cls, message=msg)
            if len(seen) >= 8 or ntimeout >= 3:      # something is thoroughly broken; enough evidence
                break
    if seen:
        ctx.notes.append("failing inputs by class: %s" % sorted(seen.items()))


# ---------------------------------------------------------------------------
# stochastic universal sampling
# ---------------------------------------------------------------------------

def _sus_labels(n, akind):
    if akind == "str":
        return numpy.array(["e%03d" % i for i in range(n)])
    if akind == "float":
        return numpy.array([0.5 + 1.25 * i for i in range(n)], dtype="float64")
    return numpy.array([7 * i + 3 for i in range(n)], dtype="int64")


def _sus_near_boundary(case, k):
    """(some pointer near a boundary, last pointer near the total) for the
    real-arithmetic pointers (u+i)*T/k, u=j/2^53, against the cumulative sums of
    the weights taken in descending order; 'near' = within T*2^-42, i.e. within
    the accumulated rounding of a float64 cumulative sum / pointer ladder.
    Diagnostic only (names the class of the input), never part of the oracle."""
    import bisect
    w = sorted((Fraction(x) for x in numpy.array(case["p"], dtype=case.get("pdtype", "float64")).tolist()),
               reverse=True)
    cum, t = [], Fraction(0)
    for x in w:
        t += x
        cum.append(t)
    tol = t / 2 ** 42
    u = Fraction(int(case["rng"]["j"]), TWO53)
    near = False
    for i in range(k):
        ptr = (u + i) * t / k
        m = bisect.bisect_left(cum, ptr)
        for mm in (m - 1, m):
            if 0 <= mm < len(cum) and abs(cum[mm] - ptr) <= tol:
                near = True
    top = abs(t - (u + k - 1) * t / k) <= tol
    return near, top


def _sus_exact_ladder(case, k):
    """True iff float arithmetic is exact for this weight vector and k: every
    running sum of the weights taken in descending order, the total p.sum(),
    tot/k and every pointer i*(tot/k), i < k, equal their real-arithmetic values.
    Diagnostic only."""
    p = numpy.array(case["p"], dtype=case.get("pdtype", "float64"))
    w = sorted(p.tolist(), reverse=True)
    exact, acc = Fraction(0), (0 if p.dtype.kind in "iu" else 0.0)
    for x in w:
        exact += Fraction(x)
        acc = acc + x
        if Fraction(acc) != exact:
            return False
    with numpy.errstate(all="ignore"):
        tot = p.sum()
        if Fraction(tot.item()) != exact:
            return False
        dist = tot / k
        if Fraction(float(dist)) != exact / k:
            return False
        for i in range(k):
            if Fraction(float(dist * i)) != exact * i / k:
                return False
    return True


def _sus_input_class(case, p, k, exc=None, clause="counts"):
    """class of the failing INPUT for the float-edge situations of the library;
    only diagnostic (computed after a failure), never part of the oracle.
    Crashes / wrong number of draws and wrong counts are classified separately,
    so that repairing one defect does not hide the others."""
    spec = case["rng"]
    if k == 0:
        return "sus-zero-draws-division"
    if spec["kind"] != "scripted":
        return None
    j = int(spec["j"])
    near, top = _sus_near_boundary(case, k)
    if exc is not None or clause == "shape":
        with numpy.errstate(all="ignore"):
            tot = p.sum()
            dist = tot / k
            offset = 0.0 + (dist - 0.0) * (j / TWO53)
            try:
                npt = len(numpy.arange(offset, tot, dist))
            except Exception:
                npt = -1
        if isinstance(exc, IndexError) and top:
            return "sus-pointer-past-cumsum"
        if npt != k and not isinstance(exc, IndexError):
            return "sus-arange-pointer-count"
        return None
    if clause != "counts":
        return None
    if j == 0 and _sus_exact_ladder(case, k):
        # the tie between pointer i*dist and a cumulative boundary is exact in float
        # arithmetic: only the interval convention (< versus <=) decides
        return "sus-offset-zero-double-count"
    if near:
        # a pointer lies on a boundary in real arithmetic and float rounding of the
        # running sum / pointer ladder decides its side
        return "sus-pointer-rounds-across-boundary"
    return None


def _exception_cls(case, e):
    fn = case.get("fn")
    if fn == "sus":
        try:
            p = numpy.array(case["p"], dtype=case.get("pdtype", "float64"))
            k = _nelem(_size_shape(case["size"]))
            c = _sus_input_class(case, p, k, exc=e)
        except Exception:
            c = None
        return c if c is not None else "sus-exception"
    if fn == "tiled":
        if _size_arg(case["size"]) == ():
            return "tiled-choice-scalar-shape-float-prod"
        return "tiled-exception"
    if fn == "axis":
        if _axis_all(case) and not _axis_negative(case):
            return "axis-shuffle-all-axes-scalar-slice"
        if _axis_negative(case):
            return "axis-shuffle-negative-axis-ignored"
        return "axis-exception"
    if fn == "outcross":
        return "outcross-exception"
    return "exception"


def run_sus(case):
    from pybrops.core.random.sampling import stochastic_universal_sampling
    p = numpy.array(case["p"], dtype=case.get("pdtype", "float64"))
    n = len(p)
    a = _sus_labels(n, case.get("akind", "int"))
    size = _size_arg(case["size"])
    shape = _size_shape(case["size"])
    k = _nelem(shape)
    p0, a0 = p.copy(), a.copy()

    out = stochastic_universal_sampling(a, p, size, _mk_rng(case["rng"]))

    def cls(generic, clause):
        icls = _sus_input_class(case, p0, k, clause=clause)
        return icls if icls is not None else generic

    # requested number of draws in the requested shape
    got_shape = tuple(numpy.shape(out))
    if got_shape != tuple(shape):
        return True, "output shape %r, requested %r" % (got_shape, shape), cls("sus-shape", "shape"), "shape"
    flat = numpy.asarray(out).reshape(-1).tolist()
    if len(flat) != k:
        return True, "%d draws, requested %d" % (len(flat), k), cls("sus-shape", "shape"), "shape"
    # every draw is an element of a
    labels = a0.tolist()
    pos = {v: i for i, v in enumerate(labels)}
    cnt = [0] * n
    for v in flat:
        if v not in pos:
            return True, "drawn value %r is not an element of a" % (v,), cls("sus-foreign-value", "membership"), "membership"
        cnt[pos[v]] += 1
    # an element of zero weight is never selected (own class: the unchanged library
    # honours this clause even at its float-edge inputs)
    w = [Fraction(x) for x in p0.tolist()]
    for i in range(n):
        if w[i] == 0 and cnt[i] != 0:
            return (True, "element %d has weight 0 and was selected %d time(s); all counts %r" % (i, cnt[i], cnt),
                    "sus-zero-weight-selected", "zero-weight")
    # exact expected counts
    tot = sum(w)
    for i in range(n):
        e = w[i] * k / tot
        lo = e.numerator // e.denominator
        hi = lo if e.denominator == 1 else lo + 1
        if cnt[i] != lo and cnt[i] != hi:
            return (True, "element %d (weight %r) selected %d times; expected count %s = %.17g allows only %d or %d; "
                    "all counts %r" % (i, p0[i].item(), cnt[i], e, float(e), lo, hi, cnt),
                    cls("sus-count-not-floor-or-ceil", "counts"), "counts")
    # inputs untouched
    if not (numpy.array_equal(p, p0) and numpy.array_equal(a, a0)):
        return True, "the call modified its input arrays", cls("sus-input-mutated", "inputs"), "inputs"
    # same generator state -> same result, repeatedly in one process
    for rep in range(2):
        again = stochastic_universal_sampling(a, p, size, _mk_rng(case["rng"]))
        if not _same_result(out, again):
            return (True, "call %d with the same generator state returned %r, first call %r"
                    % (rep + 2, numpy.asarray(again).tolist(), numpy.asarray(out).tolist()),
                    cls("sus-not-reproducible", "determinism"), "determinism")
    return False, "ok", "", ""


def _factor_shapes(rng, k):
    """a few shapes with k elements"""
    out = [k, [k]]
    divs = [d for d in range(1, k + 1) if k % d == 0] if k > 0 else [1]
    d = rng.choice(divs)
    out.append([d, k // d] if k > 0 else [0, 3])
    d2 = rng.choice(divs)
    rest = k // d2 if k > 0 else 0
    d3 = rng.choice([x for x in range(1, rest + 1) if rest % x == 0]) if rest > 0 else 1
    out.append([d2, d3, rest // d3] if k > 0 else [2, 0, 1])
    out.append([1, k])
    return out


_EDGE_J = [0, 1, 2, 2 ** 20, 2 ** 51, 2 ** 52, 3002399751580331, 6004799503160661,
           TWO53 - 2 ** 30, TWO53 - 2, TWO53 - 1]


def _rand_weights(rng, n, family):
    if family == "int":
        return [float(rng.choice([0, 0, 1, 1, 2, 3, 5, 8])) for _ in range(n)]
    if family == "ties":
        vals = [rng.choice([0.0, 0.1, 0.2, 0.3, 0.7, 1.0 / 3.0, 2.5]) for _ in range(3)]
        return [rng.choice(vals) for _ in range(n)]
    if family == "wide":
        return [0.0 if rng.random() < 0.15 else rng.uniform(0.5, 2.0) * 10.0 ** rng.randint(-12, 12) for _ in range(n)]
    if family == "huge":
        s = 10.0 ** rng.choice([-100, -30, 30, 100])
        return [0.0 if rng.random() < 0.15 else rng.random() * s for _ in range(n)]
    if family == "onebig":
        w = [rng.choice([0.0, 1.0, 1.0, 2.0]) for _ in range(n)]
        w[rng.randrange(n)] = 10.0 ** rng.choice([15, 16, 17, 20])
        return w
    return [0.0 if rng.random() < 0.15 else rng.random() for _ in range(n)]   # "unif"


def _fix_positive(rng, w):
    if not any(x > 0 for x in w):
        w[rng.randrange(len(w))] = 1.0
    return w


# fixed witnesses of the float-edge input classes (found by this ring; kept so that
# every class is exercised whatever VERIF_SEED is)
_SUS_WITNESSES = [
    dict(fn="sus", p=[1.0, 1.0, 1.0], size=3, rng=dict(kind="scripted", j=0)),
    dict(fn="sus", p=[1.0, 1.0, 1.0], size=3, rng=dict(kind="scripted", j=TWO53 - 1)),
    dict(fn="sus", p=[1.0, 1.0], size=2, rng=dict(kind="scripted", j=1)),
    dict(fn="sus", p=[3.0, 2.0, 0.0, 1.0, 1.0, 1.0], pdtype="int64", size=[12, 1], rng=dict(kind="scripted", j=2 ** 52)),
    dict(fn="sus", p=[2.5, 0.3333333333333333, 2.5], size=[2], rng=dict(kind="scripted", j=TWO53 - 1)),
    dict(fn="sus", p=[0.7, 0.3, 0.3, 0.3, 0.7, 0.7, 0.3], size=4, rng=dict(kind="scripted", j=TWO53 - 1)),
]


def gen_sus_scripted(rng, tier):
    thorough = tier == "thorough"
    for case in _SUS_WITNESSES:
        yield dict(case)
    # (1) exhaustive small scope: integer weights (exact ties, exact zeros), all k, edge offsets
    nmax, vmax, kmax = (4, 3, 7) if thorough else (3, 3, 5)
    for n in range(1, nmax + 1):
        for w in itertools.product(range(vmax + 1), repeat=n):
            if sum(w) == 0:
                continue
            for k in range(1, kmax + 1):
                for j in (0, 1, 2 ** 52, 3002399751580331, TWO53 - 1):
                    yield dict(fn="sus", p=[float(x) for x in w], size=k, rng=dict(kind="scripted", j=j))
    # (2) zero draws, 0-d shape, absent optional... (size None is not a size: excluded)
    for size in (0, [0], [2, 0], [0, 3, 1]):
        yield dict(fn="sus", p=[1.0, 2.0, 0.0], size=size, rng=dict(kind="scripted", j=2 ** 52))
    for j in (1, 2 ** 52, TWO53 - 2 ** 30):
        yield dict(fn="sus", p=[1.0, 2.0, 0.0], size=[], rng=dict(kind="scripted", j=j))
    # (3) random weight vectors, edge and random offsets, all shapes
    ncase = 60000 if thorough else 6000
    nhi = 40 if thorough else 14
    fams = ["int", "ties", "wide", "huge", "onebig", "unif"]
    for i in range(ncase):
        n = rng.randint(1, nhi) if rng.random() < 0.8 else rng.randint(1, 3)
        fam = fams[i % len(fams)]
        w = _fix_positive(rng, _rand_weights(rng, n, fam))
        k = rng.randint(1, 3 * n + 2) if rng.random() < 0.85 else rng.choice([1, n, 2 * n, 64, 100])
        size = rng.choice(_factor_shapes(rng, k))
        j = rng.choice(_EDGE_J) if rng.random() < 0.5 else rng.randrange(TWO53)
        case = dict(fn="sus", p=w, size=size, rng=dict(kind="scripted", j=j))
        if fam == "int" and rng.random() < 0.5:
            case["pdtype"] = "int64"
        if rng.random() < 0.2:
            case["akind"] = rng.choice(["str", "float"])
        yield case
    # (4) equal weights with k a multiple of n (all expected counts exact integers)
    for n in range(1, 13 if thorough else 8):
        for wv in (1.0, 0.1, 0.3, 1.0 / 3.0, 1e-7, 3e9):
            for mult in (1, 2, 3):
                for j in _EDGE_J:
                    yield dict(fn="sus", p=[wv] * n, size=n * mult, rng=dict(kind="scripted", j=j))


def gen_sus_seeded(rng, tier):
    thorough = tier == "thorough"
    ncase = 40000 if thorough else 5000
    nhi = 40 if thorough else 14
    fams = ["int", "ties", "wide", "huge", "onebig", "unif"]
    kinds = ["RandomState", "Generator", "global"]
    for i in range(ncase):
        n = rng.randint(1, nhi)
        fam = fams[i % len(fams)]
        w = _fix_positive(rng, _rand_weights(rng, n, fam))
        k = rng.randint(1, 3 * n + 2) if rng.random() < 0.85 else rng.choice([1, n, 2 * n, 64, 100])
        size = rng.choice(_factor_shapes(rng, k) + [[]] if k == 1 else _factor_shapes(rng, k))
        case = dict(fn="sus", p=w, size=size, rng=dict(kind=kinds[i % 3], seed=rng.randrange(2 ** 31)))
        if fam == "int" and rng.random() < 0.5:
            case["pdtype"] = "int64"
        if rng.random() < 0.2:
            case["akind"] = rng.choice(["str", "float"])
        yield case


def _sus_nontrivial(case):
    return len(case["p"]) >= 2 and _nelem(_size_shape(case["size"])) >= 1


def _sus_sample(case):
    return dict(p=case["p"][:6], size=case["size"], rng=case["rng"])


@unit(P, "ring[SUS scripted offsets: counts, shape, zero weight]", "R", bounded=True,
      targets=[SAMPLING + ":stochastic_universal_sampling"],
      note="bounded: exhaustive integer weights n<=3 (thorough 4), values 0..3, k<=5 (7), 5 scripted offsets; "
           "6000 (60000) random weight vectors n<=14 (40) incl. ties, zeros, 1e-12..1e12 and 1e+-100 magnitudes, "
           "k<=3n+2 or 64/100, all shapes, offsets j/2^53 with edge j (0, 1, 2^53-1, ...) and random j")
def u_ring_sus_scripted(ctx):
    ctx.rule = ("weights: exhaustive small integer vectors plus seeded random families (int, ties, wide, huge, onebig, "
                "unif); the generator's single uniform draw is scripted to j/2^53 (a value numpy's uniform can return); "
                "oracle: exact rational floor/ceil counts, zero weight never drawn, shape, reproducibility; a case is "
                "non-trivial if it has >= 2 elements and >= 1 draw; distinct by full input")
    _drive(ctx, gen_sus_scripted(ctx.rng, ctx.tier), run_sus, _sus_nontrivial, _sus_sample)


@unit(P, "ring[SUS seeded generators: counts, shape, reproducibility]", "R", bounded=True,
      targets=[SAMPLING + ":stochastic_universal_sampling"],
      note="bounded: 5000 (thorough 40000) random weight vectors n<=14 (40), RandomState / Generator / rng=None with "
           "reseeded global generator, all shapes incl. 0-d")
def u_ring_sus_seeded(ctx):
    ctx.rule = ("as the scripted ring but with real numpy generators (RandomState, Generator, global via rng=None) "
                "seeded from the case; each case is run three times from the same generator state")
    _drive(ctx, gen_sus_seeded(ctx.rng, ctx.tier), run_sus, _sus_nontrivial, _sus_sample)


# ---------------------------------------------------------------------------
# tiled_choice
# ---------------------------------------------------------------------------

def run_tiled(case):
    from pybrops.core.random.sampling import tiled_choice
    a = _mk_array(case["a"], case.get("adtype", "int64"))
    a0 = a.copy()
    size = _size_arg(case["size"])
    shape = _size_shape(case["size"])
    nsample = _nelem(shape)
    replace = bool(case["replace"])
    p = None if case.get("p") is None else numpy.array(case["p"], dtype="float64")
    p0 = None if p is None else p.copy()
    scalar_shape = (size == ())

    def cls(generic):
        return "tiled-choice-scalar-shape-float-prod" if scalar_shape else generic

    out = tiled_choice(a, size, replace, p, _mk_rng(case["rng"]))

    got_shape = tuple(numpy.shape(out))
    if got_shape != tuple(shape):
        return True, "output shape %r, requested %r" % (got_shape, shape), cls("tiled-shape"), "shape"
    flat = numpy.asarray(out).reshape(-1).tolist()
    options = a0.tolist()
    mult = Counter(options)
    cnt = Counter(flat)
    for v in cnt:
        if v not in mult:
            return True, "drawn value %r is not an option" % (v,), cls("tiled-foreign-value"), "membership"
    if not replace:
        q, r = divmod(nsample, len(options))
        for v, m in mult.items():
            c = cnt.get(v, 0)
            if not (m * q <= c <= m * q + m):
                return (True, "option %r (multiplicity %d in a) used %d times; %d samples over %d options allow "
                        "%d..%d; counts %r" % (v, m, c, nsample, len(options), m * q, m * q + m, dict(cnt)),
                        cls("tiled-unbalanced"), "balance")
        if len(mult) == len(options) and len(options) > 0:
            cs = [cnt.get(v, 0) for v in options]
            if max(cs) - min(cs) > 1 or sum(cs) != nsample:
                return True, "usage counts %r differ by more than one" % (cs,), cls("tiled-unbalanced"), "balance"
    if not numpy.array_equal(a, a0) or (p is not None and not numpy.array_equal(p, p0)):
        return True, "the call modified its input arrays", cls("tiled-input-mutated"), "inputs"
    for rep in range(2):
        again = tiled_choice(a, size, replace, p, _mk_rng(case["rng"]))
        if not _same_result(out, again):
            return (True, "call %d with the same generator state returned %r, first call %r"
                    % (rep + 2, numpy.asarray(again).tolist(), numpy.asarray(out).tolist()),
                    cls("tiled-not-reproducible"), "determinism")
    return False, "ok", "", ""


def _options(rng, n, kind):
    if kind == "int64":
        return rng.sample(range(-50, 200), n), "int64"
    if kind == "int8":
        return rng.sample(range(-128, 128), n), "int8"
    if kind == "float64":
        return [x * 0.25 for x in rng.sample(range(-40, 400), n)], "float64"
    if kind == "str":
        return ["opt%d" % x for x in rng.sample(range(500), n)], "U8"
    if kind == "object":
        return ["o%d" % x if x % 2 else x for x in rng.sample(range(500), n)], "object"
    if kind == "dups":
        base = rng.sample(range(50), max(1, (n + 1) // 2))
        return [rng.choice(base) for _ in range(n)], "int64"
    raise ValueError(kind)


def gen_tiled(rng, tier):
    thorough = tier == "thorough"
    kinds = ["RandomState", "Generator", "global"]
    # (1) exhaustive small scope: n options, nsample draws, both generator classes
    nmax, smax = (8, 26) if thorough else (6, 20)
    for n in range(1, nmax + 1):
        for ns in range(0, smax + 1):
            for kind in kinds[:2]:
                yield dict(fn="tiled", a=list(range(10, 10 + n)), size=ns, replace=False, p=None,
                           rng=dict(kind=kind, seed=1000 * n + ns))
    # (2) 0-d shape (one draw) -- a valid numpy shape
    for n in (1, 3):
        for replace in (False, True):
            yield dict(fn="tiled", a=list(range(n)), size=[], replace=replace, p=None,
                       rng=dict(kind="RandomState", seed=5))
    # (3) random
    ncase = 30000 if thorough else 4000
    for i in range(ncase):
        n = rng.randint(1, 30 if thorough else 12)
        vals, dt = _options(rng, n, rng.choice(["int64", "int64", "int8", "float64", "str", "object", "dups"]))
        ns = rng.choice([0, 1, n - 1, n, n + 1, 2 * n, 2 * n + 1, 3 * n - 1, rng.randint(0, 5 * n)])
        ns = max(ns, 0)
        size = rng.choice(_factor_shapes(rng, ns))
        replace = rng.random() < 0.15
        p = None
        if rng.random() < 0.35:
            w = [rng.random() + 0.01 for _ in range(n)]
            re = ns % n
            nzero = rng.randint(0, max(0, n - max(re, 1)))      # keep enough non-zero entries for the remainder
            for z in rng.sample(range(n), nzero):
                w[z] = 0.0
            if sum(w) == 0:
                w[0] = 1.0
            p = (numpy.array(w) / numpy.array(w).sum()).tolist()
        yield dict(fn="tiled", a=vals, adtype=dt, size=size, replace=replace, p=p,
                   rng=dict(kind=kinds[i % 3], seed=rng.randrange(2 ** 31)))


@unit(P, "ring[tiled_choice balance, shape, reproducibility]", "R", bounded=True,
      targets=[SAMPLING + ":tiled_choice"],
      note="bounded: exhaustive n<=6 (thorough 8) options x 0..20 (26) draws x 2 generator classes; 4000 (30000) "
           "random option sets n<=12 (30) of int/int8/float/str/object/duplicated values, 0..5n draws in all shapes "
           "incl. 0-d and empty, optional p with zeros, RandomState / Generator / global")
def u_ring_tiled(ctx):
    ctx.rule = ("option sets with distinct values (count of every option in {q, q+1}) and with duplicated values "
                "(count within m*q..m*q+m); replace=True cases check shape and membership only; each case is run three "
                "times from the same generator state; non-trivial if >= 2 options and >= 1 draw")
    _drive(ctx, gen_tiled(ctx.rng, ctx.tier), run_tiled,
           lambda c: len(c["a"]) >= 2 and _nelem(_size_shape(c["size"])) >= 1,
           lambda c: dict(a=c["a"][:6], size=c["size"], replace=c["replace"], rng=c["rng"]))


# ---------------------------------------------------------------------------
# axis_shuffle
# ---------------------------------------------------------------------------

def _axis_tuple(case):
    ax = case["axis"]
    return tuple(int(x) for x in ax) if isinstance(ax, (list, tuple)) else (int(ax),)


def _axis_all(case):
    nd = len(case["shape"])
    return nd >= 1 and set(x % nd for x in _axis_tuple(case)) == set(range(nd))


def _axis_negative(case):
    return any(x < 0 for x in _axis_tuple(case))


def _axis_build(case):
    shape = tuple(int(s) for s in case["shape"])
    n = _nelem(shape)
    if case.get("vals", "distinct") == "distinct":
        flat = list(range(100, 100 + n))
    else:
        flat = [(i * 7 + 3) % max(2, n // 3) for i in range(n)]
    dtype = case.get("dtype", "int64")
    if dtype == "float64":
        flat = [x + 0.5 for x in flat]
    base = numpy.array(flat, dtype=dtype).reshape(shape)
    layout = case.get("layout", "C")
    if layout == "F":
        return numpy.asfortranarray(base)
    if layout == "view":                      # non-contiguous view into a larger buffer
        big = numpy.zeros(tuple(2 * s for s in shape), dtype=dtype)
        v = big[tuple(slice(None, None, 2) for _ in shape)]
        v[...] = base
        return v
    return base


def run_axis(case):
    from pybrops.core.random.sampling import axis_shuffle
    a = _axis_build(case)
    before = a.copy()
    axis_arg = case["axis"]
    axis_arg = tuple(int(x) for x in axis_arg) if isinstance(axis_arg, (list, tuple)) else int(axis_arg)
    all_axes = _axis_all(case)

    def cls(generic):
        if _axis_negative(case):
            return "axis-shuffle-negative-axis-ignored"
        return "axis-shuffle-all-axes-scalar-slice" if all_axes else generic

    ret = axis_shuffle(a, axis_arg, _mk_rng(case["rng"]))
    if ret is not None:
        return True, "returned %r, documented in-place (None)" % (ret,), cls("axis-return"), "return"
    if a.shape != before.shape or a.dtype != before.dtype:
        return True, "shape/dtype changed to %r/%s" % (a.shape, a.dtype), cls("axis-shape"), "shape"
    nd = a.ndim
    fixed = sorted(set(x % nd for x in _axis_tuple(case)))
    # every requested slice = one choice of indices on the listed axes, everything on the others
    for combo in itertools.product(*[range(a.shape[x]) for x in fixed]):
        sel = [slice(None)] * nd
        for x, i in zip(fixed, combo):
            sel[x] = i
        sel = tuple(sel)
        b = Counter(numpy.asarray(before[sel]).reshape(-1).tolist())
        c = Counter(numpy.asarray(a[sel]).reshape(-1).tolist())
        if b != c:
            return (True, "slice %r held %r before and %r after the shuffle" % (
                [("all" if isinstance(s, slice) else s) for s in sel],
                numpy.asarray(before[sel]).tolist(), numpy.asarray(a[sel]).tolist()),
                cls("axis-shuffle-values-left-slice"), "slices")
    # reproducible
    for rep in range(2):
        a2 = _axis_build(case)
        axis_shuffle(a2, axis_arg, _mk_rng(case["rng"]))
        if not numpy.array_equal(a, a2):
            return (True, "call %d with the same generator state gave %r, first %r" % (rep + 2, a2.tolist(), a.tolist()),
                    cls("axis-not-reproducible"), "determinism")
    return False, "ok", "", ""


def gen_axis(rng, tier):
    thorough = tier == "thorough"
    kinds = ["RandomState", "Generator", "global"]
    dims = [0, 1, 2, 3, 4] if thorough else [0, 1, 2, 3]
    i = 0
    # exhaustive shapes up to 3-d (4-d random below) x every subset of axes
    for nd in (1, 2, 3):
        for shape in itertools.product(dims, repeat=nd):
            for r in range(0, nd + 1):
                for axes in itertools.combinations(range(nd), r):
                    if nd == 3 and not thorough and (i % 3):
                        i += 1
                        continue
                    i += 1
                    ax = axes[0] if (len(axes) == 1 and i % 2) else list(axes)     # scalar vs tuple argument
                    yield dict(fn="axis", shape=list(shape), axis=ax, layout=["C", "F", "view"][i % 3],
                               vals="distinct" if i % 4 else "dups", dtype="int64" if i % 5 else "float64",
                               rng=dict(kind=kinds[i % 3], seed=i))
    # negative spellings of the axes (own branch: the unchanged library ignores them)
    for nd in (1, 2, 3):
        for r in range(1, nd + 1):
            for axes in itertools.combinations(range(nd), r):
                i += 1
                yield dict(fn="axis", shape=[3, 2, 4][:nd], axis=[x - nd for x in axes], layout="C",
                           vals="distinct", dtype="int64", rng=dict(kind=kinds[i % 3], seed=i))
    ncase = 6000 if thorough else 800
    for t in range(ncase):
        nd = rng.choice([2, 3, 4, 4])
        shape = [rng.randint(1, 5) for _ in range(nd)]
        r = rng.randint(0, nd - 1)
        axes = sorted(rng.sample(range(nd), r))
        if rng.random() < 0.15:                 # negative spellings of the same axes
            axes = [x - nd for x in axes]
        if rng.random() < 0.2:
            rng.shuffle(axes)
        ax = axes[0] if (len(axes) == 1 and rng.random() < 0.5) else axes
        yield dict(fn="axis", shape=shape, axis=ax, layout=rng.choice(["C", "F", "view"]),
                   vals=rng.choice(["distinct", "distinct", "dups"]), dtype="int64",
                   rng=dict(kind=kinds[t % 3], seed=rng.randrange(2 ** 31)))


@unit(P, "ring[axis_shuffle values stay in requested slices]", "R", bounded=True,
      targets=[SAMPLING + ":axis_shuffle", "pybrops/core/util/array.py:sliceaxisix"],
      note="bounded: all shapes with extents 0..3 (thorough 0..4) up to 3-d x every subset of axes (scalar and tuple "
           "spelling) x C/F/strided-view layouts; 800 (6000) random 2..4-d shapes with extents <= 5")
def u_ring_axis(ctx):
    ctx.rule = ("arrays of pairwise distinct values (so that a value leaving its slice is always visible) or of "
                "repeated values; the oracle enumerates the slices itself (product over the listed axes); "
                "non-trivial if the array has >= 2 elements")
    _drive(ctx, gen_axis(ctx.rng, ctx.tier), run_axis,
           lambda c: _nelem(c["shape"]) >= 2,
           lambda c: dict(shape=c["shape"], axis=c["axis"], layout=c.get("layout"), rng=c["rng"]))


# ---------------------------------------------------------------------------
# outcross_shuffle
# ---------------------------------------------------------------------------

def _dups(rows):
    """number of repeated individuals within crosses: every occurrence of a
    value in a row beyond its first one"""
    tot = 0
    for row in rows:
        seen = set()
        for v in row:
            if v in seen:
                tot += 1
            else:
                seen.add(v)
    return tot


def _oc_build(case):
    ncross, nparent = (int(s) for s in case["shape"])
    dtype = case.get("dtype", "int64")
    rows = case["x"]
    base = numpy.array(rows, dtype=dtype).reshape(ncross, nparent)
    layout = case.get("layout", "C")
    if layout == "F":
        return numpy.asfortranarray(base)
    if layout == "T":                         # transpose of a C array of shape (nparent, ncross)
        t = numpy.ascontiguousarray(base.T)
        return t.T
    if layout == "view":
        big = numpy.zeros((ncross, 2 * nparent), dtype=dtype)
        v = big[:, ::2]
        v[...] = base
        return v
    return base


def run_outcross(case):
    from pybrops.core.random.sampling import outcross_shuffle
    x = _oc_build(case)
    before = x.copy()
    noncontig = not x.flags["C_CONTIGUOUS"]

    def cls(generic):
        return "outcross-noncontiguous-ravel-copy" if noncontig else generic

    ret = outcross_shuffle(x, _mk_rng(case["rng"]))
    if ret is not None:
        return True, "returned %r, documented in-place (None)" % (ret,), cls("outcross-return"), "return"
    if x.shape != before.shape or x.dtype != before.dtype:
        return True, "shape/dtype changed to %r/%s" % (x.shape, x.dtype), cls("outcross-shape"), "shape"
    rows0 = before.tolist()
    rows1 = x.tolist()
    flat0 = [v for r in rows0 for v in r]
    flat1 = [v for r in rows1 for v in r]
    if Counter(flat0) != Counter(flat1):
        return (True, "multiset of entries changed: before %r after %r" % (rows0, rows1),
                cls("outcross-multiset-changed"), "multiset")
    d0, d1 = _dups(rows0), _dups(rows1)
    if d1 > d0:
        return (True, "repeats within crosses rose from %d to %d: before %r after %r" % (d0, d1, rows0, rows1),
                cls("outcross-repeats-increased"), "monotone")
    # local optimality: brute force over every single exchange of two entries
    npar = x.shape[1]
    n = len(flat1)
    for i in range(n):
        for j in range(i + 1, n):
            if flat1[i] == flat1[j]:
                continue
            trial = list(flat1)
            trial[i], trial[j] = trial[j], trial[i]
            rows = [trial[r * npar:(r + 1) * npar] for r in range(x.shape[0])]
            d = _dups(rows)
            if d < d1:
                return (True, "stopped at %r (%d repeats, start %r) although exchanging entries (%d,%d) and (%d,%d) "
                        "gives %d" % (rows1, d1, rows0, i // npar, i % npar, j // npar, j % npar, d),
                        cls("outcross-not-local-optimum"), "local-optimum")
    for rep in range(int(case.get("reps", 2))):
        x2 = _oc_build(case)
        outcross_shuffle(x2, _mk_rng(case["rng"]))
        if not numpy.array_equal(x, x2):
            return (True, "call %d with the same generator state gave %r, first %r" % (rep + 2, x2.tolist(), rows1),
                    cls("outcross-not-reproducible"), "determinism")
    return False, "ok", "", ""


def _oc_case(rows, shape, layout, kind, seed, dtype="int64"):
    return dict(fn="outcross", x=[list(r) for r in rows], shape=list(shape), layout=layout, dtype=dtype,
                rng=dict(kind=kind, seed=seed))


def gen_outcross(rng, tier, layouts):
    thorough = tier == "thorough"
    kinds = ["RandomState", "Generator", "global"]
    i = 0
    # (1) degenerate tables
    if "C" in layouts:
        for shape in ((0, 2), (0, 3), (1, 1), (1, 2), (1, 4), (2, 1), (3, 1)):
            rows = [[0] * shape[1] for _ in range(shape[0])]
            yield _oc_case(rows, shape, "C", "RandomState", 1)
    # (2) exhaustive small tables: ncross x nparent over nval values
    scopes = [(2, 2, 3), (3, 2, 3), (2, 3, 3), (2, 4, 2)]
    if thorough:
        scopes += [(4, 2, 3), (2, 4, 3), (2, 3, 4), (3, 3, 3)]
    for ncross, nparent, nval in scopes:
        for flat in itertools.product(range(nval), repeat=ncross * nparent):
            i += 1
            if (ncross, nparent, nval) == (3, 3, 3) and i % 5:      # every 5th 3x3 table
                continue
            rows = [flat[r * nparent:(r + 1) * nparent] for r in range(ncross)]
            yield _oc_case(rows, (ncross, nparent), layouts[i % len(layouts)], kinds[i % 2], i)
    # (3) random larger tables, the shape the selection configurations produce (tiled individuals)
    ncase = 4000 if thorough else 400
    for t in range(ncase):
        nparent = rng.choice([2, 3, 4])
        ncross = rng.randint(1, 7 if thorough else 5)
        n = ncross * nparent
        style = rng.choice(["tiled", "few", "many", "const"])
        if style == "tiled":
            nind = rng.randint(1, n)
            flat = [(q % nind) for q in range(n)]
            rng.shuffle(flat)
        elif style == "few":
            flat = [rng.randrange(3) for _ in range(n)]
        elif style == "many":
            flat = [rng.randrange(2 * n) for _ in range(n)]
        else:
            flat = [4] * n
            for _ in range(rng.randint(0, 2)):
                flat[rng.randrange(n)] = rng.randrange(3)
        if rng.random() < 0.3:
            flat = sorted(flat)                 # worst start: repeats adjacent
        rows = [flat[r * nparent:(r + 1) * nparent] for r in range(ncross)]
        dtype = rng.choice(["int64", "int64", "int8", "int32"])
        yield _oc_case(rows, (ncross, nparent), rng.choice(layouts), kinds[t % 3], rng.randrange(2 ** 31), dtype)


def _canon_tables(ncross, nparent, nval):
    """all ncross x nparent tables over nval values with >= 1 repeat inside a cross"""
    for flat in itertools.product(range(nval), repeat=ncross * nparent):
        rows = [list(flat[r * nparent:(r + 1) * nparent]) for r in range(ncross)]
        if _dups(rows) >= 1:
            yield rows


def gen_outcross_seeds(rng, tier):
    """many (table, generator state) pairs on small duplicate-rich tables: whether the
    hill climber ends in a true local optimum may depend on the order in which the
    generator presents the exchange pairs, so every table is run from several states.
    One call per pair (reps=0; reproducibility is covered by the other rings)."""
    thorough = tier == "thorough"

    def seeds(nrs, ngen):
        out = [("RandomState", rng.randrange(2 ** 31)) for _ in range(nrs)]
        out += [("Generator", rng.randrange(2 ** 31)) for _ in range(ngen)]
        return out

    def emit(rows, nrs, ngen):
        shape = (len(rows), len(rows[0]))
        for kind, seed in seeds(nrs, ngen):
            c = _oc_case(rows, shape, "C", kind, seed)
            c["reps"] = 0
            yield c

    # (1) ALL 4x2 tables over 3 values with >= 3 repeats inside crosses (729 tables: three or four
    #     crosses of an individual with itself, e.g. [[0,0],[1,1],[0,0],[1,2]], [[3,3],[2,2],[1,1],[1,1]]):
    #     many improving exchanges are needed and equal values sit at many position pairs
    pool = list(_canon_tables(4, 2, 3))
    heavy = [t for t in pool if _dups(t) >= 3]
    for rows in heavy:
        yield from emit(rows, 8, 8) if thorough else emit(rows, 3, 2)
    #     a sample (thorough: all) of the other tables with duplicated rows / without
    light = [t for t in pool if _dups(t) < 3]
    duprow = [t for t in light if len(set(map(tuple, t))) < 4]
    for rows in (duprow if thorough else rng.sample(duprow, 150)):
        yield from emit(rows, 2, 2)
    rest = [t for t in light if len(set(map(tuple, t))) == 4]
    for rows in (rest if thorough else rng.sample(rest, 50)):
        yield from emit(rows, 2, 2)
    # (2) 4x2 tables over 4 values, mostly self-crosses [v,v] and duplicated rows
    for _ in range(1500 if thorough else 130):
        while True:
            rows = []
            for _r in range(4):
                v = rng.randrange(4)
                rows.append([v, v] if rng.random() < 0.7 else [v, rng.randrange(4)])
            if rng.random() < 0.5:
                rows[rng.randrange(4)] = list(rows[rng.randrange(4)])
            if _dups(rows) >= 2:
                break
        yield from emit(rows, 4, 4)
    # (3) 5x2, 6x2, 4x3, 3x3, 3x4 tables from few individuals, many repeats inside crosses
    for _ in range(1500 if thorough else 120):
        ncross, nparent = rng.choice([(5, 2), (5, 2), (4, 3), (4, 3), (3, 3), (3, 4), (6, 2)])
        nval = rng.choice([2, 3, 3, 4])
        while True:
            rows = []
            for _r in range(ncross):
                if rng.random() < 0.6:
                    v = rng.randrange(nval)
                    row = [v] * nparent
                    if nparent > 2 and rng.random() < 0.5:
                        row[rng.randrange(nparent)] = rng.randrange(nval)
                else:
                    row = [rng.randrange(nval) for _ in range(nparent)]
                rows.append(row)
            if _dups(rows) >= 2:
                break
        yield from emit(rows, 3, 3)


def _oc_nontrivial(case):
    return _dups(case["x"]) >= 1 and len(case["x"]) >= 2


def _oc_sample(case):
    return dict(x=case["x"], layout=case["layout"], rng=case["rng"])


@unit(P, "ring[outcross_shuffle multiset, monotone, local optimum]", "R", bounded=True,
      targets=[SAMPLING + ":outcross_shuffle"],
      note="bounded: C-contiguous tables; exhaustive 2x2,3x2,2x3 over 3 values and 2x4 over 2 values (thorough also "
           "4x2,2x4 over 3, 2x3 over 4 and every 5th 3x3 table over 3); 400 (4000) random tables "
           "ncross<=5 (7), nparent in {2,3,4}, "
           "int8/int32/int64; local optimality by brute force over all single exchanges")
def u_ring_outcross(ctx):
    ctx.rule = ("cross tables as C-contiguous arrays (the layout every caller in the library passes); exhaustive "
                "small tables and random tiled / few-valued / many-valued / near-constant tables, sorted starts; "
                "non-trivial if the start has >= 1 repeat and >= 2 crosses")
    _drive(ctx, gen_outcross(ctx.rng, ctx.tier, ["C"]), run_outcross, _oc_nontrivial, _oc_sample)


@unit(P, "ring[outcross_shuffle non-contiguous cross tables]", "R", bounded=True,
      targets=[SAMPLING + ":outcross_shuffle"],
      note="bounded: the same tables as the contiguous ring presented as Fortran-ordered, transposed-view and strided-"
           "view arrays of shape (ncross, nparent)")
def u_ring_outcross_layout(ctx):
    ctx.rule = ("the same generator as the contiguous ring with layouts F / T / view; kept in a unit of its own "
                "because the unchanged library works on a ravel() copy for such tables")
    _drive(ctx, gen_outcross(ctx.rng, ctx.tier, ["F", "T", "view"]), run_outcross, _oc_nontrivial, _oc_sample)


@unit(P, "ring[outcross_shuffle local optimum over many generator states]", "R", bounded=True,
      targets=[SAMPLING + ":outcross_shuffle"],
      note="bounded: all 729 4x2 tables over 3 values with >= 3 repeats inside crosses x 5 generator states "
           "(3 RandomState + 2 Generator; thorough 16), 200 (thorough: all 4536) other 4x2 tables over 3 values with a "
           "repeat x 4 states, 130 (1500) 4x2 tables over 4 values (mostly self-crosses) x 8 states, 120 (1500) "
           "5x2/6x2/4x3/3x3/3x4 tables from 2-4 individuals x 6 states; one call per (table, state) pair")
def u_ring_outcross_seeds(ctx):
    ctx.rule = ("duplicate-rich small cross tables, each run from several generator states of both generator classes "
                "(the end point of the stochastic descent depends on the order of the exchange pairs); oracle: multiset, "
                "monotone, brute-force local optimality; distinct by (table, generator state)")
    _drive(ctx, gen_outcross_seeds(ctx.rng, ctx.tier), run_outcross, _oc_nontrivial, _oc_sample)


# ---------------------------------------------------------------------------
# replay
# ---------------------------------------------------------------------------

_RUNNERS = {"sus": run_sus, "tiled": run_tiled, "axis": run_axis, "outcross": run_outcross}


def run_case(case):
    """execute ONE stored case on the real code -> (violated, message)"""
    bad, msg, cls, clause = _catching(_RUNNERS[case["fn"]], case)
    if bad:
        msg = "[%s] %s" % (cls, msg)
    return bad, msg


REPLAYERS = {
    "ring[SUS scripted offsets: counts, shape, zero weight]": run_case,
    "ring[SUS seeded generators: counts, shape, reproducibility]": run_case,
    "ring[tiled_choice balance, shape, reproducibility]": run_case,
    "ring[axis_shuffle values stay in requested slices]": run_case,
    "ring[outcross_shuffle multiset, monotone, local optimum]": run_case,
    "ring[outcross_shuffle non-contiguous cross tables]": run_case,
    "ring[outcross_shuffle local optimum over many generator states]": run_case,
}
