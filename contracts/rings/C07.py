"""C07 -- native bounded ring (mode R): selection protocols turn criteria into
valid, correct cross configurations.

Everything here runs the REAL pybrops code ($PYBROPS_REPO) on small generated
inputs and evaluates oracles written from the property statement:

* shape ``(ncross, nparent)``; integer entries taken only from the chosen
  decision; multiplicities dictated by the decision (subset: even up to one;
  integer/binary: the counts; real: within one of the proportional share);
* local optimality of the arrangement: no exchange of two entries (ANY two
  positions) reduces the number of within-cross duplicates, where duplicates are
  counted as sum over crosses of (multiplicity - 1);
* mate encodings: every row is the cross-map row of a chosen cross; the index
  generators (triuix / triudix / xmapix) enumerate exactly the sorted tuples;
* truncation exactness and permutation / relabelling equivariance of EBV / GEBV /
  OHV subset protocols with the exact sorting optimiser;
* select(): single objective -> first solution; multi objective -> a front row
  maximising ndset_wt * ndset_trans(front objectives).

pybrops is imported lazily inside functions only.
"""
import itertools
import math
from fractions import Fraction

from pyvc.unit import unit

P = "C07"
EPS = Fraction(1, 10 ** 9)


# --------------------------------------------------------------------------
# small shared helpers
# --------------------------------------------------------------------------
def _np():
    import numpy
    return numpy


def _mk_rng(spec):
    """spec: ["rs", seed] | ["gen", seed] | ["global", seed] | ["script", seed, pattern]"""
    numpy = _np()
    kind = spec[0]
    if kind == "rs":
        return numpy.random.RandomState(int(spec[1]))
    if kind == "gen":
        return numpy.random.Generator(numpy.random.PCG64(int(spec[1])))
    if kind == "global":
        numpy.random.seed(int(spec[1]))
        return None
    if kind == "script":
        from pyvc.ring import ScriptedRandomState
        return ScriptedRandomState(list(spec[2]), int(spec[1]))
    raise ValueError("bad rng spec %r" % (spec,))


def _chr_sizes(p, nchr):
    base, extra = divmod(p, nchr)
    return [base + (1 if c < extra else 0) for c in range(nchr)]


def _geno(n, p, seed):
    """(2,n,p) 0/1 alleles, python nested lists, from a private seeded stream"""
    import random
    r = random.Random(seed * 7919 + 13)
    return [[[r.randint(0, 1) for _ in range(p)] for _ in range(n)] for _ in range(2)]


_PG_CACHE = {}


def _pgmat(n, p, nchr=1, seed=0, perm=None, relabel=False):
    """small DensePhasedGenotypeMatrix; candidate a of the returned population is
    candidate perm[a] of the base population (perm=None: identity).  Cached (never mutated by the code under test;
    the ring checks that the configuration holds this very object)."""
    key = (n, p, nchr, seed, None if perm is None else tuple(perm), relabel)
    if key not in _PG_CACHE:
        if len(_PG_CACHE) > 64:
            _PG_CACHE.clear()
        _PG_CACHE[key] = _pgmat_build(n, p, nchr, seed, perm, relabel)
    return _PG_CACHE[key]


def _pgmat_build(n, p, nchr, seed, perm, relabel):
    numpy = _np()
    from pybrops.popgen.gmat.DensePhasedGenotypeMatrix import DensePhasedGenotypeMatrix
    g = _geno(n, p, seed)
    names = ["T%02d" % i for i in range(n)]
    grp = [i % 2 for i in range(n)]
    if perm is None:
        perm = list(range(n))
    g = [[g[m][perm[a]] for a in range(n)] for m in range(2)]
    names = [names[perm[a]] for a in range(n)]
    grp = [grp[perm[a]] for a in range(n)]
    if relabel:
        names = ["Z%02d" % (n - a) for a in range(n)]
        grp = [5 for _ in range(n)]
    sizes = _chr_sizes(p, nchr)
    chrgrp, genpos, xoprob = [], [], []
    for c, sz in enumerate(sizes):
        for j in range(sz):
            chrgrp.append(c + 1)
            genpos.append(0.1 * j)
            xoprob.append(0.5 if j == 0 else 0.1)
    pg = DensePhasedGenotypeMatrix(
        mat=numpy.array(g, dtype="int8"),
        taxa=numpy.array(names, dtype=object),
        taxa_grp=numpy.array(grp, dtype="int64"),
        vrnt_chrgrp=numpy.array(chrgrp, dtype="int64"),
        vrnt_phypos=numpy.arange(1, p + 1, dtype="int64"),
        vrnt_name=numpy.array(["m%d" % j for j in range(p)], dtype=object),
        vrnt_genpos=numpy.array(genpos, dtype=float),
        vrnt_xoprob=numpy.array(xoprob, dtype=float),
    )
    pg.group_vrnt()
    return pg, g


def _rows(x):
    return [[int(v) for v in row] for row in x]


def _dupcount(rows):
    """sum over crosses of (multiplicity - 1), over all positions of the cross"""
    total = 0
    for row in rows:
        seen = {}
        for v in row:
            seen[v] = seen.get(v, 0) + 1
        for v in seen:
            total += seen[v] - 1
    return total


def _improving_exchange(rows):
    """first pair of positions whose exchange lowers the duplicate count, or None"""
    if not rows:
        return None
    npar = len(rows[0])
    base = _dupcount(rows)
    cells = [(i, j) for i in range(len(rows)) for j in range(npar)]
    work = [list(r) for r in rows]
    for a in range(len(cells)):
        for b in range(a + 1, len(cells)):
            (i1, j1), (i2, j2) = cells[a], cells[b]
            if work[i1][j1] == work[i2][j2]:
                continue
            work[i1][j1], work[i2][j2] = work[i2][j2], work[i1][j1]
            d = _dupcount(work)
            work[i1][j1], work[i2][j2] = work[i2][j2], work[i1][j1]
            if d < base:
                return (cells[a], cells[b], base, d)
    return None


def _check_shape(x, ncross, nparent, ntaxa=None):
    numpy = _np()
    if not isinstance(x, numpy.ndarray):
        return "xconfig is %s, not ndarray" % type(x).__name__
    if x.dtype.kind not in "iu":
        return "xconfig dtype %s is not integer" % x.dtype
    if x.shape != (ncross, nparent):
        return "xconfig shape %s != (%d,%d)" % (x.shape, ncross, nparent)
    if ntaxa is not None:
        for row in x:
            for v in row:
                if not (0 <= int(v) < ntaxa):
                    return "xconfig entry %d is not a candidate index of the %d-candidate population" % (int(v), ntaxa)
    return None


def _counts(flat):
    c = {}
    for v in flat:
        c[v] = c.get(v, 0) + 1
    return c


def _mult_subset(counts, items, k):
    """subset decision: only members, used evenly (max-min <= 1), k uses in total"""
    its = [int(i) for i in items]
    for v in counts:
        if v not in its:
            return "entry %d is not a member of the chosen subset %s" % (v, its)
    cs = [counts.get(i, 0) for i in its]
    if sum(cs) != k:
        return "total uses %d != %d" % (sum(cs), k)
    if max(cs) - min(cs) > 1:
        return "members used unevenly: uses %s of members %s" % (cs, its)
    return None


def _mult_counts(counts, v, k):
    """count-vector decision (integer / binary): element i stands for v[i] slots;
    the T = sum(v) slots are used evenly (each q or q+1 times, r of them q+1),
    hence exactly v[i] times when T == k"""
    v = [int(a) for a in v]
    T = sum(v)
    for e in counts:
        if e < 0 or e >= len(v) or v[e] == 0:
            return "entry %d has count 0 in the decision %s" % (e, v)
    q, r = divmod(k, T)
    tot = 0
    for i in range(len(v)):
        c = counts.get(i, 0)
        tot += c
        lo = q * v[i]
        hi = lo + min(v[i], r)
        if not (lo <= c <= hi):
            return "element %d (count %d in decision, total %d, k=%d) used %d times, expected %s" % (
                i, v[i], T, k, c, ("exactly %d" % lo) if lo == hi else "between %d and %d" % (lo, hi))
    if tot != k:
        return "total uses %d != %d" % (tot, k)
    return None


def _mult_real(counts, p, k):
    """contribution vector: uses of i within one of the proportional share k*p_i/sum(p);
    zero contribution -> never used"""
    fr = [Fraction(float(a)) for a in p]
    tot = sum(fr)
    for e in counts:
        if e < 0 or e >= len(fr) or fr[e] == 0:
            return "entry %d has zero contribution in the decision" % e
    n = 0
    for i in range(len(fr)):
        c = counts.get(i, 0)
        n += c
        share = fr[i] * k / tot
        if abs(c - share) > 1 + EPS:
            return "element %d used %d times, proportional share %.6f (k=%d)" % (i, c, float(share), k)
    if n != k:
        return "total uses %d != %d" % (n, k)
    return None


def _as_count_array(v, ncross):
    numpy = _np()
    if isinstance(v, int):
        return v, [v] * ncross
    return numpy.array(v, dtype="int64"), [int(a) for a in v]


def _check_stored(cfg, pg, ncross, nparent, nm_exp, np_exp):
    if cfg.ncross != ncross or cfg.nparent != nparent:
        return "stored ncross/nparent %r/%r != %d/%d" % (cfg.ncross, cfg.nparent, ncross, nparent)
    if [int(a) for a in cfg.nmating] != nm_exp:
        return "stored nmating %s != %s" % (list(cfg.nmating), nm_exp)
    if [int(a) for a in cfg.nprogeny] != np_exp:
        return "stored nprogeny %s != %s" % (list(cfg.nprogeny), np_exp)
    if cfg.pgmat is not pg:
        return "configuration pgmat is not the caller's pgmat"
    return None


# --------------------------------------------------------------------------
# A. sample_xconfig of the four individual-level configurations
# --------------------------------------------------------------------------
_CFG = {
    "subset": ("pybrops.breed.prot.sel.cfg.SubsetSelectionConfiguration", "SubsetSelectionConfiguration"),
    "integer": ("pybrops.breed.prot.sel.cfg.IntegerSelectionConfiguration", "IntegerSelectionConfiguration"),
    "binary": ("pybrops.breed.prot.sel.cfg.BinarySelectionConfiguration", "BinarySelectionConfiguration"),
    "real": ("pybrops.breed.prot.sel.cfg.RealSelectionConfiguration", "RealSelectionConfiguration"),
    "submate": ("pybrops.breed.prot.sel.cfg.SubsetMateSelectionConfiguration", "SubsetMateSelectionConfiguration"),
    "intmate": ("pybrops.breed.prot.sel.cfg.IntegerMateSelectionConfiguration", "IntegerMateSelectionConfiguration"),
    "binmate": ("pybrops.breed.prot.sel.cfg.BinaryMateSelectionConfiguration", "BinaryMateSelectionConfiguration"),
    "realmate": ("pybrops.breed.prot.sel.cfg.RealMateSelectionConfiguration", "RealMateSelectionConfiguration"),
}


def _cfg_class(kind):
    import importlib
    mod, name = _CFG[kind]
    return getattr(importlib.import_module(mod), name)


def _check_indiv_xconfig(kind, x, decn_list, ncross, nparent, ntaxa=None):
    """all clauses for one sampled configuration of an individual-level encoding"""
    m = _check_shape(x, ncross, nparent, ntaxa)
    if m:
        return "shape", m
    rows = _rows(x)
    cnt = _counts([v for r in rows for v in r])
    k = ncross * nparent
    if kind == "subset":
        m = _mult_subset(cnt, decn_list, k)
    elif kind in ("integer", "binary"):
        m = _mult_counts(cnt, decn_list, k)
    else:
        m = _mult_real(cnt, decn_list, k)
    if m:
        return "multiplicity", "%s; xconfig=%s" % (m, rows)
    ex = _improving_exchange(rows)
    if ex is not None:
        return "local-optimum", "exchanging positions %s and %s lowers within-cross duplicates %d -> %d; xconfig=%s" % (
            ex[0], ex[1], ex[2], ex[3], rows)
    return None, ""


def run_case_cfg(case):
    """-> (violated, message, clause)"""
    numpy = _np()
    kind = case["kind"]
    ncross, nparent = case["ncross"], case["nparent"]
    pg, _ = _pgmat(case["ntaxa"], 3, 1, 1)
    decn = numpy.array(case["decn"], dtype=case["dtype"])
    decn0 = decn.copy()
    decn_list = [bool(a) if case["dtype"] == "bool" else a for a in case["decn"]]
    decn_list = [int(a) if kind != "real" else float(a) for a in decn_list]
    nm, nm_exp = _as_count_array(case["nmating"], ncross)
    npg, np_exp = _as_count_array(case["nprogeny"], ncross)
    rng = _mk_rng(case["rng"])
    cfg = _cfg_class(kind)(ncross=ncross, nparent=nparent, nmating=nm, nprogeny=npg, pgmat=pg,
                           xconfig_decn=decn, rng=rng)
    m = _check_stored(cfg, pg, ncross, nparent, nm_exp, np_exp)
    if m:
        return True, m, "stored"
    cl, m = _check_indiv_xconfig(kind, cfg.xconfig, decn_list, ncross, nparent, case["ntaxa"])
    if cl:
        return True, "after construction: " + m, cl
    for s in range(case.get("resample", 0)):
        ret = cfg.sample_xconfig(return_xconfig=True)
        if ret is None or not numpy.array_equal(ret, cfg.xconfig):
            return True, "sample_xconfig(return_xconfig=True) did not return the stored xconfig (resample %d)" % s, "return"
        cl, m = _check_indiv_xconfig(kind, cfg.xconfig, decn_list, ncross, nparent, case["ntaxa"])
        if cl:
            return True, "resample %d: %s" % (s, m), cl
    ret = cfg.sample_xconfig(return_xconfig=False)
    if ret is not None:
        return True, "sample_xconfig(return_xconfig=False) returned %r" % (ret,), "return"
    cl, m = _check_indiv_xconfig(kind, cfg.xconfig, decn_list, ncross, nparent, case["ntaxa"])
    if cl:
        return True, "last resample: " + m, cl
    if not (decn.dtype == decn0.dtype and numpy.array_equal(decn, decn0)):
        return True, "the caller's decision vector was modified: %s -> %s" % (decn0.tolist(), decn.tolist()), "decision-mutated"
    if not numpy.array_equal(cfg.xconfig_decn, decn0):
        return True, "stored xconfig_decn %s differs from the decision %s" % (cfg.xconfig_decn.tolist(), decn0.tolist()), "decision-mutated"
    if numpy.shares_memory(cfg.xconfig, decn):
        return True, "xconfig aliases the decision vector", "alias"
    return False, "", ""


def _rand_rng(rnd, allow_global=True):
    kinds = ["rs", "gen", "rs", "gen"] + (["global"] if allow_global else [])
    return [rnd.choice(kinds), rnd.randint(0, 10 ** 6)]


def _rand_design(rnd, ncross):
    nm = rnd.choice([1, 1, 2, [rnd.randint(1, 3) for _ in range(ncross)]])
    npg = rnd.choice([1, 3, [rnd.randint(1, 4) for _ in range(ncross)]])
    return nm, npg


def _composition(rnd, total, parts, cap=None):
    """random vector of `parts` non-negative ints summing to `total`"""
    v = [0] * parts
    for _ in range(total):
        while True:
            i = rnd.randrange(parts)
            if cap is None or v[i] < cap:
                v[i] += 1
                break
    return v


def _rand_decision(rnd, kind, nitems, k):
    """decision for `kind` over `nitems` items when k entries are requested"""
    if kind == "subset":
        mode = rnd.choice(["eq", "any", "any", "one"])
        if mode == "eq" and k <= nitems:
            d = k
        elif mode == "one":
            d = 1
        else:
            d = rnd.randint(1, nitems)
        return rnd.sample(range(nitems), d), rnd.choice(["int64", "int64", "int32"])
    if kind == "integer":
        mode = rnd.choice(["exact", "exact", "any", "single"])
        if mode == "exact":
            v = _composition(rnd, k, nitems)
        elif mode == "single":
            v = [0] * nitems
            v[rnd.randrange(nitems)] = rnd.choice([1, k, k + 1])
        else:
            v = [rnd.choice([0, 0, 1, 2, 3]) for _ in range(nitems)]
            if sum(v) == 0:
                v[rnd.randrange(nitems)] = 1
        return v, rnd.choice(["int64", "int64", "int32"])
    if kind == "binary":
        mode = rnd.choice(["exact", "any", "any", "single", "all"])
        if mode == "exact" and k <= nitems:
            ones = set(rnd.sample(range(nitems), k))
            v = [1 if i in ones else 0 for i in range(nitems)]
        elif mode == "single":
            v = [0] * nitems
            v[rnd.randrange(nitems)] = 1
        elif mode == "all":
            v = [1] * nitems
        else:
            v = [rnd.randint(0, 1) for _ in range(nitems)]
            if sum(v) == 0:
                v[rnd.randrange(nitems)] = 1
        return v, rnd.choice(["int64", "bool", "int8"])
    # real
    mode = rnd.choice(["rand", "dyadic", "zeros", "equal", "tiny", "single", "norm"])
    if mode == "rand":
        v = [rnd.random() for _ in range(nitems)]
    elif mode == "dyadic":
        v = [rnd.randint(0, 8) / 8.0 for _ in range(nitems)]
    elif mode == "zeros":
        v = [rnd.choice([0.0, rnd.random()]) for _ in range(nitems)]
    elif mode == "equal":
        v = [1.0 / nitems] * nitems
    elif mode == "tiny":
        v = [rnd.choice([1e-12, 1.0, 0.1, 3.0]) for _ in range(nitems)]
    elif mode == "single":
        v = [0.0] * nitems
        v[rnd.randrange(nitems)] = rnd.choice([1.0, 0.3, 7.5])
    else:
        w = [rnd.random() for _ in range(nitems)]
        s = sum(w)
        v = [a / s for a in w]
    if sum(v) <= 0.0:
        v[rnd.randrange(nitems)] = 0.5
    return v, "float64"


def gen_cfg_cases(rnd, tier):
    maxcross = 4 if tier == "quick" else 6
    reps = 12 if tier == "quick" else 90
    for kind in ("subset", "integer", "binary", "real"):
        for ncross in range(1, maxcross + 1):
            for nparent in (1, 2, 3, 4):
                for _ in range(reps):
                    ntaxa = rnd.choice([1, 2, 3, 5, 8]) if tier == "quick" else rnd.choice([1, 2, 3, 4, 5, 6, 8, 10])
                    if rnd.random() < 0.06:
                        ntaxa = 300     # candidate indices beyond int8 / uint8
                    decn, dtype = _rand_decision(rnd, kind, ntaxa, ncross * nparent)
                    if ntaxa == 300 and kind == "subset":
                        decn = [299 - d if d < 30 else d for d in decn[:12]]
                        decn = sorted(set(decn), key=decn.index)
                    nm, npg = _rand_design(rnd, ncross)
                    yield dict(kind=kind, ncross=ncross, nparent=nparent, ntaxa=ntaxa, decn=decn, dtype=dtype,
                               nmating=nm, nprogeny=npg, rng=_rand_rng(rnd), resample=rnd.choice([0, 1, 2]))


def _key(case):
    return repr(sorted(case.items(), key=str))


def _drive(ctx, cases, runner, obligation, cls_of, nontrivial=lambda c: True, sample_of=None, cap=3):
    """common loop: run, count, report; cap failures per cls, keep going"""
    seen = {}
    for case in cases:
        try:
            bad, msg, clause = runner(case)
        except Exception as e:
            bad, msg, clause = True, "exception %s: %s" % (type(e).__name__, e), "exception"
        ctx.case(key=_key(case), nontrivial=nontrivial(case), sample=(sample_of(case) if sample_of else None))
        if bad:
            cls = cls_of(case, clause, msg)
            seen[cls] = seen.get(cls, 0) + 1
            if seen[cls] <= cap:
                ctx.fail_input(obligation(case, clause), case, cls=cls, message=msg)
            if len(seen) >= 6:
                break


def _two(fn):
    def rep(case):
        try:
            r = fn(case)
            return r[0], r[1]
        except Exception as e:
            return True, "exception %s: %s" % (type(e).__name__, e)
    return rep


N_CFG = "ring[sample_xconfig of subset/integer/binary/real configurations]"


@unit(P, N_CFG, "R", bounded=True,
      note="bounded: ncross<=4 (thorough 6), nparent in 1..4, <=10 candidates (or 300), counts<=3, seeded RandomState/Generator/global "
           "streams, <=2 re-samplings; one case in 16 with 300 candidates (indices > 255); quick 12 / thorough 90 random decisions per (class, ncross, nparent)")
def u_ring_cfg(ctx):
    ctx.rule = ("for every configuration class x ncross x nparent: random decisions (exact-fit, under- and over-full, single "
                "member, ties, zeros, int32/bool dtypes), scalar and per-cross nmating/nprogeny, three generator kinds; "
                "a case is non-trivial when more than one entry is requested; distinct by full input")
    _drive(ctx, gen_cfg_cases(ctx.rng, ctx.tier), run_case_cfg,
           obligation=lambda c, cl: "ring:sample_xconfig:%s:%s" % (c["kind"], cl),
           cls_of=lambda c, cl, m: "sample-xconfig:%s:%s" % (c["kind"], cl),
           nontrivial=lambda c: c["ncross"] * c["nparent"] > 1,
           sample_of=lambda c: dict(kind=c["kind"], ncross=c["ncross"], nparent=c["nparent"], decn=c["decn"]))


# --------------------------------------------------------------------------
# E. contribution vectors at scripted generator edges (first uniform draw 0 or ~1)
# --------------------------------------------------------------------------
def gen_sus_edge_cases(rnd, tier):
    reps = 3 if tier == "quick" else 20
    pats = [[0.0], [1.0 - 2.0 ** -53], [0.5], [2.0 ** -60]]
    # fixed members of the two classes seen on the unchanged library (15 pointers requested)
    for decn in ([0.1, 1.0], [1.0, 0.1, 1.0, 0.1], [1.0, 1e-12]):
        for pat in ([0.0], [2.0 ** -60]):
            yield dict(kind="real", ncross=5, nparent=3, ntaxa=len(decn), decn=decn, dtype="float64",
                       nmating=1, nprogeny=1, rng=["script", 1, pat], resample=0)
    for pat in pats:
        for ncross in (1, 2, 3, 5, 6):
            for nparent in (1, 2, 3, 4):
                for _ in range(reps):
                    ntaxa = rnd.choice([1, 2, 3, 5, 8])
                    decn, dtype = _rand_decision(rnd, "real", ntaxa, ncross * nparent)
                    yield dict(kind="real", ncross=ncross, nparent=nparent, ntaxa=ntaxa, decn=decn, dtype=dtype,
                               nmating=1, nprogeny=1, rng=["script", rnd.randint(0, 999), pat], resample=0)


def _sus_edge_cls(case, clause, msg):
    """class of failing INPUT: the scripted first draw puts the first SUS pointer on an end of [0, pointer distance]"""
    first = case["rng"][2][0]
    if clause == "exception" and ("cannot reshape" in msg or "IndexError" in msg):
        if first < 1e-9:
            return "real-sus-first-pointer-at-zero"          # one pointer too many -> reshape fails
        if first > 1.0 - 1e-9:
            return "real-sus-first-pointer-at-pointer-distance"   # one pointer missing / pointer beyond the cumulative sum
    return "sample-xconfig:real-edge:%s" % clause


N_EDGE = "ring[real configuration at scripted generator edges]"


@unit(P, N_EDGE, "R", bounded=True,
      note="bounded: first uniform draw scripted to 0, 1-2^-53, 2^-60 or 0.5 (rest of the stream seeded); ncross in "
           "{1,2,3,5,6}, nparent 1..4, <=8 candidates")
def u_ring_edge(ctx):
    ctx.rule = ("RealSelectionConfiguration with a RandomState whose uniform() returns a scripted fraction of the pointer "
                "distance (edge generator states 0 and 1-ulp included); same oracle as the seeded ring; distinct by full input")
    _drive(ctx, gen_sus_edge_cases(ctx.rng, ctx.tier), run_case_cfg,
           obligation=lambda c, cl: "ring:sample_xconfig:real-edge:%s" % cl,
           cls_of=_sus_edge_cls,
           nontrivial=lambda c: c["ncross"] * c["nparent"] > 1,
           sample_of=lambda c: dict(ncross=c["ncross"], nparent=c["nparent"], decn=c["decn"], first_draw=c["rng"][2][0]))


# --------------------------------------------------------------------------
# B. cross-map index generators and the four mate configurations
# --------------------------------------------------------------------------
def _oracle_tuples(n, k, unique):
    """all index tuples i1 <= ... <= ik (unique: strictly increasing) over range(n), lexicographic"""
    out = []
    for t in itertools.product(range(n), repeat=k):
        ok = True
        for a in range(1, k):
            if unique and not t[a - 1] < t[a]:
                ok = False
            if (not unique) and not t[a - 1] <= t[a]:
                ok = False
        if ok:
            out.append(list(t))
    return out


def run_case_ix(case):
    from pybrops.core.util import array as A
    n, k = case["n"], case["k"]
    fn = case["fn"]
    if fn == "triuix":
        got, unique = list(A.triuix(n, k)), False
    elif fn == "triudix":
        got, unique = list(A.triudix(n, k)), True
    else:
        unique = bool(case["unique"])
        got = list(A.xmapix(n, k, unique))
    exp = _oracle_tuples(n, k, unique)
    got = [[int(v) for v in g] for g in got]
    if got != exp:
        return True, "%s(%d,%d%s) yields %s..., expected %s... (%d vs %d tuples)" % (
            fn, n, k, "" if fn != "xmapix" else ",%s" % unique, got[:6], exp[:6], len(got), len(exp)), "index-generator"
    nexp = math.comb(n, k) if unique else (math.comb(n + k - 1, k) if n > 0 else 0)
    if len(got) != nexp:
        return True, "%s(%d,%d): %d tuples, binomial count %d" % (fn, n, k, len(got), nexp), "index-generator"
    return False, "", ""


def _check_mate_xconfig(kind, x, xmap_rows, decn_list, ncross, nparent, ntaxa=None):
    m = _check_shape(x, ncross, nparent, ntaxa)
    if m:
        return "shape", m
    rows = _rows(x)
    index = {}
    for j, r in enumerate(xmap_rows):
        index[tuple(r)] = j
    chosen = []
    for r in rows:
        j = index.get(tuple(r))
        if j is None:
            return "cross-map-row", "row %s is not a row of the cross map; xconfig=%s" % (r, rows)
        chosen.append(j)
    cnt = _counts(chosen)
    if kind == "submate":
        m = _mult_subset(cnt, decn_list, ncross)
    elif kind in ("intmate", "binmate"):
        m = _mult_counts(cnt, decn_list, ncross)
    else:
        m = _mult_real(cnt, decn_list, ncross)
    if m:
        return "multiplicity", "%s (items are cross-map rows); crosses used %s; xconfig=%s" % (m, chosen, rows)
    return None, ""


def run_case_mate(case):
    numpy = _np()
    kind = case["kind"]
    ncross, nparent, ntaxa = case["ncross"], case["nparent"], case["ntaxa"]
    xm = _oracle_tuples(ntaxa, nparent, bool(case["unique"]))
    xm = [xm[j] for j in case["xperm"]]
    xmap = numpy.array(xm, dtype="int64").reshape(len(xm), nparent)
    xmap0 = xmap.copy()
    pg, _ = _pgmat(ntaxa, 3, 1, 1)
    decn = numpy.array(case["decn"], dtype=case["dtype"])
    decn0 = decn.copy()
    decn_list = [int(a) if kind != "realmate" else float(a) for a in case["decn"]]
    nm, nm_exp = _as_count_array(case["nmating"], ncross)
    npg, np_exp = _as_count_array(case["nprogeny"], ncross)
    rng = _mk_rng(case["rng"])
    cfg = _cfg_class(kind)(ncross=ncross, nparent=nparent, nmating=nm, nprogeny=npg, pgmat=pg,
                           xconfig_decn=decn, xconfig_xmap=xmap, rng=rng)
    m = _check_stored(cfg, pg, ncross, nparent, nm_exp, np_exp)
    if m:
        return True, m, "stored"
    cl, m = _check_mate_xconfig(kind, cfg.xconfig, xm, decn_list, ncross, nparent, ntaxa)
    if cl:
        return True, "after construction: " + m, cl
    for s in range(case.get("resample", 0)):
        ret = cfg.sample_xconfig(return_xconfig=True)
        if ret is None or not numpy.array_equal(ret, cfg.xconfig):
            return True, "sample_xconfig(return_xconfig=True) did not return the stored xconfig", "return"
        cl, m = _check_mate_xconfig(kind, cfg.xconfig, xm, decn_list, ncross, nparent, ntaxa)
        if cl:
            return True, "resample %d: %s" % (s, m), cl
    if cfg.sample_xconfig(return_xconfig=False) is not None:
        return True, "sample_xconfig(return_xconfig=False) returned a value", "return"
    cl, m = _check_mate_xconfig(kind, cfg.xconfig, xm, decn_list, ncross, nparent, ntaxa)
    if cl:
        return True, "last resample: " + m, cl
    if not numpy.array_equal(decn, decn0) or not numpy.array_equal(xmap, xmap0):
        return True, "decision vector or cross map modified by sampling", "decision-mutated"
    if not numpy.array_equal(cfg.xconfig_decn, decn0) or not numpy.array_equal(cfg.xconfig_xmap, xmap0):
        return True, "stored decision / cross map differ from the inputs", "decision-mutated"
    return False, "", ""


def run_case_mate_or_ix(case):
    if case.get("fn"):
        return run_case_ix(case)
    return run_case_mate(case)


def gen_mate_cases(rnd, tier):
    nmax = 6 if tier == "quick" else 8
    for fn in ("triuix", "triudix"):
        for n in range(0, nmax + 1):
            for k in (1, 2, 3, 4):
                yield dict(fn=fn, n=n, k=k)
    for n in range(0, nmax + 1):
        for k in (1, 2, 3, 4):
            for unique in (0, 1):
                yield dict(fn="xmapix", n=n, k=k, unique=unique)
    reps = 8 if tier == "quick" else 60
    kmap = {"submate": "subset", "intmate": "integer", "binmate": "binary", "realmate": "real"}
    for kind in ("submate", "intmate", "binmate", "realmate"):
        for nparent in (1, 2, 3) if tier == "quick" else (1, 2, 3, 4):
            for unique in (0, 1):
                for ncross in (1, 2, 3, 4, 6):
                    for _ in range(reps):
                        ntaxa = rnd.choice([2, 3, 4, 5]) if nparent < 4 else rnd.choice([4, 5])
                        nx = len(_oracle_tuples(ntaxa, nparent, bool(unique)))
                        if nx == 0:
                            continue
                        xperm = list(range(nx))
                        if rnd.random() < 0.6:
                            rnd.shuffle(xperm)
                        decn, dtype = _rand_decision(rnd, kmap[kind], nx, ncross)
                        nm, npg = _rand_design(rnd, ncross)
                        yield dict(kind=kind, ncross=ncross, nparent=nparent, ntaxa=ntaxa, unique=unique, xperm=xperm,
                                   decn=decn, dtype=dtype, nmating=nm, nprogeny=npg, rng=_rand_rng(rnd),
                                   resample=rnd.choice([0, 1]))


N_MATE = "ring[cross-map index generators and mate configurations]"


@unit(P, N_MATE, "R", bounded=True,
      note="bounded: triuix/triudix/xmapix exhaustive for n<=6 (thorough 8), k<=4; mate configurations with <=5 candidates, "
           "nparent<=3 (thorough 4), ncross<=6, cross maps in lexicographic and shuffled row order")
def u_ring_mate(ctx):
    ctx.rule = ("index generators compared tuple-by-tuple with a filtered cartesian product; mate configurations: random "
                "decisions over the cross-map rows, every sampled row must be the map row of a chosen cross with the "
                "multiplicity the decision dictates; non-trivial when the cross map has > 1 row; distinct by full input")
    _drive(ctx, gen_mate_cases(ctx.rng, ctx.tier), run_case_mate_or_ix,
           obligation=lambda c, cl: "ring:%s:%s" % (c.get("fn") or c.get("kind"), cl),
           cls_of=lambda c, cl, m: "mate-xconfig:%s:%s" % (c.get("fn") or c.get("kind"), cl),
           nontrivial=lambda c: (c.get("fn") is not None and c["n"] > 1) or (c.get("fn") is None and len(c["xperm"]) > 1),
           sample_of=lambda c: dict((k, c[k]) for k in ("fn", "n", "k", "kind", "ncross", "nparent", "unique", "decn") if k in c))


# --------------------------------------------------------------------------
# ring-side objective / preference transformations (these are INPUTS of the protocols)
# --------------------------------------------------------------------------
def _ot_wsum(decnvec, latentvec, w=None, **kwargs):
    numpy = _np()
    s = 0.0
    for t in range(len(w)):
        s += float(w[t]) * float(latentvec[t])
    return numpy.array([s], dtype=float)


def _ot_first2(decnvec, latentvec, **kwargs):
    numpy = _np()
    return numpy.array([float(latentvec[0]), float(latentvec[1])], dtype=float)


def _score_rows(name, rows, par):
    """preference transformation of front objective rows -> list of floats"""
    out = []
    for r in rows:
        if name == "wsum":
            s = 0.0
            for j in range(len(r)):
                s += float(par[j]) * float(r[j])
        elif name == "negdist":
            s = 0.0
            for j in range(len(r)):
                s += (float(r[j]) - float(par[j])) ** 2
            s = -math.sqrt(s)
        elif name == "first":
            s = float(r[0])
        else:
            raise ValueError(name)
        out.append(s)
    return out


def _make_ndset_trans(name, log):
    def ndset_trans(mat, par=None, **kwargs):
        numpy = _np()
        log.append(([[float(v) for v in r] for r in mat], par))
        return numpy.array(_score_rows(name, [list(r) for r in mat], par), dtype=float)
    return ndset_trans


# --------------------------------------------------------------------------
# C. truncation exactness + equivariance with the exact sorting optimiser
# --------------------------------------------------------------------------
def _sorting_algo():
    from pybrops.opt.algo.SortingSubsetOptimizationAlgorithm import SortingSubsetOptimizationAlgorithm
    return SortingSubsetOptimizationAlgorithm()


def _trunc_population(case, perm, relabel):
    """(pgmat, gmat, bvmat, gpmod, criterion list in the index space of the returned population)"""
    numpy = _np()
    n, p, t, nchr = case["n"], case["p"], case["t"], case["nchr"]
    pg, g = _pgmat(n, p, nchr, case["pseed"], perm=perm, relabel=relabel)
    proto = case["proto"]
    sign = case["sign"]
    tw = case["tw"]
    if perm is None:
        perm = list(range(n))
    gmat = bvmat = gpmod = None
    crit = None
    if proto == "EBV":
        from pybrops.popgen.bvmat.DenseBreedingValueMatrix import DenseBreedingValueMatrix
        vals = [case["vals"][perm[a]] for a in range(n)]
        bvmat = DenseBreedingValueMatrix(
            mat=numpy.array(vals, dtype=float).reshape(n, t),
            location=numpy.array(case["loc"], dtype=float), scale=numpy.array(case["scale"], dtype=float),
            taxa=pg.taxa.copy(), taxa_grp=pg.taxa_grp.copy(),
            trait=numpy.array(["tr%d" % j for j in range(t)], dtype=object))
        crit = []
        for a in range(n):
            s = 0.0
            for j in range(t):
                v = vals[a][j]
                if case["unscale"]:
                    v = v * case["scale"][j] + case["loc"][j]
                s += tw[j] * v
            crit.append(sign * s)
    else:
        from pybrops.model.gmod.DenseAdditiveLinearGenomicModel import DenseAdditiveLinearGenomicModel
        from pybrops.breed.prot.gt.DenseUnphasedGenotyping import DenseUnphasedGenotyping
        gpmod = DenseAdditiveLinearGenomicModel(
            beta=numpy.array([case["beta"]], dtype=float), u_misc=None,
            u_a=numpy.array(case["u"], dtype=float).reshape(p, t),
            trait=numpy.array(["tr%d" % j for j in range(t)], dtype=object))
        gmat = DenseUnphasedGenotyping().genotype(pg)
        if proto == "GEBV":
            crit = []
            for a in range(n):
                s = 0.0
                for j in range(t):
                    v = case["beta"][j]
                    for m in range(p):
                        v += (g[0][a][m] + g[1][a][m]) * case["u"][m][j]
                    s += tw[j] * v
                crit.append(sign * s)
    return pg, g, gmat, bvmat, gpmod, crit


def _ohv_of_cross(case, g, parents):
    """2 * sum over chromosomes (one haplotype block each) of the best parental haplotype value, weighted over traits"""
    sizes = _chr_sizes(case["p"], case["nchr"])
    s = 0.0
    for j in range(case["t"]):
        tot = 0.0
        st = 0
        for sz in sizes:
            best = None
            for a in parents:
                for ph in range(2):
                    h = 0.0
                    for m in range(st, st + sz):
                        h += g[ph][a][m] * case["u"][m][j]
                    if best is None or h > best:
                        best = h
            tot += best
            st += sz
        s += case["tw"][j] * 2.0 * tot
    return case["sign"] * s


def _trunc_select(case, perm, relabel):
    """run the real protocol; -> (cfg, chosen items, criterion dict item->value, all items, pg)"""
    numpy = _np()
    pg, g, gmat, bvmat, gpmod, crit = _trunc_population(case, perm, relabel)
    proto = case["proto"]
    ncross, nparent = case["ncross"], case["nparent"]
    nm, _ = _as_count_array(case["nmating"], ncross)
    npg, _ = _as_count_array(case["nprogeny"], ncross)
    common = dict(ntrait=case["t"], ncross=ncross, nparent=nparent, nmating=nm, nprogeny=npg, nobj=1,
                  obj_wt=numpy.array([float(case["sign"])]), obj_trans=_ot_wsum, obj_trans_kwargs={"w": list(case["tw"])},
                  rng=numpy.random.RandomState(case["gseed"] + 1), soalgo=_sorting_algo())
    if proto == "EBV":
        from pybrops.breed.prot.sel.EstimatedBreedingValueSelection import EstimatedBreedingValueSubsetSelection as C
        prot = C(unscale=bool(case["unscale"]), **common)
    elif proto == "GEBV":
        from pybrops.breed.prot.sel.GenomicEstimatedBreedingValueSelection import GenomicEstimatedBreedingValueSubsetSelection as C
        prot = C(unscale=bool(case["unscale"]), **common)
    else:
        from pybrops.breed.prot.sel.OptimalHaploidValueSelection import OptimalHaploidValueSubsetSelection as C
        prot = C(nhaploblk=case["nchr"], unique_parents=bool(case["unique"]), **common)
    mo = {}
    cfg = prot.select(pgmat=pg, gmat=gmat, ptdf=None, bvmat=bvmat, gpmod=gpmod, t_cur=0, t_max=1, miscout=mo)
    return cfg, mo, pg, g, crit


def _top_check(chosen_crit, all_crit, k, tol):
    """chosen (list of criterion values, one per chosen item) must be a best-k choice of all_crit"""
    if len(chosen_crit) != k:
        return "chose %d candidates, expected %d" % (len(chosen_crit), k)
    srt = sorted(all_crit, reverse=True)
    top = srt[:k]
    got = sorted(chosen_crit, reverse=True)
    for a, b in zip(got, top):
        if abs(a - b) > tol:
            return "chosen criteria %s are not the %d best %s (all: %s)" % (got, k, top, srt)
    return None


def run_case_trunc(case):
    numpy = _np()
    numpy.random.seed(case["gseed"])
    proto = case["proto"]
    n, ncross, nparent = case["n"], case["ncross"], case["nparent"]
    tol = 0.0 if proto == "EBV" else 1e-9
    results = []
    variants = [(None, False)]
    if case.get("perm"):
        variants.append((case["perm"], False))
    if case.get("relabel"):
        variants.append((None, True))
    for perm, relabel in variants:
        cfg, mo, pg, g, crit = _trunc_select(case, perm, relabel)
        tag = "permuted" if perm else ("relabelled" if relabel else "base")
        m = _check_shape(cfg.xconfig, ncross, nparent, n)
        if m:
            return True, "%s: %s" % (tag, m), "shape"
        if cfg.pgmat is not pg:
            return True, "%s: configuration pgmat is not the caller's" % tag, "stored"
        rows = _rows(cfg.xconfig)
        decn = [int(v) for v in cfg.xconfig_decn]
        sol = [int(v) for v in mo["sosoln"].soln_decn[0]]
        if decn != sol:
            return True, "%s: configuration decision %s is not the optimiser's solution %s" % (tag, decn, sol), "decision-forwarded"
        if proto in ("EBV", "GEBV"):
            k = ncross * nparent
            if len(set(decn)) != len(decn) or min(decn) < 0 or max(decn) >= n:
                return True, "%s: chosen subset %s has repeated members or non-candidates" % (tag, decn), "top-k"
            m = _top_check([crit[i] for i in decn], crit, k, tol)
            if m:
                return True, "%s: %s" % (tag, m), "top-k"
            cl, m = _check_indiv_xconfig("subset", cfg.xconfig, decn, ncross, nparent)
            if cl:
                return True, "%s: %s" % (tag, m), cl
            base_items = sorted((perm[a] if perm else a) for a in decn)
            allc = sorted(crit, reverse=True)
            gap = (allc[k - 1] - allc[k]) if k < n else 1.0
        else:
            xm = _oracle_tuples(n, nparent, bool(case["unique"]))
            xmap = [[int(v) for v in r] for r in mo["sosoln"].decn_space_xmap]
            if xmap != xm:
                return True, "%s: protocol cross map %s... differs from the sorted-tuple enumeration %s..." % (tag, xmap[:5], xm[:5]), "cross-map"
            cl, m = _check_mate_xconfig("submate", cfg.xconfig, xm, decn, ncross, nparent)
            if cl:
                return True, "%s: %s" % (tag, m), cl
            if len(set(decn)) != len(decn):
                return True, "%s: chosen crosses %s repeat" % (tag, decn), "top-k"
            allc = [_ohv_of_cross(case, g, r) for r in xm]
            m = _top_check([_ohv_of_cross(case, g, r) for r in rows], allc, ncross, tol)
            if m:
                return True, "%s: rows %s: %s" % (tag, rows, m), "top-k"
            base_items = sorted(tuple(sorted((perm[a] if perm else a) for a in r)) for r in rows)
            srt = sorted(allc, reverse=True)
            gap = (srt[ncross - 1] - srt[ncross]) if ncross < len(srt) else 1.0
        results.append((tag, base_items, gap))
    base = results[0]
    for tag, items, gap in results[1:]:
        if base[2] > 1e-6 and items != base[1]:
            return True, ("%s population: choice maps back to base candidates %s, but the base population chose %s "
                          "(criteria distinct at the cut)" % (tag, items, base[1])), "equivariance"
    return False, "", ""


def _dy(rnd, lo=-8, hi=8, den=4):
    return rnd.randint(lo * den, hi * den) / float(den)


def gen_trunc_cases(rnd, tier):
    reps = 600 if tier == "quick" else 9000
    for it in range(reps):
        proto = ("EBV", "GEBV", "OHV")[it % 3]
        t = rnd.choice([1, 1, 2])
        n = rnd.randint(2, 7) if tier == "quick" else rnd.randint(1, 10)
        nchr = rnd.choice([1, 2])
        p = rnd.randint(max(2, nchr), 6)
        case = dict(proto=proto, n=n, p=p, t=t, nchr=nchr, pseed=rnd.randint(0, 10 ** 6), gseed=rnd.randint(0, 10 ** 6),
                    sign=rnd.choice([1, 1, -1]), tw=[rnd.choice([1.0, 0.5, 2.0, 0.25]) for _ in range(t)])
        if t == 1:
            case["tw"] = [rnd.choice([1.0, 1.0, 2.0])]
        if proto == "OHV":
            if n < 2:
                case["n"] = n = 2
            nparent = rnd.choice([2, 2, 3]) if n >= 3 else 2
            unique = rnd.choice([0, 1])
            nx = len(_oracle_tuples(n, nparent, bool(unique)))
            if nx == 0:
                continue
            ncross = rnd.randint(1, min(nx, 5))
            case.update(unique=unique)
        else:
            nparent = rnd.choice([1, 2, 2, 3])
            if nparent > n:
                nparent = n
            ncross = rnd.randint(1, max(1, n // nparent))
        case.update(ncross=ncross, nparent=nparent)
        nm, npg = _rand_design(rnd, ncross)
        case.update(nmating=nm, nprogeny=npg)
        if proto == "EBV":
            ties = rnd.random() < 0.35
            pool = [_dy(rnd) for _ in range(3)]
            vals = [[(rnd.choice(pool) if ties else _dy(rnd)) for _ in range(t)] for _ in range(n)]
            case.update(vals=vals, loc=[float(rnd.randint(-3, 3)) for _ in range(t)],
                        scale=[rnd.choice([1.0, 0.5, 2.0, 4.0]) for _ in range(t)], unscale=rnd.choice([0, 1]))
        else:
            case.update(beta=[round(rnd.uniform(-2, 2), 3) for _ in range(t)],
                        u=[[round(rnd.gauss(0, 1), 4) for _ in range(t)] for _ in range(p)],
                        unscale=1 if (t > 1 or rnd.random() < 0.5) else 0)
        perm = list(range(n))
        rnd.shuffle(perm)
        case.update(perm=perm if rnd.random() < 0.8 else [], relabel=rnd.choice([0, 1]))
        yield case


N_TRUNC = "ring[truncation exactness and equivariance, EBV/GEBV/OHV subset protocols with sorting optimiser]"


@unit(P, N_TRUNC, "R", bounded=True,
      note="bounded: <=7 candidates (thorough 10), <=6 markers on <=2 chromosomes, <=2 traits, ncross*nparent<=candidates, "
           "dyadic breeding values with ties (EBV), 4-digit marker effects (GEBV/OHV); quick 600 / thorough 9000 random populations")
def u_ring_trunc(ctx):
    ctx.rule = ("random populations; select() of the real protocol with SortingSubsetOptimizationAlgorithm; oracle = best-k "
                "by an independently computed criterion (weighted breeding value, marker-effect sum, optimal haploid value "
                "with one block per chromosome), then the same population permuted and relabelled; non-trivial when not "
                "every candidate is chosen; distinct by full input")
    _drive(ctx, gen_trunc_cases(ctx.rng, ctx.tier), run_case_trunc,
           obligation=lambda c, cl: "ring:truncation:%s:%s" % (c["proto"], cl),
           cls_of=lambda c, cl, m: "truncation:%s:%s" % (c["proto"], cl),
           nontrivial=lambda c: (c["proto"] == "OHV") or c["ncross"] * c["nparent"] < c["n"],
           sample_of=lambda c: dict(proto=c["proto"], n=c["n"], ncross=c["ncross"], nparent=c["nparent"], perm=c["perm"]))


# --------------------------------------------------------------------------
# D. select() data flow for all protocol families x encodings, with a ring-side optimiser
# --------------------------------------------------------------------------
_FAM = {"EBV": "EstimatedBreedingValue", "GEBV": "GenomicEstimatedBreedingValue", "OCS": "OptimalContribution",
        "UC": "UsefulnessCriterion", "OHV": "OptimalHaploidValue", "RS": "Random"}
_MATE_FAM = ("UC", "OHV")


def _stub_algo(enc, nsamp, dseed, record, role):
    """ring-side optimiser: evaluates the REAL problem on `nsamp` distinct random decisions and returns the best one
    (single objective) or the non-dominated ones (multi objective)"""
    import importlib
    import random
    numpy = _np()
    base = enc + "OptimizationAlgorithm"
    solc = enc + "Solution"
    B = getattr(importlib.import_module("pybrops.opt.algo." + base), base)
    S = getattr(importlib.import_module("pybrops.opt.soln." + solc), solc)

    class RingOptimizer(B):
        def __init__(self):
            pass

        def minimize(self, prob, miscout=None, **kwargs):
            if (role == "so") != (int(prob.nobj) == 1):
                record["wrong-role"] = "%s optimiser given a problem with %d objectives" % (role, int(prob.nobj))
            r = random.Random(dseed)
            nd = int(prob.ndecn)
            X, seen = [], set()
            tries = 0
            while len(X) < nsamp and tries < 50 * nsamp:
                tries += 1
                if enc == "Subset":
                    x = r.sample([int(v) for v in prob.decn_space], nd)
                    xa = numpy.array(x, dtype="int64")
                elif enc == "Real":
                    x = [r.choice([0.0, r.random(), r.random()]) for _ in range(nd)]
                    if sum(x) <= 0.0:
                        x[r.randrange(nd)] = 0.5
                    xa = numpy.array(x, dtype=float)
                elif enc == "Integer":
                    x = [r.choice([0, 0, 1, 2]) for _ in range(nd)]
                    if sum(x) == 0:
                        x[r.randrange(nd)] = 1
                    xa = numpy.array(x, dtype="int64")
                else:
                    x = [r.randint(0, 1) for _ in range(nd)]
                    if sum(x) == 0:
                        x[r.randrange(nd)] = 1
                    xa = numpy.array(x, dtype="int64")
                key = tuple(sorted(x)) if enc == "Subset" else tuple(x)
                if key in seen:
                    continue
                seen.add(key)
                X.append(xa)
            ev = [prob.evalfn(x) for x in X]
            obj = [[float(v) for v in e[0]] for e in ev]
            if int(prob.nobj) == 1:
                best = 0
                for i in range(len(X)):
                    if obj[i][0] < obj[best][0]:
                        best = i
                keep = [best]
            else:
                keep = []
                for i in range(len(X)):
                    dominated = False
                    for j in range(len(X)):
                        if j != i and all(a <= b for a, b in zip(obj[j], obj[i])) and any(a < b for a, b in zip(obj[j], obj[i])):
                            dominated = True
                    if not dominated:
                        keep.append(i)
            record["decn"] = [[(float(v) if enc == "Real" else int(v)) for v in X[i]] for i in keep]
            record["obj"] = [obj[i] for i in keep]
            record["calls"] = record.get("calls", 0) + 1
            return S(ndecn=prob.ndecn, decn_space=prob.decn_space, decn_space_lower=prob.decn_space_lower,
                     decn_space_upper=prob.decn_space_upper, nobj=prob.nobj, obj_wt=prob.obj_wt,
                     nineqcv=prob.nineqcv, ineqcv_wt=prob.ineqcv_wt, neqcv=prob.neqcv, eqcv_wt=prob.eqcv_wt,
                     nsoln=len(keep), soln_decn=numpy.stack([X[i] for i in keep]),
                     soln_obj=numpy.stack([ev[i][0] for i in keep]), soln_ineqcv=numpy.stack([ev[i][1] for i in keep]),
                     soln_eqcv=numpy.stack([ev[i][2] for i in keep]))
    return RingOptimizer()


def _flow_protocol(case, soalgo, moalgo, ndlog):
    import importlib
    numpy = _np()
    fam, enc = case["fam"], case["enc"]
    mod = _FAM[fam]
    cls = getattr(importlib.import_module("pybrops.breed.prot.sel.%sSelection" % mod), "%s%sSelection" % (mod, enc))
    extra = {}
    if fam in ("EBV", "GEBV"):
        extra = dict(unscale=True)
    elif fam == "OCS":
        from pybrops.popgen.cmat.fcty.DenseVanRadenCoancestryMatrixFactory import DenseVanRadenCoancestryMatrixFactory
        extra = dict(cmatfcty=DenseVanRadenCoancestryMatrixFactory(), unscale=True)
    elif fam == "UC":
        from pybrops.model.vmat.fcty.DenseTwoWayDHAdditiveGeneticVarianceMatrixFactory import \
            DenseTwoWayDHAdditiveGeneticVarianceMatrixFactory
        from pybrops.popgen.gmap.HaldaneMapFunction import HaldaneMapFunction
        extra = dict(nself=0, upper_percentile=0.1, vmatfcty=DenseTwoWayDHAdditiveGeneticVarianceMatrixFactory(),
                     gmapfn=HaldaneMapFunction(), unique_parents=bool(case["unique"]))
    elif fam == "OHV":
        extra = dict(nhaploblk=case["nchr"], unique_parents=bool(case["unique"]))
    ncross = case["ncross"]
    nm, _ = _as_count_array(case["nmating"], ncross)
    npg, _ = _as_count_array(case["nprogeny"], ncross)
    nobj = case["nobj"]
    kw = dict(ntrait=case["t"], ncross=ncross, nparent=case["nparent"], nmating=nm, nprogeny=npg, nobj=nobj,
              soalgo=soalgo, moalgo=moalgo, rng=numpy.random.RandomState(case["gseed"] + 7))
    if nobj == 1:
        kw.update(obj_trans=_ot_wsum, obj_trans_kwargs={"w": [1.0] * case["t"]})
    else:
        kw.update(obj_trans=_ot_first2, obj_trans_kwargs={})
    if case["ndt"] != "default":
        kw.update(ndset_trans=_make_ndset_trans(case["ndt"], ndlog), ndset_trans_kwargs={"par": list(case["ndk"])})
    if case["ndw"] is not None:
        kw.update(ndset_wt=float(case["ndw"]))
    kw.update(extra)
    return cls(**kw)


def run_case_flow(case):
    numpy = _np()
    numpy.random.seed(case["gseed"])
    fam, enc = case["fam"], case["enc"]
    n, p, t, nchr = case["n"], case["p"], case["t"], case["nchr"]
    ncross, nparent, nobj = case["ncross"], case["nparent"], case["nobj"]
    pg, g = _pgmat(n, p, nchr, case["pseed"])
    from pybrops.model.gmod.DenseAdditiveLinearGenomicModel import DenseAdditiveLinearGenomicModel
    from pybrops.breed.prot.gt.DenseUnphasedGenotyping import DenseUnphasedGenotyping
    r = numpy.random.RandomState(case["pseed"])
    gpmod = DenseAdditiveLinearGenomicModel(beta=r.uniform(1, 2, (1, t)), u_misc=None, u_a=r.normal(0, 1, (p, t)),
                                            trait=numpy.array(["tr%d" % j for j in range(t)], dtype=object))
    gmat = DenseUnphasedGenotyping().genotype(pg)
    bvmat = gpmod.gebv(gmat)
    record, ndlog = {}, []
    soalgo = _stub_algo(enc, case["nsamp"], case["dseed"], record, "so")
    moalgo = _stub_algo(enc, case["nsamp"], case["dseed"], record, "mo")
    prot = _flow_protocol(case, soalgo, moalgo, ndlog)
    mo = {}
    cfg = prot.select(pgmat=pg, gmat=gmat, ptdf=None, bvmat=bvmat, gpmod=gpmod, t_cur=0, t_max=1, miscout=mo)
    mate = fam in _MATE_FAM
    expname = "%s%sSelectionConfiguration" % (enc, "Mate" if mate else "")
    if type(cfg).__name__ != expname:
        return True, "select() returned %s, expected %s" % (type(cfg).__name__, expname), "config-class"
    nm_exp = _as_count_array(case["nmating"], ncross)[1]
    np_exp = _as_count_array(case["nprogeny"], ncross)[1]
    m = _check_stored(cfg, pg, ncross, nparent, nm_exp, np_exp)
    if m:
        return True, m, "stored"
    if record.get("calls") != 1:
        return True, "optimiser called %r times" % record.get("calls"), "optimiser-calls"
    if record.get("wrong-role"):
        return True, record["wrong-role"], "optimiser-calls"
    key = "sosoln" if nobj == 1 else "mosoln"
    if key not in mo:
        return True, "miscout lacks %s" % key, "solution-forwarded"
    soln = mo[key]
    front_decn = [[(float(v) if enc == "Real" else int(v)) for v in row] for row in soln.soln_decn]
    front_obj = [[float(v) for v in row] for row in soln.soln_obj]
    if front_decn != record["decn"] or front_obj != record["obj"]:
        return True, "solution fields were not forwarded unchanged: decn %s vs optimiser %s" % (front_decn, record["decn"]), "solution-forwarded"
    decn = [(float(v) if enc == "Real" else int(v)) for v in cfg.xconfig_decn]
    # which solution must the configuration derive from?
    if nobj == 1:
        if decn != front_decn[0]:
            return True, "configuration decision %s is not the solution %s" % (decn, front_decn[0]), "decision-choice"
    else:
        if case["ndt"] == "default":
            sc = prot.ndset_trans(numpy.array(front_obj, dtype=float), **prot.ndset_trans_kwargs)
            scores = [float(v) for v in sc]
            wt = float(prot.ndset_wt)
        else:
            scores = _score_rows(case["ndt"], front_obj, case["ndk"])
            wt = float(case["ndw"]) if case["ndw"] is not None else 1.0
            if not ndlog:
                return True, "declared ndset_trans was never applied", "decision-choice"
            if ndlog[-1][0] != front_obj or list(ndlog[-1][1]) != list(case["ndk"]):
                return True, "ndset_trans applied to %s with %s, not to the front objectives %s with the declared kwargs" % (
                    ndlog[-1][0], ndlog[-1][1], front_obj), "decision-choice"
        ws = [wt * s for s in scores]
        if any(math.isnan(s) for s in ws):
            pass    # undefined preference (default transformation on a degenerate front): C19 matter, nothing to check
        else:
            best = max(ws)
            rowsmatch = [i for i in range(len(front_decn)) if front_decn[i] == decn]
            if not rowsmatch:
                return True, "configuration decision %s is not a row of the front %s" % (decn, front_decn), "decision-choice"
            if not any(ws[i] == best for i in rowsmatch):
                return True, ("configuration derived from front row %s with preference %s, but the maximum of "
                              "ndset_wt*ndset_trans(front) is %s (all: %s)" % (rowsmatch, [ws[i] for i in rowsmatch], best, ws)), "decision-choice"
    # the configuration itself
    if mate:
        xm = _oracle_tuples(n, nparent, bool(case["unique"]))
        xmap = [[int(v) for v in row] for row in soln.decn_space_xmap]
        if xmap != xm:
            return True, "protocol cross map differs from the sorted-tuple enumeration", "cross-map"
        kind = {"Subset": "submate", "Integer": "intmate", "Binary": "binmate", "Real": "realmate"}[enc]
        cl, m = _check_mate_xconfig(kind, cfg.xconfig, xm, decn, ncross, nparent, n)
    else:
        cl, m = _check_indiv_xconfig(enc.lower(), cfg.xconfig, decn, ncross, nparent, n)
    if cl:
        return True, m, cl
    return False, "", ""


def _flow_case(rnd, fam, enc, nobj, uc_integer_multi=False):
    n = rnd.choice([4, 5, 6])
    nchr = rnd.choice([1, 2])
    p = rnd.randint(3, 6)
    t = 2
    mate = fam in _MATE_FAM
    unique = rnd.choice([0, 1]) if fam == "OHV" else 1
    if fam == "UC":
        nparent = 2
    elif fam == "OHV":
        nparent = rnd.choice([2, 2, 3])
    else:
        nparent = rnd.choice([1, 2, 2, 3])
    if mate:
        nx = len(_oracle_tuples(n, nparent, bool(unique)))
        ncross = rnd.randint(1, min(4, nx))
    elif enc == "Subset" and fam != "RS":
        ncross = rnd.randint(1, max(1, n // nparent))
    else:
        ncross = rnd.randint(1, 4)
    if fam == "UC" and enc == "Integer":
        ncross = rnd.randint(2, 4) if uc_integer_multi else 1
    nm, npg = _rand_design(rnd, ncross)
    ndt = rnd.choice(["wsum", "negdist", "first", "wsum", "default"]) if nobj > 1 else "wsum"
    if ndt == "wsum":
        ndk = [rnd.choice([1.0, -1.0, 0.5, 2.0]) for _ in range(2)]
    elif ndt == "negdist":
        ndk = [round(rnd.uniform(-3, 3), 2) for _ in range(2)]
    else:
        ndk = []
    ndw = None if ndt == "default" else rnd.choice([1.0, -1.0, 2.5, None])
    return dict(fam=fam, enc=enc, nobj=nobj, n=n, p=p, t=t, nchr=nchr, unique=unique, ncross=ncross, nparent=nparent,
                nmating=nm, nprogeny=npg, ndt=ndt, ndk=ndk, ndw=ndw, nsamp=rnd.choice([1, 3, 6, 9, 40]),
                dseed=rnd.randint(0, 10 ** 6), pseed=rnd.randint(0, 10 ** 6), gseed=rnd.randint(0, 10 ** 6))


def gen_flow_cases(rnd, tier):
    reps = 7 if tier == "quick" else 100
    for fam in ("EBV", "GEBV", "OCS", "UC", "OHV", "RS"):
        for enc in ("Subset", "Real", "Integer", "Binary"):
            for nobj in (1, 2):
                for _ in range(reps):
                    yield _flow_case(rnd, fam, enc, nobj)


def gen_flow_uc_integer_cases(rnd, tier):
    for nobj in (1, 2):
        for _ in range(2 if tier == "quick" else 4):
            yield _flow_case(rnd, "UC", "Integer", nobj, uc_integer_multi=True)


def _flow_cls(case, clause, msg):
    if (case["fam"] == "UC" and case["enc"] == "Integer" and case["ncross"] > 1 and clause == "exception"
            and "same shape" in msg):
        return "uc-integer-problem-decn-space-upper-from-nmating-array"
    return "select-flow:%s%s:%s" % (case["fam"], case["enc"], clause)


N_FLOW = "ring[select() data flow, 6 protocol families x 4 encodings, ring-side optimiser]"


@unit(P, N_FLOW, "R", bounded=True,
      note="bounded: 4-6 candidates, <=6 markers, 2 traits, ncross<=4, nparent<=3, fronts from <=40 sampled decisions (all subsets when there are fewer) of the "
           "real problem; quick 7 / thorough 100 per (family, encoding, nobj)")
def u_ring_flow(ctx):
    ctx.rule = ("for each of EBV/GEBV/OCS/UC/OHV/Random x Subset/Real/Integer/Binary x single/multi objective: the real "
                "protocol with an optimiser that samples decisions, evaluates the real problem and returns the best / the "
                "non-dominated ones; oracle: configuration decision == solution row maximising ndset_wt*ndset_trans "
                "(three ring-side transformations and the library default), configuration valid for that decision; "
                "non-trivial when the front has > 1 candidate decision; distinct by full input")
    cases = itertools.chain(gen_flow_cases(ctx.rng, ctx.tier), gen_flow_uc_integer_cases(ctx.rng, ctx.tier))
    _drive(ctx, cases, run_case_flow,
           obligation=lambda c, cl: "ring:select:%s%s:%s" % (c["fam"], c["enc"], cl),
           cls_of=_flow_cls,
           nontrivial=lambda c: c["nsamp"] > 1,
           sample_of=lambda c: dict(fam=c["fam"], enc=c["enc"], nobj=c["nobj"], ncross=c["ncross"], nparent=c["nparent"],
                                    ndt=c["ndt"], ndw=c["ndw"]))


REPLAYERS = {
    N_CFG: _two(run_case_cfg),
    N_EDGE: _two(run_case_cfg),
    N_MATE: _two(run_case_mate_or_ix),
    N_TRUNC: _two(run_case_trunc),
    N_FLOW: _two(run_case_flow),
}
