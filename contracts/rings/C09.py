"""C09 -- native bounded ring (mode R): genotype summary statistics are exact
and mutually consistent.

Every case is a matrix of raw allele calls ``calls[phase][taxon][locus]`` in
{0,1}.  From it the ring builds, with the REAL classes,

* ``pg``  the phased matrix          DensePhasedGenotypeMatrix(calls)
* ``ug``  its unphased projection    DenseGenotypeMatrix(dosage, ploidy)
* ``gg``  the genotyped projection   DenseUnphasedGenotyping().genotype(pg)

and compares every statistic of every object, for every output dtype, with an
oracle that is evaluated with python integers / ``fractions.Fraction`` directly
on the raw calls (textbook definitions from the property statement; no numpy
reductions, no reciprocal multiplications).

Finding classes (``cls``) of the unchanged tree
  afreq-reciprocal-rounding   a locus at which every copy carries allele 1 gets the frequency
                              0.9999999999999999 ((1.0/c)*c != 1.0 for c = ploidy*n in 49, 98, 103, ...),
                              with the consequences for afixed / apoly / maf / the complement clause
  gtcount-unphased-one-class  DenseGenotypeMatrix.gtcount / gtfreq return only genotype class 0
                              (range(nphase+1) with nphase == 0) instead of ploidy+1 classes
Every other failure carries ``C09:<clause>`` and is a violation.
"""
import itertools
import random
from fractions import Fraction

from pyvc.unit import unit

P = "C09"

CLS_RR = "afreq-reciprocal-rounding"
CLS_GT = "gtcount-unphased-one-class"

# --------------------------------------------------------------------------------------------------
# dtype arguments.  a spec is a string; "py:x" python type, "np:x" numpy scalar class, "dt:x" numpy.dtype
# instance, anything else is passed as the string itself; None is the default argument.
# --------------------------------------------------------------------------------------------------
INT_SPECS = ["int8", "int16", "int32", "int64", "uint8", "uint16", "uint32", "uint64", "py:int", "np:int32", "dt:int64"]
FLT_SPECS = ["float16", "float32", "float64", "py:float", "np:float32", "dt:float64"]
BOOL_SPECS = ["bool", "py:bool"]

COUNT_SPECS = [None] + INT_SPECS + FLT_SPECS                # value checked where the exact count is representable
FREQ_SPECS = [None] + FLT_SPECS                             # value checked
FREQ_DTYPE_ONLY = ["int8", "int64", "uint8", "py:int"]      # an integer cannot hold a frequency: dtype and shape only
FLAG_SPECS = [None] + BOOL_SPECS + ["int8", "int64", "uint8", "py:int", "float32", "float64", "py:float"]

LITE_FREQ_SPECS = [None, "float32", "float64"]


def _dtype_arg(spec):
    import numpy
    if spec is None:
        return None
    if spec.startswith("py:"):
        return {"int": int, "float": float, "bool": bool}[spec[3:]]
    if spec.startswith("np:"):
        return getattr(numpy, spec[3:])
    if spec.startswith("dt:"):
        return numpy.dtype(spec[3:])
    return spec


def _dtype_of(spec):
    import numpy
    return numpy.dtype(_dtype_arg(spec))


def _tol(dt):
    """tolerance for real-valued statistics ('to rounding' of the requested float type)"""
    size = dt.itemsize
    if size >= 8:
        return 1e-12
    if size == 4:
        return 1e-6
    return 2e-3


# --------------------------------------------------------------------------------------------------
# case -> raw allele calls
# --------------------------------------------------------------------------------------------------
COLUMN_KINDS = ["all0", "all1", "het", "one1", "one0", "halfhom", "alt", "rand"]


def _column(kind, ploidy, n, rnd):
    """one locus: list[phase][taxon] of 0/1"""
    col = [[0] * n for _ in range(ploidy)]
    if kind == "all0":
        pass
    elif kind == "all1":
        for m in range(ploidy):
            for t in range(n):
                col[m][t] = 1
    elif kind == "het":
        # every taxon carries ploidy//2 copies of allele 1 (for ploidy 1: alternate 0/1), phase chosen per taxon
        for t in range(n):
            k = ploidy // 2 if ploidy > 1 else t % 2
            phases = list(range(ploidy))
            rnd.shuffle(phases)
            for m in phases[:k]:
                col[m][t] = 1
    elif kind == "one1":
        col[rnd.randrange(ploidy)][rnd.randrange(n)] = 1
    elif kind == "one0":
        for m in range(ploidy):
            for t in range(n):
                col[m][t] = 1
        col[rnd.randrange(ploidy)][rnd.randrange(n)] = 0
    elif kind == "halfhom":
        for t in range(n):
            if t % 2 == 0:
                for m in range(ploidy):
                    col[m][t] = 1
    elif kind == "alt":
        for t in range(n):
            for m in range(ploidy):
                col[m][t] = (t + m) % 2
    else:
        if kind == "rand":
            q = rnd.choice([0.02, 0.1, 0.3, 0.5, 0.7, 0.9, 0.98])
        else:
            q = float(kind.split(":")[1])
        for m in range(ploidy):
            for t in range(n):
                col[m][t] = 1 if rnd.random() < q else 0
    return col


def build_calls(case):
    """calls[phase][taxon][locus] from the case dict alone"""
    if "mat" in case:
        calls = case["mat"]
        return [[[int(v) for v in row] for row in ph] for ph in calls]
    ploidy, n, cols = case["ploidy"], case["n"], case["cols"]
    rnd = random.Random(case.get("seed", 0))
    columns = [_column(k, ploidy, n, rnd) for k in cols]
    return [[[columns[j][m][t] for j in range(len(cols))] for t in range(n)] for m in range(ploidy)]


# --------------------------------------------------------------------------------------------------
# oracle: textbook definitions on the raw calls (python ints and Fractions)
# --------------------------------------------------------------------------------------------------
class Oracle:
    def __init__(self, calls, nvrnt):
        self.ploidy = k = len(calls)
        self.n = n = len(calls[0])
        self.p = p = nvrnt
        self.c = k * n                                      # number of chromosome copies in the population
        self.dos = [[0] * p for _ in range(n)]              # allele-1 count per taxon and locus
        for m in range(k):
            for t in range(n):
                row = calls[m][t]
                d = self.dos[t]
                for j in range(p):
                    v = row[j]
                    assert v in (0, 1)
                    d[j] += v
        self.s = [0] * p                                    # allele-1 count per locus
        self.gt = [[0] * p for _ in range(k + 1)]           # genotype classes 0..ploidy
        for t in range(n):
            d = self.dos[t]
            for j in range(p):
                self.s[j] += d[j]
                self.gt[d[j]][j] += 1
        # fixation straight from the calls: every copy carries the same allele
        self.fixed = []
        for j in range(p):
            first = calls[0][0][j]
            same = True
            for m in range(k):
                for t in range(n):
                    if calls[m][t][j] != first:
                        same = False
                        break
                if not same:
                    break
            self.fixed.append(same)
        self.freq = [Fraction(self.s[j], self.c) for j in range(p)]
        self.maf = [min(f, 1 - f) for f in self.freq]
        self.tfreq = [[Fraction(self.dos[t][j], k) for j in range(p)] for t in range(n)]
        self.gtf = [[Fraction(self.gt[g][j], n) for j in range(p)] for g in range(k + 1)]
        if p > 0:
            if k == 2:
                # expected heterozygosity of a diploid locus: 1 - p^2 - q^2, averaged over loci
                self.meh = sum(1 - f * f - (1 - f) * (1 - f) for f in self.freq) / p
            else:
                self.meh = sum(k * f * (1 - f) for f in self.freq) / p
        else:
            self.meh = None


# --------------------------------------------------------------------------------------------------
# comparison helpers
# --------------------------------------------------------------------------------------------------
def _shape_of(nested):
    shp = []
    x = nested
    while isinstance(x, list):
        shp.append(len(x))
        if not x:
            break
        x = x[0]
    return tuple(shp)


def _flat(nested):
    if isinstance(nested, list):
        for x in nested:
            yield from _flat(x)
    else:
        yield nested


def _representable(v, dt):
    """can the exact integer v be held (and accumulated in steps of <= ploidy) in dtype dt"""
    import numpy
    if dt.kind == "b":
        return v in (0, 1)
    if dt.kind in "iu":
        info = numpy.iinfo(dt)
        return info.min <= v <= info.max
    if dt.kind == "f":
        return abs(v) <= 2 ** (numpy.finfo(dt).nmant + 1)
    return False


class Checker:
    """collects clause failures for one case; each failure = (clause, cls, message)"""

    def __init__(self):
        self.fails = []
        self.failed_keys = set()
        self.meh_ulp = 0

    def fail(self, clause, cls, msg, key=None):
        if key is not None:
            self.failed_keys.add(key)
        if len(self.fails) < 200:
            self.fails.append((clause, cls, msg))


def _res_array(ck, name, key, res, spec, default_ok, shape, cls_dflt):
    """common checks: ndarray-like, dtype honoured, shape.  returns numpy array or None"""
    import numpy
    arr = numpy.asarray(res)
    if spec is None:
        if not default_ok(arr.dtype):
            ck.fail(name, cls_dflt, "%s: default dtype is %s" % (name, arr.dtype), key)
            return None
    else:
        want = _dtype_of(spec)
        if arr.dtype != want:
            ck.fail(name, cls_dflt, "%s: requested dtype %s, got %s" % (name, want, arr.dtype), key)
            return None
    if tuple(arr.shape) != tuple(shape):
        ck.fail(name, cls_dflt, "%s: shape %s, expected %s" % (name, tuple(arr.shape), tuple(shape)), key)
        return None
    return arr


def _is_native_int(dt):
    return dt.kind == "i" and dt.itemsize == 8


def _is_f64(dt):
    return dt.kind == "f" and dt.itemsize == 8


def _is_bool(dt):
    return dt.kind == "b"


def _check_counts(ck, name, key, arr, exp_nested, cls):
    """exact integer comparison wherever the exact value is representable in the result dtype"""
    dt = arr.dtype
    got = list(_flat(arr.tolist()))
    exp = list(_flat(exp_nested))
    for i, (g, e) in enumerate(zip(got, exp)):
        if not _representable(e, dt):
            continue
        if g != e:
            ck.fail(name, cls, "%s: flat index %d is %r, exact count is %d" % (name, i, g, e), key)
            return False
    return True


def _check_real(ck, name, key, arr, exp_nested, cls, lo=None, hi=None):
    tol = _tol(arr.dtype)
    got = list(_flat(arr.tolist()))
    exp = list(_flat(exp_nested))
    for i, (g, e) in enumerate(zip(got, exp)):
        ef = float(e)
        if not (abs(g - ef) <= tol * max(1.0, abs(ef))):
            ck.fail(name, cls, "%s: flat index %d is %r, definition gives %r (%s)" % (name, i, g, ef, e), key)
            return False
        if lo is not None and not (lo <= g <= hi):
            ck.fail(name, cls, "%s: flat index %d is %r, outside [%r,%r]" % (name, i, g, lo, hi), key)
            return False
    return True


# --------------------------------------------------------------------------------------------------
# one object against the oracle
# --------------------------------------------------------------------------------------------------
def check_object(ck, tag, obj, O, phased, lite, results):
    """tag: 'pg' | 'ug' | 'gg'.  results[(method, spec)] = raw library result (for the projection clause)"""
    import numpy
    k, n, p, c = O.ploidy, O.n, O.p, O.c
    before = numpy.array(obj.mat, copy=True)

    def call(method, spec):
        res = getattr(obj, method)(_dtype_arg(spec)) if spec is not None else getattr(obj, method)()
        results[(method, spec)] = res
        return res

    # structural facts
    if obj.ploidy != k:
        ck.fail("%s.ploidy" % tag, "C09:ploidy", "%s.ploidy is %r, expected %d" % (tag, obj.ploidy, k))
    if obj.ntaxa != n or obj.nvrnt != p:
        ck.fail("%s.shape" % tag, "C09:shape", "%s ntaxa/nvrnt %r/%r expected %d/%d" % (tag, obj.ntaxa, obj.nvrnt, n, p))

    # loci affected by the reciprocal rounding: truly fixed for allele 1, library frequency one ulp short of 1
    lib_af = numpy.asarray(obj.afreq()).tolist()
    rr = set()
    if len(lib_af) == p:
        for j in range(p):
            if O.s[j] == c and lib_af[j] != 1.0 and abs(lib_af[j] - 1.0) < 1e-9:
                rr.add(j)

    def cls_loci(loci, dflt):
        loci = set(loci)
        return CLS_RR if loci and loci <= rr else dflt

    # ---- allele frequency ------------------------------------------------------------------------
    for spec in (LITE_FREQ_SPECS if lite else FREQ_SPECS):
        name, key = "%s.afreq(%s)" % (tag, spec), (tag, "afreq", spec)
        arr = _res_array(ck, name, key, call("afreq", spec), spec, _is_f64, (p,), "C09:afreq")
        if arr is None:
            continue
        if not _check_real(ck, name, key, arr, O.freq, "C09:afreq", 0.0, 1.0):
            continue
        got = arr.tolist()
        strict = arr.dtype.itemsize >= 4 or c <= 1000
        bad1 = [j for j in range(p) if O.s[j] == c and got[j] != 1.0]
        bad0 = [j for j in range(p) if O.s[j] == 0 and got[j] != 0.0]
        badi = [j for j in range(p) if strict and 0 < O.s[j] < c and not (0.0 < got[j] < 1.0)]
        if bad1:
            ck.fail(name + ":exact-one", cls_loci(bad1, "C09:afreq-exact"),
                    "%s: locus %d has all %d copies = allele 1 but frequency %r != 1.0" % (name, bad1[0], c, got[bad1[0]]), key)
        if bad0:
            ck.fail(name + ":exact-zero", "C09:afreq-exact",
                    "%s: locus %d has no copy of allele 1 but frequency %r != 0.0" % (name, bad0[0], got[bad0[0]]), key)
        if badi:
            ck.fail(name + ":interior", "C09:afreq-exact",
                    "%s: locus %d has %d of %d copies but frequency %r is not strictly inside (0,1)" % (
                        name, badi[0], O.s[badi[0]], c, got[badi[0]]), key)
    if not lite:
        for spec in FREQ_DTYPE_ONLY:
            name, key = "%s.afreq(%s)" % (tag, spec), (tag, "afreq", spec)
            _res_array(ck, name, key, call("afreq", spec), spec, _is_f64, (p,), "C09:afreq-dtype")

    # ---- minor allele frequency ------------------------------------------------------------------
    for spec in ([None] if lite else FREQ_SPECS):
        name, key = "%s.maf(%s)" % (tag, spec), (tag, "maf", spec)
        arr = _res_array(ck, name, key, call("maf", spec), spec, _is_f64, (p,), "C09:maf")
        if arr is None:
            continue
        if not _check_real(ck, name, key, arr, O.maf, "C09:maf", 0.0, 0.5):
            continue
        got = arr.tolist()
        strict = arr.dtype.itemsize >= 4 or c <= 1000
        badf = [j for j in range(p) if O.fixed[j] and got[j] != 0.0]
        badi = [j for j in range(p) if strict and not O.fixed[j] and not (got[j] > 0.0)]
        if badf:
            ck.fail(name + ":exact-zero", cls_loci(badf, "C09:maf-exact"),
                    "%s: locus %d is fixed but minor allele frequency is %r" % (name, badf[0], got[badf[0]]), key)
        if badi:
            ck.fail(name + ":positive", "C09:maf-exact",
                    "%s: locus %d segregates but minor allele frequency is %r" % (name, badi[0], got[badi[0]]), key)

    # ---- fixation / polymorphism flags ------------------------------------------------------------
    flags = {}
    for method, truth in (("afixed", O.fixed), ("apoly", [not f for f in O.fixed])):
        for spec in ([None] if lite else FLAG_SPECS):
            name, key = "%s.%s(%s)" % (tag, method, spec), (tag, method, spec)
            arr = _res_array(ck, name, key, call(method, spec), spec, _is_bool, (p,), "C09:%s" % method)
            if arr is None:
                continue
            got = arr.tolist()
            if spec is None:
                flags[method] = got
            bad = [j for j in range(p) if got[j] != (1 if truth[j] else 0)]
            if bad:
                j = bad[0]
                ck.fail(name, cls_loci(bad, "C09:%s" % method),
                        "%s: locus %d (allele-1 copies %d of %d) flag is %r, definition gives %r" % (
                            name, j, O.s[j], c, got[j], truth[j]), key)
    if "afixed" in flags and "apoly" in flags:
        bad = [j for j in range(p) if bool(flags["afixed"][j]) == bool(flags["apoly"][j])]
        if bad:
            j = bad[0]
            ck.fail("%s.afixed==~apoly" % tag, cls_loci(bad, "C09:fixed-poly-complement"),
                    "%s: locus %d has afixed=%r and apoly=%r (not complementary)" % (
                        tag, j, flags["afixed"][j], flags["apoly"][j]))

    # ---- population allele counts ----------------------------------------------------------------
    for spec in ([None] if lite else COUNT_SPECS):
        name, key = "%s.acount(%s)" % (tag, spec), (tag, "acount", spec)
        arr = _res_array(ck, name, key, call("acount", spec), spec, _is_native_int, (p,), "C09:acount")
        if arr is not None:
            _check_counts(ck, name, key, arr, O.s, "C09:acount")

    if lite:
        if not numpy.array_equal(before, obj.mat):
            ck.fail("%s.frame" % tag, "C09:input-mutated", "%s.mat was modified by a summary statistic" % tag)
        return

    # ---- per taxon counts and frequencies --------------------------------------------------------
    for spec in COUNT_SPECS:
        name, key = "%s.tacount(%s)" % (tag, spec), (tag, "tacount", spec)
        res = call("tacount", spec)
        arr = _res_array(ck, name, key, res, spec, _is_native_int, (n, p), "C09:tacount")
        if arr is not None:
            _check_counts(ck, name, key, arr, O.dos, "C09:tacount")
            if isinstance(res, numpy.ndarray) and res.size and numpy.shares_memory(res, obj.mat):
                ck.fail(name + ":alias", "C09:alias", "%s shares memory with the matrix" % name, key)
    for spec in FREQ_SPECS:
        name, key = "%s.tafreq(%s)" % (tag, spec), (tag, "tafreq", spec)
        arr = _res_array(ck, name, key, call("tafreq", spec), spec, _is_f64, (n, p), "C09:tafreq")
        if arr is None:
            continue
        if not _check_real(ck, name, key, arr, O.tfreq, "C09:tafreq", 0.0, 1.0):
            continue
        got = arr.tolist()
        for t in range(n):
            bad = [j for j in range(p) if (got[t][j] == 1.0) != (O.dos[t][j] == k) or (got[t][j] == 0.0) != (O.dos[t][j] == 0)]
            if bad:
                j = bad[0]
                ck.fail(name + ":exact", "C09:tafreq-exact",
                        "%s: taxon %d locus %d carries %d of %d copies but frequency is %r" % (name, t, j, O.dos[t][j], k, got[t][j]), key)
                break
    for spec in FREQ_DTYPE_ONLY:
        name, key = "%s.tafreq(%s)" % (tag, spec), (tag, "tafreq", spec)
        _res_array(ck, name, key, call("tafreq", spec), spec, _is_f64, (n, p), "C09:tafreq-dtype")

    # ---- mean expected heterozygosity ------------------------------------------------------------
    if p > 0:
        for spec in FREQ_SPECS:
            name, key = "%s.meh(%s)" % (tag, spec), (tag, "meh", spec)
            arr = _res_array(ck, name, key, call("meh", spec), spec, _is_f64, (), "C09:meh")
            if arr is not None:
                _check_real(ck, name, key, arr, O.meh, "C09:meh", 0.0, max(1.0, k * 0.25) + 1e-3)

    # ---- genotype classes ------------------------------------------------------------------------
    def one_class_signature(arr, exp_row0, real):
        """the known unphased defect: exactly one row, and that row is the correct class-0 row"""
        if phased or tuple(arr.shape) != (1, p):
            return False
        got = arr.tolist()[0]
        for j in range(p):
            e = exp_row0[j]
            if real:
                if not abs(got[j] - float(e)) <= _tol(arr.dtype):
                    return False
            elif _representable(e, arr.dtype) and got[j] != e:
                return False
        return True

    for spec in COUNT_SPECS:
        name, key = "%s.gtcount(%s)" % (tag, spec), (tag, "gtcount", spec)
        res = call("gtcount", spec)
        arr0 = numpy.asarray(res)
        if one_class_signature(arr0, O.gt[0], False):
            ck.fail(name + ":classes", CLS_GT,
                    "%s: shape %s, only genotype class 0 is counted; expected %d classes (ploidy+1) x %d loci" % (
                        name, tuple(arr0.shape), k + 1, p), key)
            continue
        arr = _res_array(ck, name, key, res, spec, _is_native_int, (k + 1, p), "C09:gtcount")
        if arr is None:
            continue
        if not _check_counts(ck, name, key, arr, O.gt, "C09:gtcount"):
            continue
        if spec is None:
            got = arr.tolist()
            for j in range(p):
                tot = sum(int(got[g][j]) for g in range(k + 1))
                if tot != n:
                    ck.fail(name + ":sum", "C09:gtcount-sum", "%s: classes at locus %d sum to %d, ntaxa is %d" % (name, j, tot, n), key)
                    break
    for spec in FREQ_SPECS:
        name, key = "%s.gtfreq(%s)" % (tag, spec), (tag, "gtfreq", spec)
        res = call("gtfreq", spec)
        arr0 = numpy.asarray(res)
        if one_class_signature(arr0, O.gtf[0], True):
            ck.fail(name + ":classes", CLS_GT,
                    "%s: shape %s, only genotype class 0 is reported; expected %d classes (ploidy+1) x %d loci" % (
                        name, tuple(arr0.shape), k + 1, p), key)
            continue
        arr = _res_array(ck, name, key, res, spec, _is_f64, (k + 1, p), "C09:gtfreq")
        if arr is None:
            continue
        if not _check_real(ck, name, key, arr, O.gtf, "C09:gtfreq", 0.0, 1.0):
            continue
        got = arr.tolist()
        for j in range(p):
            tot = sum(got[g][j] for g in range(k + 1))
            if not abs(tot - 1.0) <= (k + 1) * _tol(arr.dtype):
                ck.fail(name + ":sum", "C09:gtfreq-sum", "%s: class frequencies at locus %d sum to %r" % (name, j, tot), key)
                break
    for spec in FREQ_DTYPE_ONLY:
        name, key = "%s.gtfreq(%s)" % (tag, spec), (tag, "gtfreq", spec)
        res = call("gtfreq", spec)
        if not phased and tuple(numpy.asarray(res).shape) == (1, p):
            ck.fail(name + ":classes", CLS_GT, "%s: shape (1, %d), only genotype class 0 is reported" % (name, p), key)
            continue
        _res_array(ck, name, key, res, spec, _is_f64, (k + 1, p), "C09:gtfreq-dtype")

    # ---- alternative codings ---------------------------------------------------------------------
    res = obj.mat_asformat("{0,1,2}")
    results[("fmt012", None)] = res
    name, key = "%s.mat_asformat({0,1,2})" % tag, (tag, "fmt012", None)
    arr = _res_array(ck, name, key, res, None, lambda d: d.kind == "i", (n, p), "C09:asformat-012")
    if arr is not None:
        _check_counts(ck, name, key, arr, O.dos, "C09:asformat-012")
        if isinstance(res, numpy.ndarray) and res.size and numpy.shares_memory(res, obj.mat):
            ck.fail(name + ":alias", "C09:alias", "%s shares memory with the matrix" % name, key)
    if k == 2:
        res = obj.mat_asformat("{-1,0,1}")
        results[("fmt-101", None)] = res
        name, key = "%s.mat_asformat({-1,0,1})" % tag, (tag, "fmt-101", None)
        arr = _res_array(ck, name, key, res, None, lambda d: d.kind == "i", (n, p), "C09:asformat-101")
        if arr is not None:
            _check_counts(ck, name, key, arr, [[d - 1 for d in row] for row in O.dos], "C09:asformat-101")
        res = obj.mat_asformat("{-1,m,1}")
        results[("fmt-1m1", None)] = res
        name, key = "%s.mat_asformat({-1,m,1})" % tag, (tag, "fmt-1m1", None)
        arr = _res_array(ck, name, key, res, None, lambda d: d.kind == "f", (n, p), "C09:asformat-1m1")
        if arr is not None:
            # homozygotes -1 / +1, heterozygotes the locus mean of the {-1,0,1} coding
            means = [Fraction(O.s[j] - n, n) for j in range(p)]
            exp = [[(means[j] if O.dos[t][j] == 1 else Fraction(O.dos[t][j] - 1)) for j in range(p)] for t in range(n)]
            if _check_real(ck, name, key, arr, exp, "C09:asformat-1m1"):
                got = arr.tolist()
                for t in range(n):
                    bad = [j for j in range(p) if O.dos[t][j] != 1 and got[t][j] != float(O.dos[t][j] - 1)]
                    if bad:
                        ck.fail(name + ":hom", "C09:asformat-1m1", "%s: homozygote (%d,%d) coded %r" % (name, t, bad[0], got[t][bad[0]]), key)
                        break
    try:
        obj.mat_asformat("{0,1}")
        ck.fail("%s.mat_asformat(unknown)" % tag, "C09:asformat-unknown", "%s: unknown coding did not raise ValueError" % tag)
    except ValueError:
        pass

    if not numpy.array_equal(before, obj.mat):
        ck.fail("%s.frame" % tag, "C09:input-mutated", "%s.mat was modified by a summary statistic or coding conversion" % tag)


# --------------------------------------------------------------------------------------------------
# phased matrix vs its unphased projection: identical answers
# --------------------------------------------------------------------------------------------------
def check_projection(ck, ta, ra, tb, rb):
    import numpy
    for key in ra:
        if key not in rb:
            continue
        method, spec = key
        if (ta, method, spec) in ck.failed_keys or (tb, method, spec) in ck.failed_keys:
            continue        # already reported against the definition, with the proper class
        a, b = numpy.asarray(ra[key]), numpy.asarray(rb[key])
        name = "%s.%s(%s) == %s.%s(%s)" % (ta, method, spec, tb, method, spec)
        if a.dtype != b.dtype or a.shape != b.shape:
            ck.fail("projection:" + method, "C09:projection", "%s: dtype/shape %s%s vs %s%s" % (name, a.dtype, a.shape, b.dtype, b.shape))
            continue
        if method == "meh":
            # real-valued scalar computed by two summation orders: identical as a real number, compared to rounding
            if a.tolist() != b.tolist():
                ck.meh_ulp += 1
            if not abs(float(a) - float(b)) <= 4 * _tol(a.dtype):
                ck.fail("projection:meh", "C09:projection", "%s: %r vs %r" % (name, a.tolist(), b.tolist()))
            continue
        if not numpy.array_equal(a, b):
            ck.fail("projection:" + method, "C09:projection", "%s: answers differ: %r vs %r" % (
                name, a.tolist() if a.size <= 12 else "...", b.tolist() if b.size <= 12 else "..."))


# --------------------------------------------------------------------------------------------------
# genotyping protocol: labels carried over, matrix is the dosage
# --------------------------------------------------------------------------------------------------
META = ["taxa", "taxa_grp", "vrnt_chrgrp", "vrnt_phypos", "vrnt_name", "vrnt_genpos", "vrnt_xoprob",
        "vrnt_hapgrp", "vrnt_hapalt", "vrnt_hapref", "vrnt_mask"]


def _meta(n, p, present):
    import numpy
    if not present:
        return {}
    return dict(
        taxa=numpy.array(["T%03d" % i for i in range(n)], dtype=object),
        taxa_grp=numpy.array([i % 3 for i in range(n)], dtype="int64"),
        vrnt_chrgrp=numpy.array([1 + (j * 2) // max(p, 1) for j in range(p)], dtype="int64"),
        vrnt_phypos=numpy.array([10 * (j + 1) for j in range(p)], dtype="int64"),
        vrnt_name=numpy.array(["m%d" % j for j in range(p)], dtype=object),
        vrnt_genpos=numpy.array([0.01 * j for j in range(p)], dtype="float64"),
        vrnt_xoprob=numpy.array([0.5 if j == 0 else 0.01 for j in range(p)], dtype="float64"),
        vrnt_hapgrp=numpy.array([j // 2 for j in range(p)], dtype="int64"),
        vrnt_hapalt=numpy.array(["A"] * p, dtype=object),
        vrnt_hapref=numpy.array(["C"] * p, dtype=object),
        vrnt_mask=numpy.array([j % 2 == 0 for j in range(p)], dtype=bool),
    )


def check_genotyped(ck, pg, gg, O, meta):
    import numpy
    from pybrops.popgen.gmat.DenseGenotypeMatrix import DenseGenotypeMatrix
    from pybrops.popgen.gmat.DensePhasedGenotypeMatrix import DensePhasedGenotypeMatrix
    if not isinstance(gg, DenseGenotypeMatrix) or isinstance(gg, DensePhasedGenotypeMatrix):
        ck.fail("genotype:type", "C09:genotype", "genotype() returned %s" % type(gg).__name__)
        return
    if gg.mat.dtype != numpy.dtype("int8") or tuple(gg.mat.shape) != (O.n, O.p) or gg.mat.tolist() != O.dos:
        ck.fail("genotype:mat", "C09:genotype", "genotype(): matrix is not the per-taxon allele count")
    if numpy.shares_memory(gg.mat, pg.mat):
        ck.fail("genotype:alias", "C09:alias", "genotype(): matrix shares memory with the phased matrix")
    if gg.ploidy != O.ploidy:
        ck.fail("genotype:ploidy", "C09:genotype", "genotype(): ploidy %r, expected %d" % (gg.ploidy, O.ploidy))
    for f in META:
        a, b = getattr(pg, f), getattr(gg, f)
        want = meta.get(f)
        if want is None:
            if b is not None:
                ck.fail("genotype:" + f, "C09:genotype-labels", "genotype(): %s invented" % f)
        elif b is None or numpy.asarray(b).tolist() != numpy.asarray(want).tolist() or numpy.asarray(a).tolist() != numpy.asarray(want).tolist():
            ck.fail("genotype:" + f, "C09:genotype-labels", "genotype(): %s not carried over" % f)


# --------------------------------------------------------------------------------------------------
# one case
# --------------------------------------------------------------------------------------------------
def check_case(case):
    """returns (list of (clause, cls, message), number of meh last-digit differences)"""
    import numpy
    from pybrops.popgen.gmat.DenseGenotypeMatrix import DenseGenotypeMatrix
    from pybrops.popgen.gmat.DensePhasedGenotypeMatrix import DensePhasedGenotypeMatrix
    from pybrops.breed.prot.gt.DenseUnphasedGenotyping import DenseUnphasedGenotyping

    calls = build_calls(case)
    k, n = len(calls), len(calls[0])
    p = len(calls[0][0])
    lite = case.get("mode") == "lite"
    O = Oracle(calls, p)
    meta = _meta(n, p, bool(case.get("meta")))
    ck = Checker()

    pmat = numpy.array(calls, dtype="int8").reshape(k, n, p)
    umat = numpy.array(O.dos, dtype="int8").reshape(n, p)
    if case.get("layout") == "F":
        pmat = numpy.asfortranarray(pmat)
        umat = numpy.asfortranarray(umat)
    pg = DensePhasedGenotypeMatrix(pmat, **meta)
    ug = DenseGenotypeMatrix(umat, ploidy=k, **meta)
    rp, ru, rg = {}, {}, {}
    check_object(ck, "pg", pg, O, True, lite, rp)
    check_object(ck, "ug", ug, O, False, lite, ru)
    check_projection(ck, "pg", rp, "ug", ru)
    if not lite:
        if meta and case.get("grouped"):
            pg.group_taxa()
            pg.group_vrnt()
            # grouping permutes taxa / loci: rebuild the oracle from the matrix actually stored
            calls2 = pg.mat.tolist()
            O2 = Oracle(calls2, p)
            meta2 = {f: getattr(pg, f) for f in META}
            meta2 = {f: (None if v is None else numpy.array(v, copy=True)) for f, v in meta2.items()}
        else:
            O2, meta2 = O, meta
        gg = DenseUnphasedGenotyping().genotype(pg)
        check_genotyped(ck, pg, gg, O2, meta2)
        check_object(ck, "gg", gg, O2, False, lite, rg)
        if O2 is O:
            check_projection(ck, "pg", rp, "gg", rg)
        else:
            rp2 = {}
            ck2 = Checker()
            check_object(ck2, "pg", pg, O2, True, lite, rp2)
            ck.fails.extend(ck2.fails)
            ck.failed_keys |= ck2.failed_keys
            check_projection(ck, "pg", rp2, "gg", rg)
        # history clause: the statistics describe the matrix as it is NOW (no stale cached state):
        # edit one raw call in place (pg) / replace the matrix through the setter (ug) and re-check
        if n * p > 0:
            calls3 = pg.mat.tolist()
            t, j = case.get("seed", 0) % n, (case.get("seed", 0) // 7) % p
            calls3[0][t][j] ^= 1
            pg.mat[0, t, j] ^= 1
            O3 = Oracle(calls3, p)
            ug.mat = numpy.array(O3.dos, dtype="int8").reshape(n, p)
            check_object(ck, "pg+edit", pg, O3, True, True, {})
            check_object(ck, "ug+edit", ug, O3, False, True, {})
    return ck.fails, ck.meh_ulp


def run_case(case):
    """(violated, message).  a case that carries '_cls' reports only failures of that class (replay of one finding)"""
    fails, _ = check_case(case)
    want = case.get("_cls")
    if want is not None:
        fails = [f for f in fails if f[1] == want]
    if not fails:
        return False, "all clauses hold (n=%s)" % (case.get("n"),)
    classes = sorted({f[1] for f in fails})
    return True, "%d clause failure(s), classes %s; first: %s" % (len(fails), classes, fails[0][2])


def _replay(case):
    try:
        return run_case(case)
    except Exception as e:
        return True, "exception %s: %s" % (type(e).__name__, e)


# --------------------------------------------------------------------------------------------------
# unit driver
# --------------------------------------------------------------------------------------------------
CAP = 3


def _drive(ctx, cases, sample_fn=None):
    seen = {}
    meh_ulp = 0
    rr_denoms = set()
    for case in cases:
        try:
            fails, mu = check_case(case)
            meh_ulp += mu
        except Exception as e:
            import traceback
            tb = traceback.extract_tb(e.__traceback__)
            where = "%s:%d" % (tb[-1].filename.split("/")[-1], tb[-1].lineno) if tb else "?"
            fails = [("exception", "C09:exception", "exception %s: %s at %s" % (type(e).__name__, e, where))]
        calls_shape = (case.get("ploidy"), case.get("n"), len(case.get("cols", [])) if "cols" in case else None)
        ctx.case(repr(sorted(case.items(), key=str)), nontrivial=True,
                 sample=(sample_fn(case) if sample_fn else dict(shape=calls_shape, cols=case.get("cols"))))
        by_cls = {}
        for clause, cls, msg in fails:
            by_cls.setdefault(cls, (clause, msg))
        if CLS_RR in by_cls and case.get("ploidy") and case.get("n"):
            rr_denoms.add(case["ploidy"] * case["n"])
        for cls, (clause, msg) in sorted(by_cls.items()):
            if seen.get(cls, 0) >= CAP:
                continue
            seen[cls] = seen.get(cls, 0) + 1
            inp = dict(case)
            inp["_cls"] = cls
            ctx.fail_input("ring:%s" % clause, inp, cls=cls, message=msg)
        unknown = [c for c in seen if c not in (CLS_RR, CLS_GT)]
        if sum(seen[c] for c in unknown) >= 6:
            break
    if meh_ulp:
        ctx.notes.append("meh(): phased and projected results differed in the last digit(s) in %d comparisons "
                         "((p*(1-p)).sum() vs dot(p,1-p)); compared to rounding, not bitwise" % meh_ulp)
    if rr_denoms:
        ctx.notes.append("%s at ploidy*ntaxa in %s%s" % (CLS_RR, sorted(rr_denoms)[:80], " ..." if len(rr_denoms) > 80 else ""))
    ctx.notes.append("failure classes seen: %s" % (dict(seen) or "none"))


# ---- unit 1: exhaustive small scopes ----------------------------------------------------------------
def gen_exhaustive(tier):
    scopes = [(2, 1, 1), (2, 1, 2), (2, 1, 3), (2, 2, 1), (2, 2, 2), (2, 3, 1),
              (1, 1, 1), (1, 2, 1), (1, 2, 2), (1, 3, 2), (3, 1, 1), (3, 2, 1), (3, 1, 2), (4, 1, 1), (4, 1, 2)]
    if tier == "thorough":
        scopes += [(2, 4, 1), (2, 3, 2), (2, 2, 3), (1, 4, 2), (3, 2, 2), (3, 3, 1), (4, 2, 1), (1, 3, 3), (2, 5, 1)]
    for k, n, p in scopes:
        for bits in itertools.product((0, 1), repeat=k * n * p):
            it = iter(bits)
            mat = [[[next(it) for _ in range(p)] for _ in range(n)] for _ in range(k)]
            yield dict(mat=mat, ploidy=k, n=n, meta=(sum(bits) % 2 == 1))
    # zero loci: every statistic except the mean over loci is defined and empty
    for k, n in ((2, 1), (2, 3), (1, 2), (3, 2)):
        yield dict(mat=[[[] for _ in range(n)] for _ in range(k)], ploidy=k, n=n, meta=False)


@unit(P, "ring[exhaustive 0/1 call matrices, small scopes]", "R", bounded=True,
      note="bounded: every 0/1 call matrix with ploidy*ntaxa*nvrnt <= 8 bits (quick; <= 12 bits thorough) for ploidy 1-4, "
           "ntaxa 1-5, nvrnt 0-3; all dtype arguments; phased, projected and genotyped objects")
def u_ring_exhaustive(ctx):
    ctx.rule = ("exhaustive enumeration of all 0/1 raw call matrices per (ploidy, ntaxa, nvrnt) scope; each case checks "
                "10 statistics x all dtype arguments + 3 codings on 3 objects against an integer/Fraction oracle; "
                "distinct by full matrix")
    ctx.exhaustive = True
    _drive(ctx, gen_exhaustive(ctx.tier), sample_fn=lambda c: dict(mat=c["mat"]))


# ---- unit 2: edge taxa counts x locus patterns --------------------------------------------------------
EDGE_N = [1, 2, 3, 5, 49, 64, 98, 103, 128, 200]


def gen_edges(rng, tier):
    full = ["all0", "all1", "het", "one1", "one0", "halfhom", "alt", "rand"]
    for k in (2, 1, 3, 4):
        for n in EDGE_N + ([107, 127, 129, 161, 255, 256, 257, 500] if tier == "thorough" else []):
            variants = [full, ["all1"], ["all0"], ["het"], ["all1", "all0"], ["het", "rand", "rand"]]
            if k != 2 and tier != "thorough":
                variants = [full, ["all1"], ["het", "all0"]]
            for vi, cols in enumerate(variants):
                yield dict(ploidy=k, n=n, cols=list(cols), seed=rng.randrange(10 ** 6), meta=(vi % 2 == 0),
                           layout=("F" if vi == 5 else "C"), grouped=(vi == 0))


@unit(P, "ring[edge taxa counts x fixed/het/near-fixed loci]", "R", bounded=True,
      note="bounded: ntaxa in {1,2,3,5,49,64,98,103,128,200} (+8 more thorough) x ploidy 1-4 x locus patterns "
           "all0/all1/het/one1/one0/halfhom/alt/rand; all dtype arguments")
def u_ring_edges(ctx):
    ctx.rule = ("grid ntaxa x ploidy x column-pattern sets (fully fixed, all heterozygous, one copy off, random); "
                ">127 taxa exercise int8 accumulation, 49/98/103 inexact reciprocals; distinct by (sizes, patterns, seed)")
    _drive(ctx, gen_edges(ctx.rng, ctx.tier))


# ---- unit 3: seeded random matrices ---------------------------------------------------------------------
def gen_random(rng, tier):
    count = 260 if tier == "quick" else 2000
    for i in range(count):
        k = rng.choice([2, 2, 2, 2, 1, 3, 4])
        n = rng.choice([1, 2, 3, 4, 5, 7, 10, 17, 30, 49, 60, 98, 103, 130, 200]) if i % 3 else rng.randint(1, 40)
        p = rng.choice([1, 2, 3, 5, 8, 13])
        cols = []
        for _ in range(p):
            r = rng.random()
            if r < 0.45:
                cols.append("q:%g" % round(rng.random(), 3))
            else:
                cols.append(rng.choice(COLUMN_KINDS))
        yield dict(ploidy=k, n=n, cols=cols, seed=rng.randrange(10 ** 9), meta=rng.random() < 0.5,
                   layout=rng.choice(["C", "C", "F"]), grouped=rng.random() < 0.3)


@unit(P, "ring[seeded random call matrices]", "R", bounded=True,
      note="bounded: 260 (quick) / 2000 (thorough) seeded matrices, ploidy 1-4, ntaxa 1-200, nvrnt 1-13, per-locus allele "
           "frequency from {fixed, near-fixed, uniform random}; C and Fortran layouts; with and without labels")
def u_ring_random(ctx):
    ctx.rule = ("seeded (VERIF_SEED) random sizes and per-locus patterns; distinct by (sizes, patterns, seed); every case "
                "non-trivial (>= 1 taxon, >= 1 locus)")
    _drive(ctx, gen_random(ctx.rng, ctx.tier))


# ---- unit 4: frequency exactness sweep over the number of chromosome copies --------------------------------
def gen_sweep(tier):
    top = 420 if tier == "quick" else 2400
    for n in range(1, top + 1):
        ploidies = (1, 2) if n > 260 else (1, 2, 3, 4)
        for k in ploidies:
            yield dict(mode="lite", ploidy=k, n=n, cols=["all1", "all0", "one1", "one0", "halfhom"], seed=n * 7 + k)


@unit(P, "ring[frequency exactness sweep over ploidy*ntaxa]", "R", bounded=True,
      note="bounded: every ntaxa 1..420 (quick) / 1..2400 (thorough), ploidy 1-2 (1-4 up to 260 taxa); loci all-1, all-0, "
           "one copy 1, one copy 0, half; clauses afreq in [0,1], ==0/==1 iff fixed, maf, afixed, apoly, complement, acount")
def u_ring_sweep(ctx):
    ctx.rule = ("exhaustive over ntaxa in the stated range; per size the boundary allele counts s in {0, 1, c/2, c-1, c}; "
                "distinct by (ploidy, ntaxa)")
    ctx.exhaustive = True
    _drive(ctx, gen_sweep(ctx.tier), sample_fn=lambda c: dict(ploidy=c["ploidy"], n=c["n"]))


REPLAYERS = {
    "ring[exhaustive 0/1 call matrices, small scopes]": _replay,
    "ring[edge taxa counts x fixed/het/near-fixed loci]": _replay,
    "ring[seeded random call matrices]": _replay,
    "ring[frequency exactness sweep over ploidy*ntaxa]": _replay,
}
